#!/bin/sh
# runs every claimed check (quick tier) on the current /repo tree, one after the other; prints one line per property
cd "$(dirname "$0")"
rc=0
for p in $(python3 -c "import json; print(' '.join(c['property_id'] for c in json.load(open('MANIFEST.json'))['checks']))"); do
  out=$(./check $p --tier ${1:-quick} 2>&1); r=$?
  echo "$p exit=$r $(echo "$out" | tail -n 1)"
  echo "$out" | grep "VIOLATION\|UNDECIDED\|KNOWN-FINDING"
  [ $r -ne 0 ] && rc=1
done
exit $rc
