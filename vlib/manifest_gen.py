#!/usr/bin/env python3
"""regenerates /verif/MANIFEST.json from the table below (single source of truth for claims)"""
import json, os
ROOT = os.path.dirname(os.path.dirname(os.path.abspath(__file__)))
TECH = "CBMC function contracts (goto-instrument --dfcc --enforce-contract) on mechanically extracted C"
NOTE_COMMON = ("Trusted: CBMC 6.11 (C front end, DFCC instrumentation, SAT back end), the C++->C extraction idiom map (vlib/cxx2c.py; residual scan + type check, not proved), "
               "struct models of boost::optional/std::vector/std::pair, operator new never fails. ")
CLAIMS = {
 'C07': dict(cat='proof', ref='DESIGN.md 7 (C07)',
   text="Each matching rule of the statement is an ensures clause on getIndex / getSetIndex / getDataFrameIndex / getSampledIndex (extracted from src/Dimensions.cpp on every run); CBMC discharges them for all positions, all tick vectors up to 2^20 entries, all 64-bit label/row counts. Sampled axes: all positions on an enumerated grid of (interval, offset) constants - stated as such, not a proof over all intervals.",
   note=NOTE_COMMON + "Assumed contract of std::lower_bound. Premises: ticks strictly ascending, positions not NaN, |position| < 2^53 on integer axes. Sampled axis: grid of constants, not all intervals."),
 'C01': dict(cat='proof', ref='DESIGN.md 7 (C01), 12',
   text="Kernel claim, appendData only: it rejects an axis outside the rank and any rank or off-axis shape mismatch without touching the array, otherwise grows the extent along the axis by exactly count[axis] and then writes count elements at offset (0,..,old extent[axis],..,0) - 'append = grow then write at old end' as a postcondition for every extent and count.",
   note=NOTE_COMMON + "Kernel only (quick tier ranks 0..4, thorough 0..32): what HDF5 stores and returns, element types, chunking, compression, strings, reopen are not covered; the calibrated read path and the value of the polynomial are not covered (symbolic double products do not terminate in CBMC)."),
 'C05': dict(cat='proof', ref='DESIGN.md 7 (C05), 12',
   text="Kernel claim: the body of the per-dimension assembly loop of getOffsetAndCount(Tag) (region unit): the region asked of the axis is [position, position+extent] in the given mode, a region with elements yields offset = first index and count = last-first+1, a zero extent yields the first element at or after the position (GreaterOrEqual), an empty region raises, other dimensions untouched; taggedData(Tag, array) hands out a DataView only for a block inside the array (offset+count within the extent in every dimension, in the integers) and raises otherwise; featureData(Tag, feature) cuts tagged features like references and returns untagged and indexed features whole (offset 0, count = extent), refuses a feature without data; Tag::getFeature / getReference / featureData(tag, index) raise OutOfBounds for every index past the end and forward every valid one.",
   note=NOTE_COMMON + "KERNEL ONLY: in getOffsetAndCount only the loop body is under contract - the length normalisation / padding of unspecified dimensions, unit defaults and scaling before the loop are NOT covered, and the two index lookups are ghost inputs whose rules are C07's contracts (assumed here, not connected), so 'exactly the elements with p <= c <= p+e' is decided only up to those assumptions. Handles are abstracted to the state read; DataView constructor and positionAndExtentInData contracts are assumed here (the first is proved in C17)."),
 'C06': dict(cat='proof', ref='DESIGN.md 7 (C06), 12',
   text="Kernel claim, two statement regions of dataAccess.cpp: (A) the per-position, per-dimension assembly in getOffsetAndCount(MultiTag): a region with elements yields offset = first index and count = last-first+1, a point (no or zero extent) yields the first element at or after the position, an empty region or a point beyond the axis raises, and no other dimension and no other vector is touched; (B) the Indexed-feature branch: slice i along the first dimension (offset (i,0,..), count (1, extent[1..])), OutOfBounds for an index past the first dimension.",
   note=NOTE_COMMON + "KERNEL ONLY: reading the positions/extents rows, padding of unspecified dimensions, unit scaling, the index-list gate (max_element) and 'list = map(single)' are not covered; the index pair of a region and GreaterOrEqual(position) are ghost inputs (their rules are C07's contracts, not connected here). Region B: ranks 0..3 quick, 0..32 thorough."),
 'C09': dict(cat='proof', ref='DESIGN.md 7 (C09), 12',
   text="Kernel claim: the mode decisions of the open path are postconditions of map_file_mode, of two statement regions of the FileHDF5 constructor (mode forced to Overwrite for a missing path; H5Fopen RDONLY / RDWR vs H5Fcreate TRUNC, exactly one libhdf5 call), of File::open's ReadOnly-on-missing-path guard, of setCreatedAt/setUpdatedAt (written iff missing) and of checkHeader (header defects refused).",
   note=NOTE_COMMON + "Kernel only: that libhdf5 honours H5F_ACC_RDONLY (never changes a byte), that mutating calls fail on a read-only handle and that TRUNC empties the file are assumed, not verified. fileExists / boost::filesystem::exists are one ghost constant."),
 'C10': dict(cat='proof', ref='DESIGN.md 7 (C10)',
   text="The gate in the open path (FileHDF5::checkHeader, the constructor's Force handling) accepts exactly the triples the statement allows, for all modes and both Force values; canRead/canWrite and all six comparison operators of FormatVersion (include/nix/Version.hpp) carry the statement as postconditions over all int triples; order laws (irreflexive, transitive, trichotomy, derived operators) and the read/write gate are lemmas over those contracts.",
   note=NOTE_COMMON + "checkHeader and the constructor statement applying the Force flag are under contract with the header attributes as ghost inputs (every content libhdf5 can report); that libhdf5 returns the stored attributes is assumed. The library version is left arbitrary."),
 'C11': dict(cat='proof', ref='DESIGN.md 7 (C11), 12',
   text="Kernel claim: FileHDF5::close, with loop contracts on both loops: a closed file is left alone; otherwise the three root groups are closed, every identifier libhdf5 lists for the file is driven to reference count 0, and only then the file identifier is closed, exactly once; enumeration errors throw before the file identifier is closed.",
   note=NOTE_COMMON + "Kernel only: libhdf5's identifier table is a ghost array of 8 reference counts with definitional stubs for H5Fget_obj_count / H5Fget_obj_ids / H5Iget_ref / H5Oclose (from the HDF5 manual); durability of flush/close, SIGKILL, reopening and stale entity handles are not covered."),
 'C13': dict(cat='proof', ref='DESIGN.md 7 (C13), 12',
   text="Kernel claim: the invariant of the descriptor list is a postcondition of every entry point under contract - createDimensionGroup only (re)creates the group of an index in 1..count+1 and touches no other; appendRangeDimension / RangeDimension::ticks hand only ascending ticks to the back end; appendSampledDimension / SampledDimension::samplingInterval only positive intervals, at index count+1, with the offset as given.",
   note=NOTE_COMMON + "Kernel only: the back end is a ghost record of what it was asked to store; read-back after reopen, alias redirection (HDF5 hard link), set and data-frame dimensions and deleteDimensions are not covered. std::is_sorted is an assumed contract."),
 'C14': dict(cat='proof', ref='DESIGN.md 7 (C14), 12',
   text="Kernel claim, the Variant tagged union that carries every property value: each set(T) stores the value under the right type tag and releases a previously held string exactly when one was held; each get(T&) returns the stored value and rejects every other type with invalid_argument leaving the output untouched; assign_variant_from (copy constructor / operator= / swap path) copies tag and payload and never shares the string; supports_type is exactly the eight supported types; allocation failure throws without changing the Variant.",
   note=NOTE_COMMON + "Kernel only: PropertyHDF5's dataset (resize/write/read), units, uncertainty and reopen are libhdf5 and not covered. The anonymous union is modelled as separate members (CBMC cost); string contents are inspected only for lengths < 16 (that job is labelled bounded and not counted); set(const char*) (strlen) is an assumed contract; malloc may fail and return NULL."),
 'C18': dict(cat='proof', ref='DESIGN.md 7 (C18), 12',
   text="Kernel claim: (1) lemma over the prefix table extracted from util.cpp on every run: exactly the 20 SI prefixes, each mapped to the literal 10^exponent; (2) getSIScaling's factor selection, by complete case split over power -3..3 and presence of origin/destination prefix: not scalable is rejected, equal prefixes give exactly 1, otherwise the factor is (origin factor / destination factor) raised to the power, with the same operations as the code.",
   note=NOTE_COMMON + "KERNEL ONLY: strings abstracted to ids; splitUnit / isScalable / isSIUnit (boost::regex grammar) are ghost inputs, so the grammar is not covered; pow for integer exponents is repeated multiplication (libm rounding not modelled); the three cases 'negative power with both prefixes present' do not terminate in the solver and are not claimed; reciprocity/composition in double arithmetic and retrieval invariance under rescaling are not covered."),
 'C19': dict(cat='proof', ref='DESIGN.md 7 (C19), 12',
   text="Kernel claim, the rule predicates of src/valid/checks.cpp: dimTicksMatchData / dimLabelsMatchData / dimDataFrameTicksMatchData return false exactly when some Range / Set (with labels) / DataFrame descriptor d below the data rank has a tick / label / row count different from the data extent along d (completeness 'every breach is flagged' for every descriptor, soundness 'conforming descriptors are accepted'), for descriptor vectors of any length under a loop contract; dimEquals is true iff the rank equals the descriptor count. tagUnitsMatchRefsUnits (false iff some given tag unit is not convertible to the given unit of the same dimension of some referenced array) is checked as a BOUNDED stand-in (2 arrays x 3 units) and not counted as proved.",
   note=NOTE_COMMON + "KERNEL ONLY: the rule tables of src/valid/validate.cpp (initializer lists of lambdas: which predicate is attached to which entity, as error or warning, incl. the soft rules) and the walk in File::validate are NOT covered - a rule removed from a table is invisible to this check; helper.cpp getDimensionsUnits, util::isScalable (regex) and the entity getters are abstracted (handles = the state the predicates read; descriptor d has index d+1, which is property C13)."),
 'C16': dict(cat='proof', ref='DESIGN.md 7 (C16), 12',
   text="Kernel claim: per function under contract, CBMC's built-in checks (bounds, pointer validity, pointer arithmetic, signed overflow, float-to-integer conversion, division by zero, shifts) are discharged under type-invariant-only preconditions, i.e. for every argument a C++ caller can form the function returns or raises. Covers the position-to-index functions for all doubles incl. NaN/inf/1e300 and any tick vector.",
   note=NOTE_COMMON + "Kernel only: absence of UB for sequences of API calls, handle lifetimes after delete/close and libhdf5 internals are not covered."),
 'C17': dict(cat='proof', ref='DESIGN.md 7 (C17)',
   text="NDSize element-wise comparisons and arithmetic, the DataView constructor window test, transform_coordinates and ioRead/ioWrite carry the window sentences of the statement (inside the window, at origin+offset, error without transfer) as postconditions with window arithmetic in the integers (no wrap-around).",
   note=NOTE_COMMON + "NDSize rank <= 32 (H5S_MAX_RANK); ioRead/ioWrite: ranks 0..4 in the quick tier, 0..32 in the thorough tier. DataArray handle abstracted to its extent; the back-end transfer is a ghost record (libhdf5 not verified). Not covered yet: dataSlice / position-based slicing."),
}
NA = {
 'C02': "entity tree after reopen is libhdf5 on-disk state; no nix function computes it, so no contract can state it",
 'C03': "name uniqueness, creation order and index lookup are HDF5 link-table facts behind H5L* calls",
 'C04': "dangling-reference freedom is reachability in the HDF5 hard-link graph, a whole-history property of external state",
 'C08': "'no trace' is a frame condition over the HDF5 file between libhdf5 calls; the frame belongs to libhdf5",
 'C12': "id uniqueness across processes is a probabilistic multi-process hyperproperty (time(0) seed, mt19937)",
 'C15': "cell round trip is HDF5 compound-type conversion inside H5Dread/H5Dwrite",
 'C20': "breadth-first search over std::list/std::function on HDF5-backed handles; not extractable without writing a model",
}
PENDING = {}
def main():
    extra = json.load(open(os.path.join(ROOT, 'vlib', 'claims_extra.json'))) if os.path.exists(os.path.join(ROOT, 'vlib', 'claims_extra.json')) else {}
    checks = []
    for pid in sorted(CLAIMS):
        c = CLAIMS[pid]
        checks.append({"property_id": pid, "quick_cmd": "./check %s --tier quick" % pid, "thorough_cmd": "./check %s --tier thorough" % pid,
                       "evidence_file": "evidence/%s.json" % pid, "replay_cmd_template": "./check %s --replay {path}" % pid,
                       "engine": "cbmc-contracts", "level_claimed": {"category": c['cat'], "text": c['text'], "design_ref": c['ref']},
                       "level_note": c['note'], "technique": TECH})
    na = [{"property_id": k, "reason": v} for k, v in sorted({**NA, **{k: v for k, v in PENDING.items() if k not in CLAIMS}}.items())]
    m = {"version": 1, "setup_cmd": "python3 vlib/selftest.py --setup",
         "hooks": {"guard": "NIX_VERIF", "enable": "none needed: contracts, loop invariants and stubs live in /verif/vlib and are attached to C text extracted from /repo on every run; no source in /repo is built with the guard",
                   "baseline_off_cmd": "cmake --build /repo/_build -j14 && ctest --test-dir /repo/_build -j1 --timeout 900", "source_commits": [], "add_only": True},
         "engines": [{"name": "cbmc-contracts", "path": "vlib/", "serves_properties": sorted(CLAIMS),
                      "kind_free_text": "mechanical C++->C extraction of the functions a property depends on (vlib/cxx2c.py), CBMC 6.11 function/loop contracts enforced per function with goto-instrument --dfcc, SAT back end"}],
         "checks": checks, "not_applicable": na,
         "notes": "Single entry point ./check <Cnn>. Exit 0 = all obligations discharged; 1 = VIOLATION lines; 2 = UNDECIDED (extraction/solver/vacuity), never a violation."}
    json.dump(m, open(os.path.join(ROOT, 'MANIFEST.json'), 'w'), indent=1)
if __name__ == '__main__':
    main()
