"""From a failed obligation to a replay file (DESIGN.md section 6).

 1. counterexample: cbmc --trace on the failed obligation.  For units with array inputs the search is
    repeated in *witness mode* (arrays of at most 4 elements, mirrored into globals the harness assigns,
    the full premise - e.g. strictly ascending ticks - assumed explicitly) so the input is concrete.
 2. native run: the counterexample input is fed to the REAL function - a C++ driver that #includes the
    translation unit from /repo's working tree and is linked against libnixio for everything else.
 3. oracle: the failed ensures clause is evaluated by CBMC on (input, observed output) as constants:
    the contract header is reused unchanged, the body is replaced by 'return <observed>'.
 The violation is reported in every case; `found` says whether 2+3 confirmed it on the real code."""
import os, re, json, subprocess, struct, tempfile, shutil, time
import drive as D, unit as U

HERE = os.path.dirname(os.path.abspath(__file__))
REPO = U.REPO
CXXFLAGS = ['-std=c++11', '-O0', '-g', '-w', '-DH5_USE_110_API=1', '-I' + REPO + '/include', '-I/usr/include/hdf5/serial',
            '-I/repo/_build/include', '-I' + REPO + '/backend']
LDFLAGS = ['-L/repo/_build', '-Wl,-rpath,/repo/_build', '-lnixio', '-lhdf5_serial', '-lboost_regex', '-lboost_filesystem', '-lboost_system', '-lboost_date_time']

def bits_to_double(b):
    return struct.unpack('>d', int(b, 2).to_bytes(8, 'big'))[0]

def cxx_double(bits):
    return 'bits2d(0x%016xULL)' % int(bits, 2)

def c_double(bits):
    v = bits_to_double(bits)
    if v != v: return '(0.0/0.0)'
    if v in (float('inf'), float('-inf')): return '(%s1.0/0.0)' % ('-' if v < 0 else '')
    return float(v).hex()

def first_val(vals, name, fns):
    for ent in vals.get(name, []):
        if ent['fn'] in fns or ent['fn'] is None:
            return ent
    return (vals.get(name) or [None])[0]

def get_inputs(vals, sig, cname, rspec):
    """scalar parameter values from the trace (harness-level assignments)"""
    ins = {}
    for ty, nm, ptr in sig['params']:
        ent = first_val(vals, nm, ('h_' + cname,))
        if ent is None:
            return None
        ins[nm] = ent
    for g in rspec.get('globals', []):
        ent = first_val(vals, g, ())
        if ent is None:
            return None
        ins[g] = ent
    return ins

def make_replay(pid, v, spec, extracted, sigs, ROOT):
    job = v['job']; key = v['key']; res = v['res']
    js = job.spec
    fn = (job.enforce or [job.entry])[0]
    safe = re.sub(r'[^\w\-\.]+', '_', '%s__%s' % (job.jobname, key))
    path = os.path.join(ROOT, 'replays', pid, safe + '.json')
    rec = {'property': pid, 'obligation': key, 'cbmc_property': res['name'], 'job': job.jobname, 'function': fn,
           'description': res['desc'], 'defines': job.defines, 'checker_cmd': '', 'found': False}
    out_tail = '\n'.join(l for l in v['log'].splitlines() if 'FAILURE' in l)[:4000]
    rec['verifier_output'] = out_tail
    unit = spec['units'].get(fn) if fn in spec['units'] else None
    rspec = (unit or {}).get('replay') or js.get('replay')
    found = False
    try:
        if rspec:
            found = try_confirm(rec, job, res, rspec, sigs, fn, extracted)
        else:
            rec['note'] = 'no native replay driver for this unit: the failed obligation and the verifier output are the report'
            vals, tail = D.trace_for(job, res['name'], 300)
            if vals:
                rec['counterexample'] = {k: (x[0]['value'] if x else None) for k, x in vals.items()
                                         if not k.startswith('__') and 'contract' not in k and len(k) < 40}
    except Exception as e:
        rec['replay_error'] = repr(e)
    rec['found'] = bool(found)
    with open(path, 'w') as f:
        json.dump(rec, f, indent=1, default=str)
    return path, bool(found)

def try_confirm(rec, job, res, rspec, sigs, fn, extracted):
    wd = job.workdir
    sig = sigs[fn]
    j2 = job
    prop = res['name']
    if rspec.get('witness_harness'):
        # witness mode: concrete small arrays under the full premise
        j2 = D.Job(**job.__dict__)
        j2.jobname = job.jobname + '.wit'
        src = open(job.cfile).read()
        src = src[:src.rindex('void h_%s(void)' % fn)] + open(os.path.join(HERE, 'lemmas', rspec['witness_harness'])).read()
        j2.cfile = os.path.join(wd, re.sub(r'[^\w]', '_', j2.jobname) + '.c')
        j2.jobname = re.sub(r'[^\w]', '_', j2.jobname)
        open(j2.cfile, 'w').write(src)
        j2.defines = job.defines + ['NIX_WITNESS'] + (['FV_FN=' + fn] if rspec.get('witness_define_fn') else [])
        j2.entry = 'h_wit_' + fn
        r = D.run_job(j2)
        if not any(x['name'] == prop and x['status'] == 'FAILURE' for x in r['results']):
            rec['note'] = 'obligation fails for the symbolic input but no witness with at most 4 array elements exists'
            return False
    vals, tail = D.trace_for(j2, prop, 300)
    if not vals:
        rec['note'] = 'no trace available'; rec['trace_tail'] = tail
        return False
    sigp = dict(sig)
    ins = get_inputs(vals, sigp, fn if not rspec.get('witness_harness') else 'wit_' + fn, rspec) if not rspec.get('witness_harness') else None
    if rspec.get('witness_harness'):
        ins = {}
        for g in rspec['globals']:
            ent = first_val(vals, g, ('h_wit_' + fn,))
            if ent is None:
                rec['note'] = 'witness global %s not in trace' % g; return False
            ins[g] = ent
    if ins is None:
        rec['note'] = 'could not read all inputs from the trace'; return False
    rec['input'] = {k: {'value': e['value'], 'binary': e.get('binary')} for k, e in ins.items()}
    # ---- native run of the real function ----
    obs = native_run(rec, rspec, ins, fn, wd)
    if obs is None:
        return False
    rec['observed'] = obs
    # ---- oracle: evaluate the failed clause on (input, observed) ----
    ok = oracle(rec, job, res, rspec, sigs, fn, ins, obs, wd)
    return ok

def fmt_arg(kind, ent):
    if kind == 'double': return cxx_double(ent['binary'])
    if kind in ('u64', 'size'): return '%dULL' % int(ent['binary'], 2)
    if kind == 'int':
        n = int(ent['binary'], 2); w = len(ent['binary'])
        if n >= 1 << (w - 1): n -= 1 << w
        return '%d' % n
    if kind == 'bool': return 'true' if int(ent['binary'], 2) else 'false'
    raise ValueError(kind)

def native_run(rec, rspec, ins, fn, wd):
    subst = {k: fmt_arg(rspec['kinds'][k], e) for k, e in ins.items()}
    body = rspec['driver'].format(**subst)
    src = '#include <cstdio>\n#include <cstring>\n#include <cstdint>\n#include "%s/%s"\n' % (REPO, rspec['tu'])
    src += 'static double bits2d(unsigned long long b){ double d; std::memcpy(&d,&b,8); return d; }\n'
    src += 'static unsigned long long d2bits(double d){ unsigned long long b; std::memcpy(&b,&d,8); return b; }\n'
    src += 'int main(){ try {\n' + body + '\n} catch (const std::exception &e) { std::printf("EXC %s\\n", typeid(e).name()); } return 0; }\n'
    cpp = os.path.join(wd, 'replay_%s.cpp' % fn)
    exe = os.path.join(wd, 'replay_%s.exe' % fn)
    open(cpp, 'w').write(src)
    rec['native_driver'] = src
    p = subprocess.run(['g++'] + CXXFLAGS + ['-fsanitize=address,undefined', '-fno-sanitize-recover=undefined', cpp, '-o', exe] + LDFLAGS,
                       stdout=subprocess.PIPE, stderr=subprocess.STDOUT, text=True)
    if p.returncode != 0:
        rec['note'] = 'native replay driver did not compile'; rec['compile_log'] = p.stdout[-3000:]
        return None
    p = subprocess.run([exe], stdout=subprocess.PIPE, stderr=subprocess.STDOUT, text=True, timeout=120,
                       env=dict(os.environ, ASAN_OPTIONS='detect_leaks=0'))
    rec['native_output'] = p.stdout[-3000:]
    if p.returncode != 0:
        rec['native_crash'] = True
        return {'crash': p.returncode}
    obs = {}
    for line in p.stdout.splitlines():
        m = re.match(r'^OBS (\w+) (\S+)$', line)
        if m: obs[m.group(1)] = m.group(2)
        if line.startswith('EXC '): obs['exception'] = line[4:]
    return obs

def oracle(rec, job, res, rspec, sigs, fn, ins, obs, wd):
    if obs.get('crash') is not None:
        rec['verdict'] = 'real code crashed / sanitizer report on the counterexample input'
        return True
    sig = sigs[fn]
    src = open(job.cfile).read()
    # cut the extracted body of fn and the harness; keep prelude, enums, contract headers
    cut = src.index('/* extracted from')
    head = src[:cut]
    body = '%s\n{\n%s\n}\n' % (sig['proto'], rspec['oracle_body'].format(**obs, **{('in_' + k): c_in(rspec['kinds'][k], e) for k, e in ins.items()}))
    harness = 'void h_oracle(void) {\n%s\n}\n' % rspec['oracle_harness'].format(**{k: c_in(rspec['kinds'][k], e) for k, e in ins.items()})
    cfile = os.path.join(wd, 'oracle_%s.c' % fn)
    open(cfile, 'w').write(head + body + harness)
    j = D.Job(**job.__dict__)
    j.jobname = 'oracle_' + fn; j.cfile = cfile; j.entry = 'h_oracle'; j.replace = []
    j.defines = [d for d in job.defines] + ['NIX_WITNESS', 'NIX_ORACLE'] + (['FV_FN=' + fn] if rspec.get('witness_define_fn') else [])
    r = D.run_job(j)
    st = [x for x in r['results'] if x['name'] == res['name']]
    rec['oracle'] = {'status': st[0]['status'] if st else 'absent', 'cbmc': r['status']}
    if st and st[0]['status'] == 'FAILURE':
        rec['verdict'] = 'real code violates the clause on this input'
        return True
    rec['verdict'] = 'real code satisfies the clause on the verifier\'s input (counterexample relies on assumed contracts or on UB that is benign here)'
    return False

def c_in(kind, ent):
    if kind == 'double': return c_double(ent['binary'])
    if kind in ('u64', 'size'): return '%dULL' % int(ent['binary'], 2)
    if kind == 'int':
        n = int(ent['binary'], 2); w = len(ent['binary'])
        if n >= 1 << (w - 1): n -= 1 << w
        return '%d' % n
    if kind == 'bool': return '1' if int(ent['binary'], 2) else '0'
    raise ValueError(kind)

def rerun(path):
    rec = json.load(open(path))
    print(json.dumps({k: rec.get(k) for k in ('property', 'obligation', 'function', 'input', 'observed', 'verdict', 'found')}, indent=1))
    if rec.get('native_driver'):
        wd = tempfile.mkdtemp(prefix='nixreplay_')
        try:
            cpp = os.path.join(wd, 'r.cpp'); exe = os.path.join(wd, 'r.exe')
            open(cpp, 'w').write(rec['native_driver'])
            p = subprocess.run(['g++'] + CXXFLAGS + ['-fsanitize=address,undefined', cpp, '-o', exe] + LDFLAGS, stdout=subprocess.PIPE, stderr=subprocess.STDOUT, text=True)
            if p.returncode:
                print(p.stdout[-2000:]); return 2
            p = subprocess.run([exe], stdout=subprocess.PIPE, stderr=subprocess.STDOUT, text=True, env=dict(os.environ, ASAN_OPTIONS='detect_leaks=0'))
            print('native run on current /repo working tree:\n' + p.stdout)
            same = p.stdout[-3000:] == rec.get('native_output')
            print('same output as recorded:', same)
            return 1 if (same and rec.get('found')) else 0
        finally:
            shutil.rmtree(wd, ignore_errors=True)
    print('no native driver recorded (no-failing-input-found): verifier output follows\n' + rec.get('verifier_output', ''))
    return 1
