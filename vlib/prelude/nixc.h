/* C vocabulary shared by every extracted unit (DESIGN.md section 5).
   Nothing in here is a model of nix code: only value types of the C++ standard library /
   boost that the extracted functions mention, the exception ghost, and helper macros. */
#ifndef NIXC_H
#define NIXC_H
#include <stddef.h>
#include <stdint.h>
#include <stdbool.h>
#include <float.h>
#include <math.h>
#include <stdlib.h>
#include <string.h>
#include <limits.h>

typedef unsigned long long int ndsize_t;   /* include/nix/types.hpp */
typedef long long int ndssize_t;

/* boost::optional<T>, std::pair<A,B>: plain value types.  'has' is an int, not a _Bool: when a contract that returns an
   optional replaces a call, the havocked return value may hold any byte in a _Bool, and 'has <==> c' then misfires */
typedef struct { int has; ndsize_t val; } opt_ndsize;
typedef struct { ndsize_t first; ndsize_t second; } pair_ndsize;
typedef struct { double first; double second; } pair_double;
typedef struct { int has; pair_ndsize val; } opt_pair;
typedef struct { int has; double val; } opt_double;
typedef struct { int has; unsigned val; } opt_unsigned;

static inline opt_ndsize opt_some_ndsize(ndsize_t v) { opt_ndsize o; o.has = 1; o.val = v; return o; }
static inline opt_pair opt_some_pair(pair_ndsize v) { opt_pair o; o.has = 1; o.val = v; return o; }
static inline opt_double opt_some_double(double v) { opt_double o; o.has = 1; o.val = v; return o; }
static inline opt_unsigned opt_some_unsigned(unsigned v) { opt_unsigned o; o.has = 1; o.val = v; return o; }
static inline pair_ndsize mk_pair_ndsize(ndsize_t a, ndsize_t b) { pair_ndsize p; p.first = a; p.second = b; return p; }
static inline pair_double mk_pair_double(double a, double b) { pair_double p; p.first = a; p.second = b; return p; }
#define OPT_NONE_ndsize ((opt_ndsize){0, 0})
#define OPT_NONE_pair ((opt_pair){0, {0, 0}})
#define OPT_NONE_double ((opt_double){0, 0.0})
#define OPT_NONE_unsigned ((opt_unsigned){0, 0})
/* 'x = boost::none' : the target type is known to the C compiler through a generic selection */
#define OPT_NONE_FOR(x) _Generic((x), opt_ndsize: OPT_NONE_ndsize, opt_pair: OPT_NONE_pair, opt_double: OPT_NONE_double, opt_unsigned: OPT_NONE_unsigned)

/* std::vector<T>: data pointer + length.  Elements are never owned by extracted code. */
typedef struct { double *data; size_t n; } vec_double;
typedef struct { ndsize_t *data; size_t n; } vec_ndsize;
typedef struct { opt_pair *data; size_t n; } vec_opt_pair;
typedef struct { pair_ndsize *data; size_t n; } vec_pair;
typedef struct { pair_double *data; size_t n; } vec_dpair;
typedef struct { size_t n; } vec_string;     /* contents of strings are never inspected */
#define VEC_MAX ((size_t)1 << 20)            /* object-size limit of the tool, see DESIGN 5 */

/* new T[n]: allocation is assumed to succeed (std::bad_alloc is outside every contract; listed as assumption) */
static inline void *nix_new_array(size_t n, size_t sz) { void *p = malloc(n * sz); __CPROVER_assume(p != NULL); return p; }

/* exception ghost: which exception (if any) is in flight */
typedef enum { EXC_NONE = 0, EXC_OutOfBounds, EXC_IncompatibleDimensions, EXC_out_of_range, EXC_runtime_error,
               EXC_invalid_argument, EXC_InvalidFile, EXC_H5Exception, EXC_H5Error, EXC_InvalidUnit, EXC_UnsortedTicks,
               EXC_InvalidRank, EXC_UninitializedEntity, EXC_bad_alloc, EXC_InvalidDimension, EXC_MissingAttr,
               EXC_DuplicateName, EXC_InvalidName, EXC_EmptyString, EXC_ConsistencyError, EXC_length_error,
               EXC_bad_cast } nix_exc_t;
extern nix_exc_t nix_exc;

/* ghost index: never assigned, so a clause mentioning it is proved for every value */
extern size_t ghost_k;
extern size_t ghost_j;

typedef double *double_iter;                 /* std::vector<double>::iterator */
/* premise flag: "the tick vector handed to this call is strictly ascending" (C07 premise).  Never
   assigned; functional clauses are conditioned on it, safety clauses are not. */
extern bool ghost_ticks_ascending;

/* replay witness mirrors (vlib/replay.py) */
extern double g_w0, g_w1, g_w2, g_w3, g_wp; extern size_t g_wn; extern int g_wm;

/* vacuity canary: NIX_CANARY(f) expands to an ensures(false) clause only in the job that enforces f
   (the driver passes -DNIX_CANARY_f=...); the clause must FAIL, otherwise the requires are contradictory. */
#define NIX_CANARY(f) NIX_CANARY_##f
/* NIX_SEL(f, a, b): a in the job that enforces f's contract, b where f's contract replaces a call.
   Used for pointer preconditions: __CPROVER_is_fresh when enforcing (allocates the inputs), the much cheaper
   __CPROVER_r_ok / w_ok validity when the contract is checked at a call site. */
#define NIX_SEL(f, a, b) NIX_SEL_##f(a, b)
#include "canary_defaults.h"

#define NIX_THROWS /* marker read by vlib/unit.py: the callee may set nix_exc */
#endif
