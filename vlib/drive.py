"""Build goto binaries for extracted units, instrument contracts, run CBMC, parse results."""
import os, re, subprocess, json, time, shlex, resource
import unit as U
from cxx2c import ExtractError, strip_comments

HERE = os.path.dirname(os.path.abspath(__file__))
CBMC_CHECKS = ['--bounds-check', '--pointer-check', '--pointer-overflow-check', '--div-by-zero-check',
               '--signed-overflow-check', '--conversion-check', '--undefined-shift-check', '--pointer-primitive-check', '--object-bits', '12']
MEM_KB = 12 * 1024 * 1024
LIBC = {'time', 'clock', 'difftime', 'mktime', 'gmtime', 'localtime', 'strftime', 'atoi', 'atol', 'strtol', 'strtoul', 'strtod', 'snprintf', 'sprintf', 'printf', 'puts', 'abs', 'labs', 'llabs', 'malloc', 'free', 'realloc', 'calloc', 'memcpy', 'memmove', 'memset', 'memcmp', 'strlen', 'strcmp', 'strncmp', 'strcpy', 'floor', 'ceil', 'round', 'fabs', 'isnan', 'isinf',
        'pow', 'sqrt', 'abort', 'exit', 'trunc', 'fmod', 'lround', 'llround', 'nearbyint', 'rint', '__builtin_isnan', '__builtin_isinf', '__isnan', '__isinf', '__fpclassify', '__signbit',
        '__builtin_nan', '__builtin_inf', '__builtin_huge_val', 'nan', '__isnanf', '__isinff', '__builtin_fabs', '__builtin_floor', '__builtin_ceil'}

class Undecided(Exception):
    pass

def sh(cmd, timeout, cwd=None, mem=True):
    def lim():
        if mem:
            resource.setrlimit(resource.RLIMIT_AS, (MEM_KB * 1024, MEM_KB * 1024))
    t0 = time.time()
    try:
        p = subprocess.run(cmd, cwd=cwd, stdout=subprocess.PIPE, stderr=subprocess.STDOUT, timeout=timeout, preexec_fn=lim, text=True, errors='replace')
        return p.returncode, p.stdout, time.time() - t0
    except subprocess.TimeoutExpired as e:
        out = e.stdout or ''
        if isinstance(out, bytes): out = out.decode(errors='replace')
        return -9, out + '\n[timeout after %ds]' % timeout, time.time() - t0

def gen_harness(cname, sig):
    """harness: every parameter nondeterministic (uninitialised local); requires clauses constrain them"""
    lines = ['void h_%s(void) {' % cname]
    args = []
    for ty, nm, ptr in sig['params']:
        lines.append('  %s %s%s;' % (ty, '*' * int(ptr), nm))
        args.append(nm)
    lines.append('  %s(%s);' % (cname, ', '.join(args)))
    lines.append('}')
    return '\n'.join(lines) + '\n'

RESULT_RE = re.compile(r'^\[(?P<name>[^\]]+)\] (?:line (?P<line>\d+) )?(?P<desc>.*): (?P<status>SUCCESS|FAILURE|UNKNOWN|ERROR)$', re.M)

def parse_results(out):
    res = []
    for m in RESULT_RE.finditer(out):
        res.append({'name': m.group('name'), 'line': int(m.group('line')) if m.group('line') else None,
                    'desc': m.group('desc'), 'status': m.group('status')})
    return res

def clause_labels(pre_text, cname):
    """labels of the ensures / requires clauses of cname's contract in preprocessed (comments kept) text, in order"""
    for m in re.finditer(r'\b%s\s*\(' % re.escape(cname), pre_text):
        # skip parameter list
        i = m.end() - 1; d = 0
        while i < len(pre_text):
            if pre_text[i] == '(': d += 1
            elif pre_text[i] == ')':
                d -= 1
                if d == 0: break
            i += 1
        j = i + 1
        mm = re.compile(r'(?:\s|/\*.*?\*/)*__CPROVER_(requires|ensures|assigns)', re.S).match(pre_text, j)
        if not mm:
            continue
        ens, req = [], []
        while True:
            mm = re.compile(r'(?:\s|/\*.*?\*/)*__CPROVER_(\w+)\s*\(', re.S).match(pre_text, j)
            if not mm: break
            kind = mm.group(1)
            k = mm.end() - 1; d = 0; in_c = False
            while k < len(pre_text):
                if in_c:
                    if pre_text.startswith('*/', k): in_c = False; k += 1
                elif pre_text.startswith('/*', k): in_c = True; k += 1
                elif pre_text[k] == '(': d += 1
                elif pre_text[k] == ')':
                    d -= 1
                    if d == 0: break
                k += 1
            body = pre_text[mm.end():k]
            lm = re.match(r'\s*/\*\s*([\w\-\.: ]+?)\s*\*/', body)
            lab = lm.group(1) if lm else None
            if lab is None:
                lm = re.search(r'"(COVER-[\w\-]+)"', body)
                lab = lm.group(1) if lm else None
            if kind == 'ensures': ens.append(lab)
            elif kind == 'requires': req.append(lab)
            j = k + 1
        return ens, req
    return [], []

class Job:
    """one cbmc run: a unit (function under contract) or a lemma, with a set of -D defines"""
    def __init__(self, **kw):
        self.__dict__.update(kw)

def write_unit_c(workdir, name, includes, enum_text, bodies, extra=''):
    path = os.path.join(workdir, name + '.c')
    with open(path, 'w') as f:
        f.write('#include "nixc.h"\n')
        f.write(enum_text)
        for inc in includes:
            f.write('#include "%s"\n' % inc)
        f.write('nix_exc_t nix_exc; size_t ghost_k; size_t ghost_j; bool ghost_ticks_ascending;\ndouble g_w0, g_w1, g_w2, g_w3, g_wp; size_t g_wn; int g_wm; size_t g_slen;\n')
        for b in bodies:
            f.write(b + '\n')
        f.write(extra)
    return path

def run_job(job):
    """returns dict(status, results, log, wall, cmd)"""
    wd = job.workdir
    base = os.path.join(wd, getattr(job, 'filebase', None) or job.jobname)
    inc = ['-I', wd, '-I', os.path.join(HERE, 'prelude'), '-I', os.path.join(HERE, 'contracts'), '-I', os.path.join(HERE, 'stubs'), '-I', os.path.join(HERE, 'lemmas')]
    defs = ['-D' + d for d in job.defines] + ['-DNIXC_CBMC']
    defs += ['-DNIX_CANARY_%s=__CPROVER_ensures(0&&"COVER-canary")' % f for f in job.enforce]
    t0 = time.time()
    rc, out, _ = sh(['goto-cc', '--function', job.entry] + inc + defs + [job.cfile, '-o', base + '.a.gb'], 120)
    if rc != 0:
        return {'status': 'undecided', 'reason': 'goto-cc failed', 'log': out, 'results': [], 'wall': time.time() - t0, 'cmd': ''}
    # an undeclared callee is an implicit declaration in C and would silently become a nondeterministic function
    known = getattr(job, 'known', None)
    if known is not None:
        rc, out_u, _ = sh(['goto-instrument', '--list-undefined-functions', base + '.a.gb'], 120)
        und = [l.strip() for l in out_u.splitlines() if re.match(r'^[A-Za-z_]\w*$', l.strip())]
        bad = [u for u in und if not u.startswith('__CPROVER') and not u.startswith('nondet_') and u not in known and u not in LIBC]
        if bad:
            return {'status': 'undecided', 'reason': 'call of undeclared function(s) %s: the extraction produced a name no header declares' % ', '.join(sorted(bad)),
                    'log': out_u, 'results': [], 'wall': time.time() - t0, 'cmd': ''}
    cmd_i = ['goto-instrument', '--dfcc', job.entry]
    for f in job.enforce: cmd_i += ['--enforce-contract', f]
    for f in job.replace: cmd_i += ['--replace-call-with-contract', f]
    cur = base + '.a.gb'
    if job.unwind_first:
        # nested loops without contracts must be unwound before loop contracts are applied
        rc, out, _ = sh(['goto-instrument'] + job.unwind_first + [cur, base + '.u.gb'], 120)
        if rc != 0:
            return {'status': 'undecided', 'reason': 'goto-instrument unwind failed', 'log': out, 'results': [], 'wall': time.time() - t0, 'cmd': ''}
        cur = base + '.u.gb'
    if job.loop_contracts: cmd_i += ['--apply-loop-contracts']
    cmd_i += [cur, base + '.b.gb']
    rc, out_i, _ = sh(cmd_i, 300)
    # contracts of functions this unit never calls are not in the binary: drop them from the replace list
    while rc != 0:
        m = re.search(r"Function to replace '(\w+)' not found", out_i)
        if not m or m.group(1) not in job.replace: break
        k = cmd_i.index(m.group(1)); del cmd_i[k - 1:k + 1]
        job.replace = [r for r in job.replace if r != m.group(1)]
        rc, out_i, _ = sh(cmd_i, 300)
    if rc != 0:
        return {'status': 'undecided', 'reason': 'goto-instrument failed', 'log': out_i, 'results': [], 'wall': time.time() - t0, 'cmd': ' '.join(cmd_i)}
    checks = list(CBMC_CHECKS)
    ob = (getattr(job, 'spec', None) or {}).get('object_bits')
    if ob:
        checks[checks.index('--object-bits') + 1] = str(ob)
    cmd_c = ['cbmc'] + checks + job.cbmc_flags + [base + '.b.gb']
    if getattr(job, 'spec', None) and job.spec.get('split'):
        rc, out, wall = run_split(job, cmd_c)
    else:
        rc, out, wall = sh(cmd_c, job.timeout)
    res = parse_results(out)
    st = 'ok'
    reason = ''
    if rc == -9:
        st, reason = 'undecided', 'timeout %ds' % job.timeout
    elif 'VERIFICATION SUCCESSFUL' in out:
        st = 'ok'
    elif 'VERIFICATION FAILED' in out:
        st = 'failed'
    else:
        st, reason = 'undecided', 'cbmc gave no verdict (rc=%d)' % rc
    if re.search(r'ignoring (forall|exists)', out):
        st, reason = 'undecided', 'quantifier ignored by back end'
    job.cmd_c = cmd_c
    return {'status': st, 'reason': reason, 'results': res, 'log': out, 'wall': wall,
            'cmd': ' '.join(shlex.quote(c) for c in cmd_i) + ' && ' + ' '.join(shlex.quote(c) for c in cmd_c), 'binary': base + '.b.gb'}

def run_split(job, cmd_c):
    """all-properties mode can be far slower than the sum of its parts: check every contract obligation of the
    enforced function in its own cbmc process and the remaining (built-in safety) properties in one more"""
    from concurrent.futures import ThreadPoolExecutor
    t0 = time.time()
    rc, out, _ = sh(cmd_c[:-1] + ['--show-properties', '--json-ui', cmd_c[-1]], 300)
    try:
        js = json.loads(out)
    except Exception:
        return 1, out, time.time() - t0
    names = []
    for item in js:
        if isinstance(item, dict) and 'properties' in item:
            names = [p['name'] for p in item['properties']]
    fn = (job.enforce or [job.entry])[0]
    single = [n for n in names if re.match(r'^%s\.(postcondition|assertion)\.\d+$' % re.escape(fn), n)]
    rest = [n for n in names if n not in single]
    groups = [[n] for n in single]
    # the remaining properties in chunks
    CH = 400
    groups += [rest[i:i + CH] for i in range(0, len(rest), CH)]
    def one(g):
        args = []
        for n in g: args += ['--property', n]
        return sh(cmd_c[:-1] + args + [cmd_c[-1]], job.timeout)
    with ThreadPoolExecutor(max_workers=job.spec.get('split_workers', 6)) as ex:
        outs = list(ex.map(one, groups))
    rcs = [o[0] for o in outs]
    text = '\n'.join(o[1] for o in outs)
    if any(r == -9 for r in rcs):
        return -9, text, time.time() - t0
    verdict = 'VERIFICATION FAILED' if any('VERIFICATION FAILED' in o[1] for o in outs) else \
              ('VERIFICATION SUCCESSFUL' if all('VERIFICATION SUCCESSFUL' in o[1] for o in outs) else 'NO VERDICT')
    # strip per-run verdict lines, append the combined one
    text = re.sub(r'VERIFICATION (FAILED|SUCCESSFUL)', '', text) + '\n' + verdict + '\n'
    return max(rcs), text, time.time() - t0

def trace_for(job, prop, timeout=300):
    """counterexample for one failed property as {lhs: value} of harness-level assignments"""
    base = os.path.join(job.workdir, getattr(job, 'filebase', None) or job.jobname)
    cmd = ['cbmc'] + CBMC_CHECKS + job.cbmc_flags + ['--property', prop, '--trace', '--json-ui', base + '.b.gb']
    rc, out, wall = sh(cmd, timeout)
    try:
        js = json.loads(out)
    except Exception:
        return None, out[-4000:]
    vals = {}
    steps = []
    for item in js:
        if isinstance(item, dict) and 'result' in item:
            for r in item['result']:
                if r.get('property') == prop and 'trace' in r:
                    steps = r['trace']
    for s in steps:
        if s.get('stepType') == 'assignment' and not s.get('hidden'):
            lhs = s.get('lhs'); v = s.get('value', {})
            if lhs is None: continue
            fn = (s.get('sourceLocation') or {}).get('function', '')
            vals.setdefault(lhs, []).append({'value': v.get('data', v.get('name')), 'binary': v.get('binary'), 'fn': fn,
                                             'line': (s.get('sourceLocation') or {}).get('line')})
    return vals, out[-2000:]


def cross_check(job, r, solver='cadical'):
    """thorough tier: the same instrumented binary on a second SAT back end; every obligation must get the same verdict"""
    cmd = list(job.cmd_c[:-1]) + ['--sat-solver', solver, job.cmd_c[-1]]
    rc, out, wall = sh(cmd, job.timeout)
    if rc == -9:
        return {'solver': solver, 'agree': None, 'note': 'timeout', 'wall': wall}
    res2 = {(x['name'], x['line'], x['desc']): x['status'] for x in parse_results(out)}
    res1 = {(x['name'], x['line'], x['desc']): x['status'] for x in r['results']}
    diff = [k[0] for k in res1 if k in res2 and res1[k] != res2[k]]
    if len(res1) != len(res2):
        diff.append('obligation sets differ (%d vs %d)' % (len(res1), len(res2)))
    return {'solver': solver, 'agree': not diff, 'differences': diff[:10], 'wall': wall}
