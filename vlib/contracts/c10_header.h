/* C10 (and C09): the format-version gate in the open path, backend/hdf5/FileHDF5.cpp.
   "A file whose format version is (x,y,z) can be opened for reading exactly when x equals the library's major format
   version and y is not newer than the library's y, and for read-write exactly when all three components are
   identical; the Force open flag bypasses the check."  The library version my_version is left arbitrary. */
#ifndef C10_HEADER_H
#define C10_HEADER_H
typedef struct { H5Group root; FormatVersion file_format_version; FileMode mode; } FileHDF5;   /* members checkHeader uses */
extern FormatVersion my_version;                       /* static FormatVersion my_version = HDF5_FF_VERSION; */
#define RV __CPROVER_return_value

/* explicit FormatVersion(const std::vector<int> &v) */
NIX_THROWS void FormatVersion_ctor_vec(FormatVersion *self, const vec_int *v)
__CPROVER_requires(NIX_SEL(FormatVersion_ctor_vec, __CPROVER_is_fresh(self, sizeof(FormatVersion)) && __CPROVER_is_fresh(v, sizeof(vec_int)) && v->n <= 8 && __CPROVER_is_fresh(v->data, 8 * sizeof(int)),
                           __CPROVER_w_ok(self, sizeof(FormatVersion)) && __CPROVER_r_ok(v, sizeof(vec_int)) && (v->n != 3 || __CPROVER_r_ok(v->data, 3 * sizeof(int)))))
__CPROVER_requires(nix_exc == EXC_NONE)
__CPROVER_ensures(/*wrong-length-throws*/ v->n != 3 <==> nix_exc == EXC_runtime_error)
__CPROVER_ensures(/*no-other-exception*/ nix_exc == EXC_NONE || nix_exc == EXC_runtime_error)
__CPROVER_ensures(/*components*/ nix_exc == EXC_NONE ==> (self->vx == v->data[0] && self->vy == v->data[1] && self->vz == v->data[2]))
NIX_CANARY(FormatVersion_ctor_vec) __CPROVER_assigns(nix_exc; *self)
;
/* FormatVersion(vv) as a value: constructor call adapter (definitional) */
static inline FormatVersion mk_FormatVersion_1_impl(const vec_int *v) { FormatVersion r; r.vx = 0; r.vy = 0; r.vz = 0; FormatVersion_ctor_vec(&r, v); return r; }
NIX_THROWS FormatVersion mk_FormatVersion_1(const vec_int *v)
;

/* header state as reported by libhdf5 (ghost inputs, stubs/h5header.h) */
#define GH_F (gh_has_format && gh_format_read_ok && gh_format_equal)
#define GH_V (gh_has_version && gh_version_read_ok)
#define GH_BADLEN (GH_F && GH_V && gh_version_n != 3)
#define GH_CANWRITE (my_version.vx == gh_v[0] && my_version.vy == gh_v[1] && my_version.vz == gh_v[2])
#define GH_CANREAD (my_version.vx == gh_v[0] && gh_v[1] <= my_version.vy)
#define GH_NEEDS_ID (gh_v[0] > 1 || (gh_v[0] == 1 && (gh_v[1] > 2 || (gh_v[1] == 2 && gh_v[2] >= 0))))   /* file version >= 1.2.0 */
#define GH_ID (gh_has_id && gh_id_read_ok)
#define GH_OK(mode) (GH_F && GH_V && gh_version_n == 3 && ((mode) == FileMode_ReadWrite ? GH_CANWRITE : GH_CANREAD) && (!GH_NEEDS_ID || GH_ID))

NIX_THROWS bool FileHDF5_checkHeader(FileHDF5 *self, FileMode mode, bool throw_error)
__CPROVER_requires(NIX_SEL(FileHDF5_checkHeader, __CPROVER_is_fresh(self, sizeof(FileHDF5)), __CPROVER_w_ok(self, sizeof(FileHDF5))))
__CPROVER_requires((mode == FileMode_ReadOnly || mode == FileMode_ReadWrite || mode == FileMode_Overwrite) && nix_exc == EXC_NONE && gh_version_n <= 4)
__CPROVER_ensures(/*malformed-version-attribute-refused*/ GH_BADLEN <==> nix_exc == EXC_runtime_error)
__CPROVER_ensures(/*accepted-iff-header-and-version-rule*/ !GH_BADLEN ==> ((nix_exc == EXC_NONE && RV) <==> GH_OK(mode)))
__CPROVER_ensures(/*rejected-throws-when-asked*/ !GH_BADLEN ==> (nix_exc == EXC_InvalidFile <==> (!GH_OK(mode) && throw_error)))
__CPROVER_ensures(/*rejected-returns-false-when-forced*/ (!GH_BADLEN && !GH_OK(mode) && !throw_error) ==> (nix_exc == EXC_NONE && !RV))
__CPROVER_ensures(/*only-these-exceptions*/ nix_exc == EXC_NONE || nix_exc == EXC_InvalidFile || nix_exc == EXC_runtime_error)
__CPROVER_ensures(/*file-version-recorded*/ (GH_F && GH_V && gh_version_n == 3) ==> (self->file_format_version.vx == gh_v[0] && self->file_format_version.vy == gh_v[1] && self->file_format_version.vz == gh_v[2]))
NIX_SEL(FileHDF5_checkHeader,
  __CPROVER_ensures(/*COVER-read-ok-newer-patch*/ !(mode == FileMode_ReadOnly && nix_exc == EXC_NONE && RV && gh_v[2] > my_version.vz))
  __CPROVER_ensures(/*COVER-write-refused*/ !(mode == FileMode_ReadWrite && nix_exc == EXC_InvalidFile && GH_CANREAD))
  __CPROVER_ensures(/*COVER-forced*/ !(nix_exc == EXC_NONE && !RV)) , )
NIX_CANARY(FileHDF5_checkHeader) __CPROVER_assigns(nix_exc; self->file_format_version)
;

/* the statement of the FileHDF5 constructor that applies the gate (region unit):
       if (is_create) { createHeader(); } else { checkHeader(mode, (flags & OpenFlags::Force) != OpenFlags::Force); }  */
extern int ghost_headers_created;
NIX_THROWS void FileHDF5_createHeader(FileHDF5 *self)
__CPROVER_requires(__CPROVER_w_ok(self, sizeof(FileHDF5)) && nix_exc == EXC_NONE)
__CPROVER_ensures(nix_exc == EXC_NONE || nix_exc == EXC_H5Exception)
__CPROVER_ensures(ghost_headers_created == __CPROVER_old(ghost_headers_created) + 1)
__CPROVER_assigns(nix_exc, ghost_headers_created)
;
#define FORCE_SET(flags) (((flags) & OpenFlags_Force) == OpenFlags_Force)
NIX_THROWS void FileHDF5_ctor_gate(FileHDF5 *self, bool is_create, FileMode mode, OpenFlags flags)
__CPROVER_requires(__CPROVER_is_fresh(self, sizeof(FileHDF5)) && nix_exc == EXC_NONE && gh_version_n <= 4 && ghost_headers_created < 1000)
__CPROVER_requires(mode == FileMode_ReadOnly || mode == FileMode_ReadWrite || mode == FileMode_Overwrite)
__CPROVER_ensures(/*existing-file-refused-iff-gate-fails-and-not-forced*/ (!is_create && !GH_BADLEN) ==> (nix_exc == EXC_InvalidFile <==> (!GH_OK(mode) && !FORCE_SET(flags))))
__CPROVER_ensures(/*force-bypasses-the-version-check*/ (!is_create && !GH_BADLEN && FORCE_SET(flags)) ==> nix_exc == EXC_NONE)
__CPROVER_ensures(/*existing-file-gets-no-new-header*/ !is_create ==> ghost_headers_created == __CPROVER_old(ghost_headers_created))
__CPROVER_ensures(/*new-file-gets-header*/ is_create ==> ghost_headers_created == __CPROVER_old(ghost_headers_created) + 1)
NIX_SEL(FileHDF5_ctor_gate,
  __CPROVER_ensures(/*COVER-forced-open*/ !(!is_create && FORCE_SET(flags) && !GH_OK(mode) && nix_exc == EXC_NONE))
  __CPROVER_ensures(/*COVER-refused*/ !(!is_create && nix_exc == EXC_InvalidFile)) , )
NIX_CANARY(FileHDF5_ctor_gate) __CPROVER_assigns(nix_exc, ghost_headers_created; self->file_format_version)
;
#undef RV
#endif
