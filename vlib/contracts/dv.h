/* C17: nix::DataView (include/nix/DataView.hpp, src/DataView.cpp) and the in-data tests of
   src/util/dataAccess.cpp.  "Mathematically" below means: in the integers, without 64-bit wrap-around;
   a + b <= c is written as  a <= c && b <= c - a. */
#ifndef DV_H
#define DV_H
typedef struct { DataArray array; NDSize offset; NDSize count; } DataView;   /* data members of class DataView */
#define RV __CPROVER_return_value
#define FITS(a, b, c) ((a) <= (c) && (b) <= (c) - (a))                          /* a + b <= c in the integers */

/* an NDSize held by value (member or by-value parameter) */
#define NDV_FRESH(v) ((v).rank <= ND_MAXRANK && ((v).rank == 0 ? (v).dims == NULL : __CPROVER_is_fresh((v).dims, (v).rank * sizeof(ndsize_t))))
#define NDV_VALID(v) ((v).rank <= ND_MAXRANK && ((v).rank == 0 || __CPROVER_r_ok((v).dims, (v).rank * sizeof(ndsize_t))))
#define DV_FRESH(p) (__CPROVER_is_fresh(p, sizeof(DataView)) && NDV_FRESH((p)->array.extent) && NDV_FRESH((p)->offset) && NDV_FRESH((p)->count))
#define DV_VALID(p) (__CPROVER_r_ok(p, sizeof(DataView)) && NDV_VALID((p)->array.extent) && NDV_VALID((p)->offset) && NDV_VALID((p)->count))
/* class invariant established by the constructor: window inside the array */
#define DV_INV(p) ((p)->offset.rank == (p)->array.extent.rank && (p)->count.rank == (p)->array.extent.rank && \
                   ND_FORALL(iv, (p)->offset.rank, FITS((p)->offset.dims[iv], (p)->count.dims[iv], (p)->array.extent.dims[iv])))

/* DataView(DataArray da, NDSize count, NDSize offset) */
NIX_THROWS void DataView_ctor(DataView *self, DataArray da, NDSize count, NDSize offset)
__CPROVER_requires(__CPROVER_is_fresh(self, sizeof(DataView)) && NDV_FRESH(da.extent) && NDV_FRESH(count) && NDV_FRESH(offset) && nix_exc == EXC_NONE)
__CPROVER_ensures(/*rank-mismatch-throws*/ (offset.rank != da.extent.rank || count.rank != da.extent.rank) <==> nix_exc == EXC_IncompatibleDimensions)
__CPROVER_ensures(/*window-outside-array-throws*/ (offset.rank == da.extent.rank && count.rank == da.extent.rank) ==>
                  (nix_exc == EXC_OutOfBounds <==> !ND_FORALL(ic, offset.rank, FITS(offset.dims[ic], count.dims[ic], da.extent.dims[ic]))))
__CPROVER_ensures(/*only-these-exceptions*/ nix_exc == EXC_NONE || nix_exc == EXC_IncompatibleDimensions || nix_exc == EXC_OutOfBounds)
__CPROVER_ensures(/*members-are-arguments*/ nix_exc == EXC_NONE ==> (self->offset.dims == offset.dims && self->offset.rank == offset.rank &&
                  self->count.dims == count.dims && self->count.rank == count.rank && self->array.extent.dims == da.extent.dims && self->array.extent.rank == da.extent.rank))
__CPROVER_ensures(/*invariant-established*/ nix_exc == EXC_NONE ==> DV_INV(self))
NIX_CANARY(DataView_ctor) __CPROVER_assigns(nix_exc; *self)
;

/* NDSize transform_coordinates(const NDSize &cnt, const NDSize &off) const */
NIX_THROWS NDSize DataView_transform_coordinates(const DataView *self, const NDSize *cnt, const NDSize *off)
__CPROVER_requires(NIX_SEL(DataView_transform_coordinates, DV_FRESH(self) && ND_OK(cnt) && ND_OK(off), DV_VALID(self) && ND_VALID(cnt) && ND_VALID(off)))
__CPROVER_requires(self->offset.rank == self->count.rank && nix_exc == EXC_NONE)
/* request without offset: fits iff cnt <= count element-wise; result is the window origin */
__CPROVER_ensures(/*no-offset:rank-mismatch*/ off->rank == 0 ==> (cnt->rank != self->count.rank <==> nix_exc == EXC_IncompatibleDimensions))
__CPROVER_ensures(/*no-offset:past-window-throws*/ (off->rank == 0 && cnt->rank == self->count.rank) ==>
                  (nix_exc == EXC_OutOfBounds <==> !ND_FORALL(i6, cnt->rank, cnt->dims[i6] <= self->count.dims[i6])))
__CPROVER_ensures(/*result-storage*/ nix_exc == EXC_NONE ==> (RV.rank == self->offset.rank && (RV.rank == 0 ? RV.dims == NULL : __CPROVER_is_fresh(RV.dims, RV.rank * sizeof(ndsize_t)))))
__CPROVER_ensures(/*no-offset:origin*/ (off->rank == 0 && nix_exc == EXC_NONE) ==> ND_FORALL(i11, RV.rank, RV.dims[i11] == self->offset.dims[i11]))
/* request with offset: fits iff off + cnt <= count mathematically; result is origin + off */
__CPROVER_ensures(/*offset:rank-mismatch-throws*/ (off->rank != 0 && off->rank != self->count.rank) ==> nix_exc == EXC_IncompatibleDimensions)
__CPROVER_ensures(/*offset:success-implies-equal-ranks*/ (off->rank != 0 && nix_exc == EXC_NONE) ==> (cnt->rank == off->rank && off->rank == self->count.rank))
__CPROVER_ensures(/*only-these-exceptions*/ nix_exc == EXC_NONE || nix_exc == EXC_OutOfBounds || nix_exc == EXC_IncompatibleDimensions || nix_exc == EXC_out_of_range)
__CPROVER_ensures(/*offset:past-window-throws*/ (off->rank != 0 && cnt->rank == off->rank && off->rank == self->count.rank) ==>
                  (nix_exc == EXC_OutOfBounds <==> !ND_FORALL(i7, cnt->rank, FITS(off->dims[i7], cnt->dims[i7], self->count.dims[i7]))))
__CPROVER_ensures(/*offset:translated*/ (off->rank != 0 && nix_exc == EXC_NONE) ==> ND_FORALL(i12, RV.rank, RV.dims[i12] == self->offset.dims[i12] + off->dims[i12]))
NIX_CANARY(DataView_transform_coordinates) __CPROVER_assigns(nix_exc)
;

/* void ioRead(DataType, void*, const NDSize &count, const NDSize &offset) const  /  ioWrite(...)
   "reads and writes through it touch only elements inside the window, at window origin + offset, and any
   request extending past the window raises an out-of-bounds error without transferring data" */
#define DV_IO_REQ(f) \
__CPROVER_requires(NIX_SEL(f, DV_FRESH(self) && ND_OK(count) && ND_OK(offset), DV_VALID(self) && ND_VALID(count) && ND_VALID(offset))) \
__CPROVER_requires(DV_INV(self) && ND_CASE(&self->count) && nix_exc == EXC_NONE && ghost_io_calls < 1000)
#define DV_RC(k) (count->rank ? count->dims[k] : self->count.dims[k])          /* real_count */
#define DV_IO_ENS(f, W) \
__CPROVER_ensures(/*at-most-one-transfer*/ ghost_io_calls == __CPROVER_old(ghost_io_calls) + (nix_exc == EXC_NONE ? 1 : 0)) \
__CPROVER_ensures(/*no-transfer-on-error*/ nix_exc != EXC_NONE ==> ghost_io_calls == __CPROVER_old(ghost_io_calls)) \
__CPROVER_ensures(/*transfer-direction*/ nix_exc == EXC_NONE ==> (ghost_io_is_write == (W) && ghost_io_exc_at_call == EXC_NONE)) \
__CPROVER_ensures(/*request-past-window-throws*/ (count->rank == 0 || count->rank == self->count.rank) && (offset->rank == 0 || (offset->rank == self->count.rank && count->rank == 0) || (offset->rank == self->count.rank && count->rank == self->count.rank)) ==> \
                  (nix_exc == EXC_OutOfBounds <==> !ND_FORALL(i13, self->count.rank, FITS((offset->rank ? offset->dims[i13] : 0), DV_RC(i13), self->count.dims[i13])))) \
__CPROVER_ensures(/*transfer-shape*/ nix_exc == EXC_NONE ==> (ghost_io_count_rank == self->count.rank && ghost_io_base_rank == self->count.rank && \
                  (ghost_k < self->count.rank ==> ghost_io_count_k == DV_RC(ghost_k)))) \
__CPROVER_ensures(/*transfer-at-origin-plus-offset*/ (nix_exc == EXC_NONE && ghost_k < self->count.rank) ==> \
                  ghost_io_base_k == self->offset.dims[ghost_k] + (offset->rank ? offset->dims[ghost_k] : 0)) \
__CPROVER_ensures(/*transfer-inside-window*/ (nix_exc == EXC_NONE && ghost_k < self->count.rank) ==> \
                  (self->offset.dims[ghost_k] <= ghost_io_base_k && \
                   FITS(ghost_io_base_k - self->offset.dims[ghost_k], ghost_io_count_k, self->count.dims[ghost_k]))) \
__CPROVER_ensures(/*transfer-inside-array*/ (nix_exc == EXC_NONE && ghost_k < self->count.rank) ==> \
                  FITS(ghost_io_base_k, ghost_io_count_k, self->array.extent.dims[ghost_k])) \
NIX_CANARY(f) __CPROVER_assigns(nix_exc, ghost_io_calls, ghost_io_is_write, ghost_io_count_rank, ghost_io_base_rank, ghost_io_count_k, ghost_io_base_k, ghost_io_exc_at_call)

NIX_THROWS void DataView_ioRead(const DataView *self, DataType dtype, void *data, const NDSize *count, const NDSize *offset)
DV_IO_REQ(DataView_ioRead)
DV_IO_ENS(DataView_ioRead, false)
;
NIX_THROWS void DataView_ioWrite(DataView *self, DataType dtype, const void *data, const NDSize *count, const NDSize *offset)
DV_IO_REQ(DataView_ioWrite)
DV_IO_ENS(DataView_ioWrite, true)
;
NDSize DataView_dataExtent(const DataView *self)
__CPROVER_requires(NIX_SEL(DataView_dataExtent, DV_FRESH(self), DV_VALID(self)))
__CPROVER_ensures(/*extent-is-window-size*/ RV.rank == self->count.rank && ND_FORALL(i18, RV.rank, RV.dims[i18] == self->count.dims[i18]))
NIX_CANARY(DataView_dataExtent) __CPROVER_assigns()
;

/* src/util/dataAccess.cpp: in-data tests.  positionInData: every index is inside the data;
   positionAndExtentInData: the last element of the block (position + count - 1) is inside the data.
   The arithmetic of the second is the code's 64-bit modular arithmetic: count 0 wraps to 'outside' (an empty block is
   refused); a sum that wraps is NOT refused here - the DataView constructor, which every caller goes through next,
   re-tests the window in the integers (contract DataView_ctor above). */
bool positionInData(const DataArray *data, const NDSize *position)
__CPROVER_requires(NIX_SEL(positionInData, __CPROVER_is_fresh(data, sizeof(DataArray)) && NDV_FRESH(data->extent) && ND_OK(position),
                                         __CPROVER_r_ok(data, sizeof(DataArray)) && NDV_VALID(data->extent) && ND_VALID(position)))
__CPROVER_requires(ND_CASE(position) && nix_exc == EXC_NONE)
__CPROVER_ensures(/*inside-iff-every-index-inside*/ RV <==> (position->rank == data->extent.rank && ND_FORALL(i19, position->rank, position->dims[i19] < data->extent.dims[i19])))
__CPROVER_ensures(/*no-exception*/ nix_exc == EXC_NONE)
NIX_CANARY(positionInData) __CPROVER_assigns(nix_exc)
;
NIX_THROWS bool positionAndExtentInData(const DataArray *data, const NDSize *position, const NDSize *count)
__CPROVER_requires(NIX_SEL(positionAndExtentInData, __CPROVER_is_fresh(data, sizeof(DataArray)) && NDV_FRESH(data->extent) && ND_OK(position) && ND_OK(count),
                                         __CPROVER_r_ok(data, sizeof(DataArray)) && NDV_VALID(data->extent) && ND_VALID(position) && ND_VALID(count)))
__CPROVER_requires(ND_CASE(position) && nix_exc == EXC_NONE)
__CPROVER_ensures(/*rank-mismatch-throws*/ position->rank != count->rank <==> nix_exc == EXC_out_of_range)
__CPROVER_ensures(/*no-other-exception*/ nix_exc == EXC_NONE || nix_exc == EXC_out_of_range)
__CPROVER_ensures(/*inside-iff-last-element-inside*/ nix_exc == EXC_NONE ==> (RV <==> (position->rank == data->extent.rank &&
                  ND_FORALL(i20, position->rank, position->dims[i20] + count->dims[i20] - 1 < data->extent.dims[i20]))))
NIX_CANARY(positionAndExtentInData) __CPROVER_assigns(nix_exc)
;
#undef RV
#endif
