/* C13: dimension descriptors.  Entry points that create or modify descriptors (include/nix/DataArray.hpp append*,
   src/Dimensions.cpp setters, backend/hdf5/DataArrayHDF5.cpp createDimensionGroup).  The back end is a ghost record:
   what the storage primitive was asked to store.  "range ticks are always in ascending order and sampling intervals
   positive, whichever entry point set them"; "numbered 1..n in the order they were appended with no gaps";
   "reads back the ... offset ... it was given" (as far as the front end forwards it). */
#ifndef C13_DIMS_H
#define C13_DIMS_H
#define RV __CPROVER_return_value
typedef struct { size_t len; } nstring;                          /* std::string: only its length is inspected */
static inline size_t nstring_size(const nstring *s)
{ return s->len; }
typedef struct { int _h; } DataArray;                            /* front-end handle */
typedef struct { int kind; } SampledDimension;
typedef struct { int kind; } RangeDimension;
/* ghost: state of the array's descriptor list and what the back end was asked to do */
extern ndsize_t gh_dim_count;                                    /* number of descriptors before the call (constant) */
extern int gh_creates; extern ndsize_t gh_created_index; extern double gh_created_interval; extern const double *gh_created_ticks; extern size_t gh_created_ticks_n;
extern int gh_offset_sets; extern double gh_offset_value; extern int gh_label_sets, gh_unit_sets;
extern int gh_interval_sets; extern double gh_interval_value; extern int gh_ticks_sets;
static inline ndsize_t DataArray_backend_dimensionCount(const DataArray *self)
{ return gh_dim_count; }
static inline SampledDimension DataArray_backend_createSampledDimension(DataArray *self, ndsize_t index, double sampling_interval)
{ SampledDimension d; d.kind = 1; gh_creates++; gh_created_index = index; gh_created_interval = sampling_interval; return d; }
static inline RangeDimension DataArray_backend_createRangeDimension(DataArray *self, ndsize_t index, const vec_double *ticks)
{ RangeDimension d; d.kind = 2; gh_creates++; gh_created_index = index; gh_created_ticks = ticks->data; gh_created_ticks_n = ticks->n; return d; }
/* front-end setters called on the new descriptor (label / unit validate and may throw; offset stores) */
NIX_THROWS void SampledDimension_label(SampledDimension *d, const nstring *label)
__CPROVER_requires(nix_exc == EXC_NONE) __CPROVER_ensures(nix_exc == EXC_NONE || nix_exc == EXC_EmptyString) __CPROVER_ensures(gh_label_sets == __CPROVER_old(gh_label_sets) + 1) __CPROVER_assigns(nix_exc, gh_label_sets)
;
NIX_THROWS void SampledDimension_unit(SampledDimension *d, const nstring *unit)
__CPROVER_requires(nix_exc == EXC_NONE) __CPROVER_ensures(nix_exc == EXC_NONE || nix_exc == EXC_InvalidUnit || nix_exc == EXC_EmptyString) __CPROVER_ensures(gh_unit_sets == __CPROVER_old(gh_unit_sets) + 1) __CPROVER_assigns(nix_exc, gh_unit_sets)
;
static inline void SampledDimension_offset(SampledDimension *d, double offset)
{ gh_offset_sets++; gh_offset_value = offset; }
NIX_THROWS void RangeDimension_label(RangeDimension *d, const nstring *label)
__CPROVER_requires(nix_exc == EXC_NONE) __CPROVER_ensures(nix_exc == EXC_NONE || nix_exc == EXC_EmptyString) __CPROVER_ensures(gh_label_sets == __CPROVER_old(gh_label_sets) + 1) __CPROVER_assigns(nix_exc, gh_label_sets)
;
NIX_THROWS void RangeDimension_unit(RangeDimension *d, const nstring *unit)
__CPROVER_requires(nix_exc == EXC_NONE) __CPROVER_ensures(nix_exc == EXC_NONE || nix_exc == EXC_InvalidUnit || nix_exc == EXC_EmptyString) __CPROVER_ensures(gh_unit_sets == __CPROVER_old(gh_unit_sets) + 1) __CPROVER_assigns(nix_exc, gh_unit_sets)
;
/* std::is_sorted on doubles: assumed contract on (first, n), characterised at ghost_k; iterator adapter is definitional */
bool std_is_sorted_n(const double *first, size_t n)
__CPROVER_requires(n <= VEC_MAX && __CPROVER_r_ok(first, (n ? n : 1) * sizeof(double)))
__CPROVER_ensures(/*sorted-at-k*/ (RV && ghost_k < n && ghost_k + 1 < n) ==> first[ghost_k] <= first[ghost_k + 1])
__CPROVER_ensures(/*short-ranges-sorted*/ n < 2 ==> RV)
__CPROVER_assigns()
;
static inline bool is_sorted(const double *first, const double *last)
{ return std_is_sorted_n(first, (size_t)(last - first)); }
#define C13_FRESH_ARR(self) (__CPROVER_is_fresh(self, sizeof(DataArray)) && gh_creates == 0 && gh_offset_sets == 0 && gh_label_sets == 0 && gh_unit_sets == 0 && gh_dim_count < (1ULL << 63) && nix_exc == EXC_NONE)
#define C13_GHOSTS nix_exc, gh_creates, gh_created_index, gh_created_interval, gh_created_ticks, gh_created_ticks_n, gh_offset_sets, gh_offset_value, gh_label_sets, gh_unit_sets

NIX_THROWS SampledDimension DataArray_appendSampledDimension(DataArray *self, double sampling_interval, const nstring *label, const nstring *unit, double offset)
__CPROVER_requires(C13_FRESH_ARR(self) && __CPROVER_is_fresh(label, sizeof(nstring)) && __CPROVER_is_fresh(unit, sizeof(nstring)))
__CPROVER_ensures(/*non-positive-interval-rejected-before-anything-is-created*/ !(sampling_interval > 0.0) ==> (nix_exc == EXC_runtime_error && gh_creates == 0))
__CPROVER_ensures(/*interval-stored-is-positive*/ gh_creates > 0 ==> gh_created_interval > 0.0)
__CPROVER_ensures(/*created-once-at-next-index-with-the-interval-given*/ sampling_interval > 0.0 ==> (gh_creates == 1 && gh_created_index == gh_dim_count + 1 && gh_created_interval == sampling_interval))
__CPROVER_ensures(/*offset-stored-as-given*/ (nix_exc == EXC_NONE && offset != 0.0) ==> (gh_offset_sets == 1 && (gh_offset_value == offset || (isnan(offset) && isnan(gh_offset_value)))))
__CPROVER_ensures(/*zero-offset-not-stored*/ offset == 0.0 ==> gh_offset_sets == 0)
__CPROVER_ensures(/*label-and-unit-forwarded-when-given*/ nix_exc == EXC_NONE ==> (gh_label_sets == (label->len > 0 ? 1 : 0) && gh_unit_sets == (unit->len > 0 ? 1 : 0)))
NIX_CANARY(DataArray_appendSampledDimension) __CPROVER_assigns(C13_GHOSTS)
;
NIX_THROWS RangeDimension DataArray_appendRangeDimension(DataArray *self, const vec_double *ticks, const nstring *label, const nstring *unit)
__CPROVER_requires(C13_FRESH_ARR(self) && __CPROVER_is_fresh(label, sizeof(nstring)) && __CPROVER_is_fresh(unit, sizeof(nstring)))
__CPROVER_requires(__CPROVER_is_fresh(ticks, sizeof(vec_double)) && ticks->n <= VEC_MAX && __CPROVER_is_fresh(ticks->data, (ticks->n ? ticks->n : 1) * sizeof(double)))
__CPROVER_ensures(/*empty-ticks-rejected*/ ticks->n == 0 ==> (nix_exc == EXC_InvalidDimension && gh_creates == 0))
__CPROVER_ensures(/*ticks-stored-are-ascending*/ (gh_creates > 0 && ghost_k < ticks->n && ghost_k + 1 < ticks->n) ==> ticks->data[ghost_k] <= ticks->data[ghost_k + 1])
__CPROVER_ensures(/*rejected-means-nothing-created*/ (nix_exc == EXC_UnsortedTicks || nix_exc == EXC_InvalidDimension) ==> gh_creates == 0)
__CPROVER_ensures(/*created-once-at-next-index-with-the-ticks-given*/ gh_creates > 0 ==> (gh_creates == 1 && gh_created_index == gh_dim_count + 1 && gh_created_ticks == ticks->data && gh_created_ticks_n == ticks->n))
__CPROVER_ensures(/*accepted-or-refused*/ gh_creates == 1 || nix_exc == EXC_UnsortedTicks || nix_exc == EXC_InvalidDimension)
NIX_CANARY(DataArray_appendRangeDimension) __CPROVER_assigns(C13_GHOSTS)
;


/* set and data-frame descriptors: "numbered 1..n in the order they were appended with no gaps" (created at index count+1, exactly once),
   a data-frame descriptor refers to an existing column of an initialised frame */
typedef struct { int kind; } SetDimension;
typedef struct { int kind; } DataFrameDimension;
typedef struct { size_t n; } vec_Column;
typedef struct { int is_none; size_t ncols; } DataFrame;
extern int gh_labels_sets; extern unsigned gh_created_column; extern int gh_created_with_column;
static inline SetDimension DataArray_backend_createSetDimension(DataArray *self, ndsize_t index)
{ SetDimension d; d.kind = 3; gh_creates++; gh_created_index = index; return d; }
static inline void SetDimension_labels(SetDimension *d, const vec_string *labels)
{ gh_labels_sets++; }
static inline bool DataFrame_bool(const DataFrame *f)
{ return f->is_none == 0; }
NIX_THROWS static inline vec_Column DataFrame_columns(const DataFrame *f)
{ vec_Column v; v.n = f->ncols; if (f->is_none) nix_exc = EXC_UninitializedEntity; return v; }    /* an uninitialised handle throws in ImplContainer::backend() */
static inline DataFrameDimension DataArray_backend_createDataFrameDimension_col(DataArray *self, ndsize_t index, const DataFrame *frame, unsigned column_index)
{ __CPROVER_assert(/*only-an-existing-column-of-an-initialised-frame-reaches-the-back-end*/ frame->is_none == 0 && column_index < frame->ncols, "the back end is only asked to point a descriptor at an existing column of an initialised frame");
  DataFrameDimension d; d.kind = 4; gh_creates++; gh_created_index = index; gh_created_column = column_index; gh_created_with_column = 1; return d; }
static inline DataFrameDimension DataArray_backend_createDataFrameDimension_all(DataArray *self, ndsize_t index, const DataFrame *frame)
{ __CPROVER_assert(frame->is_none == 0, "the back end is only handed an initialised frame"); DataFrameDimension d; d.kind = 4; gh_creates++; gh_created_index = index; gh_created_with_column = 0; return d; }
#define DF_OK(f) (__CPROVER_is_fresh(f, sizeof(DataFrame)) && ((f)->is_none == 0 || (f)->is_none == 1))
NIX_THROWS SetDimension DataArray_appendSetDimension(DataArray *self, const vec_string *labels)
__CPROVER_requires(C13_FRESH_ARR(self) && __CPROVER_is_fresh(labels, sizeof(vec_string)) && gh_labels_sets == 0)
__CPROVER_ensures(/*created-once-at-next-index*/ gh_creates == 1 && gh_created_index == gh_dim_count + 1 && nix_exc == EXC_NONE)
__CPROVER_ensures(/*labels-stored-iff-given*/ gh_labels_sets == (labels->n > 0 ? 1 : 0))
NIX_CANARY(DataArray_appendSetDimension) __CPROVER_assigns(C13_GHOSTS, gh_labels_sets)
;
NIX_THROWS DataFrameDimension DataArray_appendDataFrameDimension_col(DataArray *self, const DataFrame *frame, unsigned column_index)
__CPROVER_requires(C13_FRESH_ARR(self) && DF_OK(frame))
__CPROVER_ensures(/*uninitialised-frame-rejected*/ frame->is_none ==> (nix_exc != EXC_NONE && gh_creates == 0))
__CPROVER_ensures(/*column-index-past-the-last-column-rejected*/ (!frame->is_none && column_index >= frame->ncols) ==> (nix_exc == EXC_OutOfBounds && gh_creates == 0))
__CPROVER_ensures(/*created-once-at-next-index-for-that-column*/ (!frame->is_none && column_index < frame->ncols) ==> (nix_exc == EXC_NONE && gh_creates == 1 && gh_created_index == gh_dim_count + 1 && gh_created_with_column == 1 && gh_created_column == column_index))
NIX_CANARY(DataArray_appendDataFrameDimension_col) __CPROVER_assigns(C13_GHOSTS, gh_created_column, gh_created_with_column)
;
NIX_THROWS DataFrameDimension DataArray_appendDataFrameDimension_all(DataArray *self, const DataFrame *frame)
__CPROVER_requires(C13_FRESH_ARR(self) && DF_OK(frame))
__CPROVER_ensures(/*uninitialised-frame-rejected*/ frame->is_none ==> (nix_exc == EXC_UninitializedEntity && gh_creates == 0))
__CPROVER_ensures(/*created-once-at-next-index*/ !frame->is_none ==> (nix_exc == EXC_NONE && gh_creates == 1 && gh_created_index == gh_dim_count + 1 && gh_created_with_column == 0))
NIX_CANARY(DataArray_appendDataFrameDimension_all) __CPROVER_assigns(C13_GHOSTS, gh_created_column, gh_created_with_column)
;

/* front-end setters of src/Dimensions.cpp */
typedef struct { int _s; } SampledDimensionF;
typedef struct { int _r; } RangeDimensionF;
static inline void SampledDimensionF_backend_samplingInterval(SampledDimensionF *self, double interval)
{ gh_interval_sets++; gh_interval_value = interval; }
/* an alias range dimension (its ticks are the array's data) and an ordinary one: "range ticks are always in ascending order ... whichever entry point set them" */
static inline bool RangeDimensionF_alias(const RangeDimensionF *self)
{ return self->_r != 0; }
static inline bool RangeDimensionF_backend_alias(const RangeDimensionF *self)
{ return self->_r != 0; }
static inline void RangeDimensionF_backend_ticks(RangeDimensionF *self, const vec_double *ticks)
{ gh_ticks_sets++; gh_created_ticks = ticks->data; gh_created_ticks_n = ticks->n; }
NIX_THROWS void SampledDimension_samplingInterval_set(SampledDimensionF *self, double interval)
__CPROVER_requires(__CPROVER_is_fresh(self, sizeof(*self)) && nix_exc == EXC_NONE && gh_interval_sets == 0)
__CPROVER_ensures(/*non-positive-rejected*/ !(interval > 0.0) <==> nix_exc == EXC_runtime_error)
__CPROVER_ensures(/*stored-iff-accepted*/ gh_interval_sets == (nix_exc == EXC_NONE ? 1 : 0))
__CPROVER_ensures(/*stored-value-positive-and-as-given*/ gh_interval_sets == 1 ==> (gh_interval_value == interval && gh_interval_value > 0.0))
NIX_CANARY(SampledDimension_samplingInterval_set) __CPROVER_assigns(nix_exc, gh_interval_sets, gh_interval_value)
;
NIX_THROWS void RangeDimension_ticks_set(RangeDimensionF *self, const vec_double *ticks)
__CPROVER_requires(__CPROVER_is_fresh(self, sizeof(*self)) && nix_exc == EXC_NONE && gh_ticks_sets == 0)
__CPROVER_requires(__CPROVER_is_fresh(ticks, sizeof(vec_double)) && ticks->n <= VEC_MAX && __CPROVER_is_fresh(ticks->data, (ticks->n ? ticks->n : 1) * sizeof(double)))
__CPROVER_ensures(/*ticks-stored-are-ascending*/ (gh_ticks_sets > 0 && ghost_k < ticks->n && ghost_k + 1 < ticks->n) ==> ticks->data[ghost_k] <= ticks->data[ghost_k + 1])
__CPROVER_ensures(/*stored-iff-accepted*/ gh_ticks_sets == (nix_exc == EXC_NONE ? 1 : 0))
__CPROVER_ensures(/*only-unsorted-is-refused*/ nix_exc == EXC_NONE || nix_exc == EXC_UnsortedTicks)
NIX_CANARY(RangeDimension_ticks_set) __CPROVER_assigns(nix_exc, gh_ticks_sets, gh_created_ticks, gh_created_ticks_n)
;

/* backend/hdf5/DataArrayHDF5.cpp createDimensionGroup(index): the storage primitive behind every create*Dimension.
   "numbered 1..n ... with no gaps": a descriptor group can only be (re)created at an index in 1..count+1, and no
   other group is touched.  Group names are the decimal index (util::numToStr), abstracted to the number itself. */
typedef struct { int _d; } DataArrayHDF5;
typedef struct { int _g; } opt_H5Group;
typedef struct { int _g; } H5Group;
extern bool gh_group_exists;                      /* does a group with the requested name exist already */
extern int gh_removed, gh_opened; extern ndsize_t gh_removed_name, gh_opened_name; extern bool gh_opened_create;
static inline nstring numToStr(ndsize_t n)
{ nstring s; s.len = (size_t)n; return s; }
static inline opt_H5Group DataArrayHDF5_dimension_group(const DataArrayHDF5 *self, bool create)
{ opt_H5Group g; g._g = 1; return g; }
static inline ndsize_t DataArrayHDF5_dimensionCount(const DataArrayHDF5 *self)
{ return gh_dim_count; }
static inline bool opt_H5Group_hasGroup(const opt_H5Group *g, nstring name)
{ return gh_group_exists; }
static inline void opt_H5Group_removeGroup(opt_H5Group *g, nstring name)
{ gh_removed++; gh_removed_name = name.len; }
static inline H5Group opt_H5Group_openGroup(opt_H5Group *g, nstring name, bool create)
{ H5Group r; r._g = 2; gh_opened++; gh_opened_name = name.len; gh_opened_create = create; return r; }
NIX_THROWS H5Group DataArrayHDF5_createDimensionGroup(DataArrayHDF5 *self, ndsize_t index)
__CPROVER_requires(__CPROVER_is_fresh(self, sizeof(*self)) && nix_exc == EXC_NONE && gh_removed == 0 && gh_opened == 0 && gh_dim_count < (1ULL << 63))
__CPROVER_ensures(/*index-outside-1..count+1-rejected*/ (index == 0 || index > gh_dim_count + 1) <==> nix_exc == EXC_runtime_error)
__CPROVER_ensures(/*rejected-touches-nothing*/ nix_exc != EXC_NONE ==> (gh_removed == 0 && gh_opened == 0))
__CPROVER_ensures(/*creates-exactly-the-group-of-that-index*/ nix_exc == EXC_NONE ==> (gh_opened == 1 && gh_opened_name == index && gh_opened_create))
__CPROVER_ensures(/*replaces-only-the-same-index*/ nix_exc == EXC_NONE ==> (gh_removed == (gh_group_exists ? 1 : 0) && (gh_removed == 0 || gh_removed_name == index)))
NIX_CANARY(DataArrayHDF5_createDimensionGroup) __CPROVER_assigns(nix_exc, gh_removed, gh_opened, gh_removed_name, gh_opened_name, gh_opened_create)
;

/* backend/hdf5/DimensionHDF5.cpp RangeDimensionHDF5::ticks(ticks): where the ticks of a range dimension are stored.
   "An alias range dimension always mirrors the array itself - its ticks are the array's data": an ordinary dimension stores the ticks in its own
   data set "ticks"; an alias dimension writes them INTO THE ARRAY'S "data" data set, which is first given exactly the extent {number of ticks}
   (so nothing of the old data survives behind them) and then written as a whole; an alias whose array has no data raises MissingAttr.
   H5Group / DataSet are ghost records of the calls made (libhdf5 itself: assumed). */
typedef struct { int _d; int is_alias; int has_data; } RangeDimensionHDF5;
typedef struct { int grp; } H5GroupT;
typedef struct { int ds; } DataSetT;
typedef struct { size_t rank; ndsize_t d0; } NDSize1;
#define REDIRECT_GRP 5
#define DATA_DS 9
extern int gh_bt_setdata, gh_bt_setdata_ticks_name, gh_bt_setextent, gh_bt_write, gh_bt_write_after_extent, gh_bt_opened; extern size_t gh_bt_extent_rank; extern ndsize_t gh_bt_extent_d0; extern const double *gh_bt_written; extern size_t gh_bt_written_n;
static inline bool RangeDimensionHDF5_alias(const RangeDimensionHDF5 *self)
{ return self->is_alias != 0; }
static inline H5GroupT RangeDimensionHDF5_redirectGroup(const RangeDimensionHDF5 *self)
{ H5GroupT g; g.grp = REDIRECT_GRP; return g; }
static inline NDSize1 mk_NDSize1(size_t rank, ndsize_t fill)
{ NDSize1 n; n.rank = rank; n.d0 = fill; return n; }
static inline int c13_is(const char *s, const char *lit)
{ size_t i = 0; while (lit[i] && s[i] == lit[i]) i++; return s[i] == lit[i]; }
static inline void H5GroupT_setData(H5GroupT *g, const char *name, const vec_double *v)
{ __CPROVER_assert(g->grp == REDIRECT_GRP, "the dimension's (redirected) group is written"); gh_bt_setdata++; gh_bt_setdata_ticks_name = c13_is(name, "ticks"); gh_bt_written = v->data; gh_bt_written_n = v->n; }
extern int gh_bt_data;
static inline bool gh_bt_has_data_answer(void)
{ return gh_bt_data != 0; }
static inline bool H5GroupT_hasData(const H5GroupT *g, const char *name)
{ __CPROVER_assert(g->grp == REDIRECT_GRP && c13_is(name, "data"), "the array's data set is looked up in the redirected group"); return gh_bt_has_data_answer(); }
static inline DataSetT H5GroupT_openData(const H5GroupT *g, const char *name)
{ __CPROVER_assert(g->grp == REDIRECT_GRP && c13_is(name, "data"), "the array's data set is opened"); gh_bt_opened++; DataSetT d; d.ds = DATA_DS; return d; }
static inline void DataSetT_setExtent(DataSetT *d, NDSize1 e)
{ __CPROVER_assert(d->ds == DATA_DS, "the array's data set is resized"); gh_bt_setextent++; gh_bt_extent_rank = e.rank; gh_bt_extent_d0 = e.d0; }
static inline void DataSetT_write(DataSetT *d, const vec_double *v)
{ __CPROVER_assert(d->ds == DATA_DS, "the array's data set is written"); gh_bt_write++; gh_bt_write_after_extent = gh_bt_setextent; gh_bt_written = v->data; gh_bt_written_n = v->n; }
NIX_THROWS void RangeDimensionHDF5_ticks_set(RangeDimensionHDF5 *self, const vec_double *ticks)
__CPROVER_requires(__CPROVER_is_fresh(self, sizeof(*self)) && (self->is_alias == 0 || self->is_alias == 1) && (self->has_data == 0 || self->has_data == 1) && gh_bt_data == self->has_data && nix_exc == EXC_NONE)
__CPROVER_requires(gh_bt_setdata == 0 && gh_bt_setextent == 0 && gh_bt_write == 0 && gh_bt_opened == 0)
__CPROVER_requires(__CPROVER_is_fresh(ticks, sizeof(vec_double)) && ticks->n <= VEC_MAX && __CPROVER_is_fresh(ticks->data, (ticks->n ? ticks->n : 1) * sizeof(double)))
__CPROVER_ensures(/*ordinary-dimension:ticks-stored-in-its-own-ticks-data-set*/ !self->is_alias ==> (nix_exc == EXC_NONE && gh_bt_setdata == 1 && gh_bt_setdata_ticks_name && gh_bt_written == ticks->data && gh_bt_written_n == ticks->n &&
                  gh_bt_setextent == 0 && gh_bt_write == 0))
__CPROVER_ensures(/*alias:the-array-data-becomes-exactly-the-ticks*/ (self->is_alias && self->has_data) ==> (nix_exc == EXC_NONE && gh_bt_setdata == 0 && gh_bt_setextent == 1 && gh_bt_extent_rank == 1 && gh_bt_extent_d0 == ticks->n &&
                  gh_bt_write == 1 && gh_bt_write_after_extent == 1 && gh_bt_written == ticks->data && gh_bt_written_n == ticks->n))
__CPROVER_ensures(/*alias-without-array-data-raises-and-stores-nothing*/ (self->is_alias && !self->has_data) ==> (nix_exc == EXC_MissingAttr && gh_bt_setdata == 0 && gh_bt_setextent == 0 && gh_bt_write == 0))
NIX_CANARY(RangeDimensionHDF5_ticks_set) __CPROVER_assigns(nix_exc, gh_bt_setdata, gh_bt_setdata_ticks_name, gh_bt_setextent, gh_bt_write, gh_bt_write_after_extent, gh_bt_opened, gh_bt_extent_rank, gh_bt_extent_d0, gh_bt_written, gh_bt_written_n)
;

/* backend/hdf5/DimensionHDF5.cpp RangeDimensionHDF5::redirectGroup(): the group every accessor of a range dimension (ticks, label, unit) works on.
   "An alias range dimension always mirrors the array itself ... its label and unit are the array's, in both directions": for an alias the accessors are
   redirected to the FIRST child of the dimension's group - the hard link to the array (ASSUMED: createAliasRangeDimension puts exactly that link there) -
   opened without creating anything; an ordinary dimension works on its own group. */
typedef struct { int grp; } H5GroupR;
typedef struct { int is_alias; H5GroupR group; } RangeDimensionHDF5r;
#define DIM_GRP 21
#define ARRAY_LINK_NAME 501
#define ARRAY_GRP 33
extern int gh_rd_opened, gh_rd_names_asked;
static inline H5GroupR H5GroupR_default(void)
{ H5GroupR g; g.grp = 0; return g; }
static inline bool RangeDimensionHDF5r_alias(const RangeDimensionHDF5r *self)
{ return self->is_alias != 0; }
static inline nstring H5GroupR_objectName(const H5GroupR *g, ndsize_t index)
{ __CPROVER_assert(g->grp == DIM_GRP && index == 0, "the first child of the dimension's own group"); gh_rd_names_asked++; nstring s; s.len = ARRAY_LINK_NAME; return s; }
static inline H5GroupR H5GroupR_openGroup(const H5GroupR *g, nstring name, bool create)
{ __CPROVER_assert(g->grp == DIM_GRP && name.len == ARRAY_LINK_NAME && !create, "the link to the array is opened, nothing is created"); gh_rd_opened++; H5GroupR r; r.grp = ARRAY_GRP; return r; }
H5GroupR RangeDimensionHDF5r_redirectGroup(const RangeDimensionHDF5r *self)
__CPROVER_requires(__CPROVER_is_fresh(self, sizeof(*self)) && (self->is_alias == 0 || self->is_alias == 1) && self->group.grp == DIM_GRP && gh_rd_opened == 0 && gh_rd_names_asked == 0 && nix_exc == EXC_NONE)
__CPROVER_ensures(/*an-alias-works-on-the-array-an-ordinary-dimension-on-its-own-group*/ RV.grp == (self->is_alias ? ARRAY_GRP : DIM_GRP))
__CPROVER_ensures(/*nothing-is-opened-for-an-ordinary-dimension*/ !self->is_alias ==> (gh_rd_opened == 0 && gh_rd_names_asked == 0))
NIX_CANARY(RangeDimensionHDF5r_redirectGroup) __CPROVER_assigns(nix_exc, gh_rd_opened, gh_rd_names_asked)
;

/* RangeDimensionHDF5::label(label) / unit(unit): written where redirectGroup() points - for an alias that is the ARRAY's own label / unit attribute
   ("its label and unit are the array's, in both directions"); the value is stored as given. */
extern int gh_rd_redirects, gh_rd_setattrs, gh_rd_attr_is_label, gh_rd_attr_is_unit, gh_rd_attr_grp, gh_rd_redirect_answer; extern size_t gh_rd_attr_value;
static inline H5GroupR RangeDimensionHDF5r_redirectGroup_rec(const RangeDimensionHDF5r *self)
{ gh_rd_redirects++; H5GroupR g; g.grp = gh_rd_redirect_answer; return g; }
static inline void H5GroupR_setAttr(H5GroupR *g, const char *name, const nstring *value)
{ gh_rd_setattrs++; gh_rd_attr_grp = g->grp; gh_rd_attr_is_label = name[0] == 'l' && name[1] == 'a' && name[2] == 'b'; gh_rd_attr_is_unit = name[0] == 'u' && name[1] == 'n' && name[2] == 'i'; gh_rd_attr_value = value->len; }
#define RD_SET_PRE (__CPROVER_is_fresh(self, sizeof(*self)) && gh_rd_redirects == 0 && gh_rd_setattrs == 0 && nix_exc == EXC_NONE)
#define RD_SET_ASSIGNS nix_exc, gh_rd_redirects, gh_rd_setattrs, gh_rd_attr_grp, gh_rd_attr_is_label, gh_rd_attr_is_unit, gh_rd_attr_value
void RangeDimensionHDF5r_label_set(RangeDimensionHDF5r *self, const nstring *label)
__CPROVER_requires(RD_SET_PRE && __CPROVER_is_fresh(label, sizeof(nstring)))
__CPROVER_ensures(/*the-label-is-written-as-given-where-redirectGroup-points*/ gh_rd_redirects == 1 && gh_rd_setattrs == 1 && gh_rd_attr_grp == gh_rd_redirect_answer && gh_rd_attr_is_label && gh_rd_attr_value == label->len && nix_exc == EXC_NONE)
NIX_CANARY(RangeDimensionHDF5r_label_set) __CPROVER_assigns(RD_SET_ASSIGNS)
;
void RangeDimensionHDF5r_unit_set(RangeDimensionHDF5r *self, const nstring *unit)
__CPROVER_requires(RD_SET_PRE && __CPROVER_is_fresh(unit, sizeof(nstring)))
__CPROVER_ensures(/*the-unit-is-written-as-given-where-redirectGroup-points*/ gh_rd_redirects == 1 && gh_rd_setattrs == 1 && gh_rd_attr_grp == gh_rd_redirect_answer && gh_rd_attr_is_unit && gh_rd_attr_value == unit->len && nix_exc == EXC_NONE)
NIX_CANARY(RangeDimensionHDF5r_unit_set) __CPROVER_assigns(RD_SET_ASSIGNS)
;
#undef RV
#endif
