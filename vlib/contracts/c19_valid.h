/* C19: the rule predicates of the validator (src/valid/checks.cpp).
   "The validator ... reports at least one error for every entity that breaches one - ... number of ticks, labels or
   data-frame rows differs from the data length ..., tag units that cannot be converted to the referenced dimension's
   unit" (completeness of the predicate) and "reports no error for any file whose entities satisfy the documented hard
   rules" (soundness of the predicate).
   Entity handles are abstracted to the state the predicates read.  The descriptors handed to a predicate are those of
   one DataArray, numbered 1..n without gaps (that is property C13; here it is the definition of Dimension::index()
   on the abstract vector: the d-th descriptor has index d+1).  The rule tables of validate.cpp (initializer lists of
   lambdas) and the walk in File::validate are NOT covered. */
#ifndef C19_VALID_H
#define C19_VALID_H
#define RV __CPROVER_return_value
typedef struct { DimensionType type; size_t ticks_n; size_t labels_n; ndsize_t rows; } Dimension;   /* what the predicates read of one descriptor */
typedef struct { Dimension *data; size_t n; } vec_Dimension;
typedef struct { size_t ticks_n; } RangeDimension;
typedef struct { size_t labels_n; } SetDimension;
typedef struct { ndsize_t rows; } DataFrameDimension;
typedef struct { DataArray data; } dimTicksMatchData;             /* 'const DataArray &data' member: the referenced handle */
typedef struct { DataArray data; } dimLabelsMatchData;
typedef struct { DataArray data; } dimDataFrameTicksMatchData;
typedef struct { size_t value; } dimEquals;
extern const Dimension *gh_dims_base;                             /* ghost: first descriptor of the vector under test */
static inline DimensionType Dimension_dimensionType(const Dimension *d)
{ return d->type; }
static inline ndsize_t Dimension_index(const Dimension *d)
{ return (ndsize_t)(d - gh_dims_base) + 1; }
static inline RangeDimension Dimension_asRangeDimension(const Dimension *d)
{ __CPROVER_assert(d->type == DimensionType_Range, "asRangeDimension on a range descriptor"); RangeDimension r; r.ticks_n = d->ticks_n; return r; }
static inline SetDimension Dimension_asSetDimension(const Dimension *d)
{ __CPROVER_assert(d->type == DimensionType_Set, "asSetDimension on a set descriptor"); SetDimension r; r.labels_n = d->labels_n; return r; }
static inline DataFrameDimension Dimension_asDataFrameDimension(const Dimension *d)
{ __CPROVER_assert(d->type == DimensionType_DataFrame, "asDataFrameDimension on a data-frame descriptor"); DataFrameDimension r; r.rows = d->rows; return r; }
static inline vec_double RangeDimension_ticks(const RangeDimension *r)
{ vec_double v; v.data = NULL; v.n = r->ticks_n; return v; }
static inline vec_string SetDimension_labels(const SetDimension *r)
{ vec_string v; v.n = r->labels_n; return v; }
static inline ndsize_t DataFrameDimension_size(const DataFrameDimension *r)
{ return r->rows; }
/* NDSize::nelms (number of elements): not used by the pinned predicates; an arbitrary value here so that a change which brings it in stays decidable */
ndsize_t nondet_ndsize(void);
static inline ndsize_t NDSize_nelms(const NDSize *self)
{ return nondet_ndsize(); }
/* check::fits_in_size_t on this platform (sizeof(ndsize_t) == sizeof(size_t)): the identity, never throws */
static inline size_t fits_in_size_t(ndsize_t size, const char *msg_if_fail)
{ return (size_t)size; }

#ifdef C19_BOUNDED
#define C19_NMAX C19_BOUNDED
#else
#define C19_NMAX VEC_MAX
#endif
#define C19_PRE(f, T) \
  __CPROVER_requires(__CPROVER_is_fresh(self, sizeof(T)) && NDV_FRESH(self->data.extent) && __CPROVER_is_fresh(dims, sizeof(vec_Dimension)) && \
                     dims->n <= C19_NMAX && __CPROVER_is_fresh(dims->data, dims->n * sizeof(Dimension)) && gh_dims_base == dims->data && nix_exc == EXC_NONE)
#define C19_MIN(a, b) ((a) < (b) ? (a) : (b))
/* BREACH(d): descriptor d (0-based, d < rank) is of the checked kind and its length differs from the data length along d */
#define TICKS_BREACH(d) (dims->data[d].type == DimensionType_Range && dims->data[d].ticks_n != self->data.extent.dims[d])
#define LABELS_BREACH(d) (dims->data[d].type == DimensionType_Set && dims->data[d].labels_n > 0 && dims->data[d].labels_n != self->data.extent.dims[d])
#define ROWS_BREACH(d) (dims->data[d].type == DimensionType_DataFrame && dims->data[d].rows != self->data.extent.dims[d])
#define C19_POST(BREACH) \
  __CPROVER_ensures(/*every-breach-is-flagged*/ (ghost_k < C19_MIN(dims->n, self->data.extent.rank) && BREACH(ghost_k)) ==> !RV) \
  __CPROVER_ensures(/*conforming-descriptors-are-accepted*/ RV || ND_EXISTS(q2, C19_MIN(dims->n, self->data.extent.rank), BREACH(q2))) \
  __CPROVER_ensures(/*never-throws*/ nix_exc == EXC_NONE)

bool dimTicksMatchData_call(const dimTicksMatchData *self, const vec_Dimension *dims)
C19_PRE(dimTicksMatchData_call, dimTicksMatchData)
C19_POST(TICKS_BREACH)
NIX_CANARY(dimTicksMatchData_call) __CPROVER_assigns(nix_exc)
;
bool dimLabelsMatchData_call(const dimLabelsMatchData *self, const vec_Dimension *dims)
C19_PRE(dimLabelsMatchData_call, dimLabelsMatchData)
C19_POST(LABELS_BREACH)
NIX_CANARY(dimLabelsMatchData_call) __CPROVER_assigns(nix_exc)
;
bool dimDataFrameTicksMatchData_call(const dimDataFrameTicksMatchData *self, const vec_Dimension *dims)
C19_PRE(dimDataFrameTicksMatchData_call, dimDataFrameTicksMatchData)
C19_POST(ROWS_BREACH)
NIX_CANARY(dimDataFrameTicksMatchData_call) __CPROVER_assigns(nix_exc)
;
/* "number of dimension descriptors differs from the data rank": dimEquals(n)(array) <=> rank == n */
bool dimEquals_call(const dimEquals *self, const DataArray *array)
__CPROVER_requires(__CPROVER_is_fresh(self, sizeof(dimEquals)) && __CPROVER_is_fresh(array, sizeof(DataArray)) && NDV_FRESH(array->extent) && nix_exc == EXC_NONE)
__CPROVER_ensures(/*true-iff-rank-equals-the-descriptor-count*/ RV <==> array->extent.rank == self->value)
__CPROVER_ensures(/*never-throws*/ nix_exc == EXC_NONE)
NIX_CANARY(dimEquals_call) __CPROVER_assigns(nix_exc)
;
#undef RV
#endif
