/* C20: tree searches - the work-list step of Source::findSources (src/Source.cpp), region unit = the body of its while loop.
   "Searching ... with a filter and a depth limit returns exactly the entities - each once - that a brute-force traversal of the tree
   finds within that depth (... breadth-first order; unlimited depth returns every descendant)".  Decided here is the step the
   traversal is made of - the depth bookkeeping where off-by-one errors live: the node taken from the FRONT of the queue is removed
   from it, tested by the filter exactly once and appended to the results iff the filter accepts it; its children are appended to the
   BACK of the queue, in child order, one level deeper, iff its depth is below the limit; nothing else is enqueued or reported.
   The queue, the result vector, the filter and Source::sources() are ghost records (std::queue is FIFO: assumed). */
#ifndef C20_SEARCH_H
#define C20_SEARCH_H
#define RV __CPROVER_return_value
#ifdef C20_BOUNDED
#define C20_NMAX C20_BOUNDED
#else
#define C20_NMAX VEC_MAX
#endif
typedef struct { int node; } Source;
typedef struct { Source entity; size_t depth; } SourceCont;      /* struct SourceCont of src/Source.cpp */
typedef struct { Source *data; size_t n; } vec_Source;
typedef struct { int _q; } queue_SourceCont;
typedef struct { int _f; } SourceFilterFn;
extern SourceCont gh_cur;                 /* front of the queue */
extern int gh_pops, gh_filter_calls, gh_filter_node, gh_filter_ok, gh_res_pushes, gh_res_node;
extern size_t gh_enq;                     /* elements appended to the queue by this step */
extern Source *gh_children; extern size_t gh_nchildren; extern int gh_children_of;
static inline SourceCont mk_SourceCont(Source e, size_t depth)
{ SourceCont c; c.entity = e; c.depth = depth; return c; }
static inline SourceCont queue_SourceCont_front(const queue_SourceCont *q)
{ __CPROVER_assert(gh_pops == 0, "front() before pop()"); return gh_cur; }
static inline void queue_SourceCont_pop(queue_SourceCont *q)
{ gh_pops++; }
static inline void queue_SourceCont_push(queue_SourceCont *q, SourceCont c)
{ __CPROVER_assert(/*only-children-of-the-current-node-in-order-one-level-deeper-are-enqueued*/ gh_children_of == gh_cur.entity.node && gh_enq < gh_nchildren && c.entity.node == gh_children[gh_enq].node && c.depth == gh_cur.depth + 1,
                   "only the children of the current node are enqueued, in child order, one level deeper");
  gh_enq++; }
static inline bool SourceFilterFn_call(const SourceFilterFn *f, Source s)
{ gh_filter_calls++; gh_filter_node = s.node; return gh_filter_ok != 0; }
static inline void vec_Source_push_back(vec_Source *v, Source s)
{ gh_res_pushes++; gh_res_node = s.node; }
static inline vec_Source Source_sources(const Source *s)
{ gh_children_of = s->node; vec_Source v; v.data = gh_children; v.n = gh_nchildren; return v; }
void source_bfs_step(const SourceFilterFn *filter, size_t max_depth, queue_SourceCont *todo, vec_Source *results)
__CPROVER_requires(__CPROVER_is_fresh(filter, sizeof(SourceFilterFn)) && __CPROVER_is_fresh(todo, sizeof(queue_SourceCont)) && __CPROVER_is_fresh(results, sizeof(vec_Source)))
__CPROVER_requires(gh_nchildren <= C20_NMAX && __CPROVER_is_fresh(gh_children, gh_nchildren * sizeof(Source)) && gh_pops == 0 && gh_filter_calls == 0 && gh_res_pushes == 0 && gh_enq == 0 &&
                   (gh_filter_ok == 0 || gh_filter_ok == 1) && gh_children_of == -1 && gh_cur.entity.node >= 0 && nix_exc == EXC_NONE)
__CPROVER_ensures(/*the-front-node-is-removed-and-filtered-exactly-once*/ gh_pops == 1 && gh_filter_calls == 1 && gh_filter_node == gh_cur.entity.node)
__CPROVER_ensures(/*reported-iff-the-filter-accepts-it*/ gh_res_pushes == (gh_filter_ok ? 1 : 0) && (gh_filter_ok ==> gh_res_node == gh_cur.entity.node))
__CPROVER_ensures(/*children-enqueued-iff-depth-below-the-limit*/ gh_enq == (gh_cur.depth < max_depth ? gh_nchildren : 0))
__CPROVER_ensures(/*never-throws*/ nix_exc == EXC_NONE)
NIX_CANARY(source_bfs_step) __CPROVER_assigns(nix_exc, gh_pops, gh_filter_calls, gh_filter_node, gh_res_pushes, gh_res_node, gh_enq, gh_children_of)
;
/* Block::findSources (src/Block.cpp): the search started at the block - the body of its loop over the top-level sources (region unit).
   Each top-level source's own search (which reports the source itself at level 0: source_bfs_step above) is asked exactly once, from that source, with the
   SAME filter and the SAME depth limit, and its answer is appended to the result.  NOT decided: the loop header (Block::sources() in index order). */
typedef struct { int serial; size_t n; } vec_SourceA;          /* a search answer as a value */
extern int gh_bs_calls, gh_bs_node, gh_bs_filter, gh_bs_appends, gh_bs_append_serial; extern size_t gh_bs_depth;
#define BS_FILTER_ID 6
#define BS_SERIAL 17
static inline vec_SourceA Source_findSources_a(const Source *s, const SourceFilterFn *f, size_t depth)
{ gh_bs_calls++; gh_bs_node = s->node; gh_bs_filter = f->_f; gh_bs_depth = depth; vec_SourceA v; v.serial = BS_SERIAL; v.n = 0; return v; }
static inline void vec_Source_append(vec_Source *dst, const vec_SourceA *src)
{ gh_bs_appends++; gh_bs_append_serial = src->serial; }
void block_find_probe(const SourceFilterFn *filter, size_t max_depth, const Source *probe, vec_SourceA *matches, vec_Source *result)
__CPROVER_requires(__CPROVER_is_fresh(filter, sizeof(SourceFilterFn)) && filter->_f == BS_FILTER_ID && __CPROVER_is_fresh(probe, sizeof(Source)) && probe->node >= 0 && __CPROVER_is_fresh(matches, sizeof(vec_SourceA)) &&
                   __CPROVER_is_fresh(result, sizeof(vec_Source)) && gh_bs_calls == 0 && gh_bs_appends == 0 && nix_exc == EXC_NONE)
__CPROVER_ensures(/*the-top-level-source-is-searched-once-with-the-same-filter-and-the-same-depth-limit*/ gh_bs_calls == 1 && gh_bs_node == probe->node && gh_bs_filter == BS_FILTER_ID && gh_bs_depth == max_depth)
__CPROVER_ensures(/*its-answer-is-appended-to-the-result*/ gh_bs_appends == 1 && gh_bs_append_serial == BS_SERIAL && nix_exc == EXC_NONE)
NIX_CANARY(block_find_probe) __CPROVER_assigns(nix_exc, gh_bs_calls, gh_bs_node, gh_bs_filter, gh_bs_depth, gh_bs_appends, gh_bs_append_serial; *matches)
;
#undef RV
#endif
