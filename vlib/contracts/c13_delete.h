/* C13: DataArrayHDF5::deleteDimensions (backend/hdf5/DataArrayHDF5.cpp) - "... and deleting the dimensions leaves none".
   Decided (loop contract, any number of descriptors; bounded twin): every descriptor group 1..count that exists is removed - stated for an arbitrary
   descriptor number ghost_j: if group ghost_j exists it is removed, exactly once, and only after it was found to exist; nothing else is asked to
   be removed than descriptor groups 1..count; the call answers true.  (Types, numToStr and the group functor: c13_dims.h.) */
#ifndef C13_DELETE_H
#define C13_DELETE_H
#define RV __CPROVER_return_value
#ifdef C13D_BOUNDED
#define DD_NMAX C13D_BOUNDED
#else
#define DD_NMAX 1000000000ULL
#endif
extern int gh_dd_exists_j, gh_dd_found_j, gh_dd_removed_j, gh_dd_bad_removes;
_Bool nondet_bool(void);
/* dimension_group() with its default argument (do not create) */
static inline opt_H5Group dd_dimension_group(const DataArrayHDF5 *self)
{ opt_H5Group g; g._g = 1; return g; }
static inline bool dd_hasGroup(const opt_H5Group *g, nstring name)
{ if (name.len == ghost_j) { gh_dd_found_j++; return gh_dd_exists_j != 0; } return nondet_bool(); }
static inline void dd_removeGroup(opt_H5Group *g, nstring name)
{ if (name.len == 0 || name.len > gh_dim_count) gh_dd_bad_removes++;
  if (name.len == ghost_j) { __CPROVER_assert(gh_dd_found_j > 0 && gh_dd_exists_j, "a descriptor group is removed only after it was found to exist"); gh_dd_removed_j++; } }
bool DataArrayHDF5_deleteDimensions(DataArrayHDF5 *self)
__CPROVER_requires(__CPROVER_is_fresh(self, sizeof(*self)) && gh_dim_count <= DD_NMAX && (gh_dd_exists_j == 0 || gh_dd_exists_j == 1) && gh_dd_found_j == 0 && gh_dd_removed_j == 0 && gh_dd_bad_removes == 0 && nix_exc == EXC_NONE)
__CPROVER_ensures(/*every-existing-descriptor-group-is-removed-exactly-once*/ (ghost_j >= 1 && ghost_j <= gh_dim_count && gh_dd_exists_j) ==> gh_dd_removed_j == 1)
__CPROVER_ensures(/*a-missing-descriptor-group-costs-nothing*/ !gh_dd_exists_j ==> gh_dd_removed_j == 0)
__CPROVER_ensures(/*only-descriptor-groups-1..count-are-removed*/ gh_dd_bad_removes == 0)
__CPROVER_ensures(/*answers-true*/ RV && nix_exc == EXC_NONE)
NIX_CANARY(DataArrayHDF5_deleteDimensions) __CPROVER_assigns(nix_exc, gh_dd_found_j, gh_dd_removed_j, gh_dd_bad_removes)
;
#undef RV
#endif
