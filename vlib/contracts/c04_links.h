/* C04: "delete = remove every hard link to the object, wherever it is, by repeatedly asking HDF5 for a remaining path" -
   H5Group::removeAllLinks (backend/hdf5/h5x/H5Group.cpp) with a loop contract.
   libhdf5 is a ghost counter of the hard links that still lead to the object (ASSUMED from the HDF5 manual: H5Iget_name returns a path
   while one exists and an empty name when none is left; H5Ldelete removes exactly the link it is given).
   Post: an existing child is left with NO link (no other entity exposes it any more); a missing child costs nothing. */
#ifndef C04_LINKS_H
#define C04_LINKS_H
#define RV __CPROVER_return_value
#ifdef C04_BOUNDED
#define C04_LMAX (C04_BOUNDED + 1)
#else
#define C04_LMAX 1000000000L
#endif
typedef struct { int id; } nstring;
typedef struct { int obj; } H5Group;
extern int gh_child_exists;            /* is there a child group with the given name */
extern long gh_links, gh_deleted;      /* hard links that still lead to that child; links deleted so far */
extern int gh_some_path;               /* id of a path string (non-empty) */
static inline bool nstring_empty(const nstring *s)
{ return s->id == 0; }
static inline bool H5Group_hasGroup(const H5Group *self, const nstring *name)
{ return gh_child_exists != 0; }
static inline H5Group H5Group_openGroup(const H5Group *self, const nstring *name, bool create)
{ __CPROVER_assert(gh_child_exists && !create, "openGroup(name, false) of an existing child"); H5Group g; g.obj = 1; return g; }
static inline nstring H5Group_name(const H5Group *g)
{ nstring s; s.id = gh_links > 0 ? gh_some_path : 0; return s; }     /* a remaining path, or "" */
static inline void H5Group_deleteLink(H5Group *self, const nstring *path)
{ __CPROVER_assert(path->id != 0 && gh_links > 0, "deleteLink is handed an existing path of the object"); gh_links--; gh_deleted++; }
bool H5Group_removeAllLinks(H5Group *self, const nstring *name)
__CPROVER_requires(__CPROVER_is_fresh(self, sizeof(H5Group)) && __CPROVER_is_fresh(name, sizeof(nstring)) && gh_some_path != 0 && gh_deleted == 0 && gh_links >= 0 && gh_links < C04_LMAX &&
                   (gh_child_exists == 0 || gh_child_exists == 1) && (gh_child_exists ==> gh_links >= 1) && nix_exc == EXC_NONE)
__CPROVER_ensures(/*existing-child-is-left-without-any-link*/ gh_child_exists ==> (RV && gh_links == 0 && gh_deleted == __CPROVER_old(gh_links)))
__CPROVER_ensures(/*missing-child-costs-nothing*/ !gh_child_exists ==> (!RV && gh_deleted == 0 && gh_links == __CPROVER_old(gh_links)))
__CPROVER_ensures(/*never-throws*/ nix_exc == EXC_NONE)
NIX_CANARY(H5Group_removeAllLinks) __CPROVER_assigns(nix_exc, gh_links, gh_deleted)
;
#undef RV
#endif
