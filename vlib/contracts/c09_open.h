/* C09: open modes.  backend/hdf5/FileHDF5.cpp map_file_mode and the two decision regions of the FileHDF5 constructor,
   src/File.cpp File::open (ReadOnly on a missing path).  H5F_ACC_* come from the installed H5Fpublic.h (passed as -D).
   Whether libhdf5 honours H5F_ACC_RDONLY (never writes a byte) is NOT verified. */
#ifndef C09_OPEN_H
#define C09_OPEN_H
#define RV __CPROVER_return_value
#define MODE_VALID(m) ((m) == FileMode_ReadOnly || (m) == FileMode_ReadWrite || (m) == FileMode_Overwrite)
unsigned int map_file_mode(FileMode mode)
__CPROVER_ensures(/*ReadOnly-maps-to-RDONLY*/ mode == FileMode_ReadOnly ==> RV == H5F_ACC_RDONLY)
__CPROVER_ensures(/*ReadWrite-maps-to-RDWR*/ mode == FileMode_ReadWrite ==> RV == H5F_ACC_RDWR)
__CPROVER_ensures(/*Overwrite-maps-to-TRUNC*/ mode == FileMode_Overwrite ==> RV == H5F_ACC_TRUNC)
__CPROVER_ensures(/*only-Overwrite-truncates*/ RV == H5F_ACC_TRUNC ==> mode == FileMode_Overwrite)
NIX_CANARY(map_file_mode) __CPROVER_assigns()
;

/* ghost: does the path exist (constant during the call), and what was asked of libhdf5 */
extern bool gh_file_exists;
extern int gh_h5_created, gh_h5_opened; extern unsigned int gh_h5_flags;
typedef struct { FileMode mode; long hid; } FileHDF5o;        /* members the regions use */
typedef struct { int _s; } cxxstring;
typedef struct { int _p; } H5Object;
static inline bool FileHDF5o_fileExists(const FileHDF5o *self, const cxxstring *name)
{ return gh_file_exists; }
static inline const char *cxxstring_c_str(const cxxstring *s)
{ return "path"; }
static inline long H5Object_h5id(const H5Object *o)
{ return 1; }
#define H5P_DEFAULT 0
static inline long H5Fcreate(const char *name, unsigned int flags, long fcpl, long fapl)
{ gh_h5_created++; gh_h5_flags = flags; return 7; }
static inline long H5Fopen(const char *name, unsigned int flags, long fapl)
{ gh_h5_opened++; gh_h5_flags = flags; return 7; }

/* region A:  if (!fileExists(name)) { mode = FileMode::Overwrite; }  this->mode = mode;  */
FileMode FileHDF5_ctor_mode(FileHDF5o *self, const cxxstring *name, FileMode mode)
__CPROVER_requires(__CPROVER_is_fresh(self, sizeof(FileHDF5o)) && __CPROVER_is_fresh(name, sizeof(cxxstring)) && MODE_VALID(mode))
__CPROVER_ensures(/*missing-file-forces-Overwrite*/ !gh_file_exists ==> (RV == FileMode_Overwrite && self->mode == FileMode_Overwrite))
__CPROVER_ensures(/*existing-file-keeps-mode*/ gh_file_exists ==> (RV == mode && self->mode == mode))
NIX_CANARY(FileHDF5_ctor_mode) __CPROVER_assigns(self->mode)
;
/* region B:  h5mode = map_file_mode(mode); is_create = !fileExists(name) || h5mode == H5F_ACC_TRUNC; H5Fcreate / H5Fopen */
bool FileHDF5_ctor_open(FileHDF5o *self, const cxxstring *name, FileMode mode, H5Object fcpl)
__CPROVER_requires(__CPROVER_is_fresh(self, sizeof(FileHDF5o)) && __CPROVER_is_fresh(name, sizeof(cxxstring)) && MODE_VALID(mode))
__CPROVER_requires(gh_h5_created == 0 && gh_h5_opened == 0)
__CPROVER_ensures(/*ReadOnly-existing-opens-RDONLY-never-creates*/ (gh_file_exists && mode == FileMode_ReadOnly) ==> (!RV && gh_h5_opened == 1 && gh_h5_created == 0 && gh_h5_flags == H5F_ACC_RDONLY))
__CPROVER_ensures(/*ReadWrite-existing-opens-RDWR-never-truncates*/ (gh_file_exists && mode == FileMode_ReadWrite) ==> (!RV && gh_h5_opened == 1 && gh_h5_created == 0 && gh_h5_flags == H5F_ACC_RDWR))
__CPROVER_ensures(/*Overwrite-creates-truncating*/ mode == FileMode_Overwrite ==> (RV && gh_h5_created == 1 && gh_h5_opened == 0 && gh_h5_flags == H5F_ACC_TRUNC))
__CPROVER_ensures(/*exactly-one-libhdf5-call*/ gh_h5_created + gh_h5_opened == 1)
NIX_CANARY(FileHDF5_ctor_open) __CPROVER_assigns(self->hid, gh_h5_created, gh_h5_opened, gh_h5_flags)
;
/* File::open, first statement: ReadOnly on a non-existent path is refused before any back end is constructed */
static inline bool bfs_exists(const cxxstring *name)
{ return gh_file_exists; }
NIX_THROWS void File_open_guard(const cxxstring *name, FileMode mode, Compression compression)
__CPROVER_requires(__CPROVER_is_fresh(name, sizeof(cxxstring)) && MODE_VALID(mode) && nix_exc == EXC_NONE)
__CPROVER_ensures(/*ReadOnly-on-missing-path-refused*/ (mode == FileMode_ReadOnly && !gh_file_exists) <==> nix_exc == EXC_runtime_error)
__CPROVER_ensures(/*no-other-exception*/ nix_exc == EXC_NONE || nix_exc == EXC_runtime_error)
NIX_CANARY(File_open_guard) __CPROVER_assigns(nix_exc)
;

/* "timestamps are only added on open when missing": setCreatedAt / setUpdatedAt write the attribute iff it is absent */
#include <time.h>
typedef struct { int _g; } H5GroupT;
typedef struct { H5GroupT root; } FileHDF5t;
typedef struct { int _t; } tstring;
extern bool gh_has_created_at, gh_has_updated_at; extern int gh_attr_writes;
static inline bool H5GroupT_hasAttr(const H5GroupT *g, const char *name)
{ return name[0] == 'c' ? gh_has_created_at : gh_has_updated_at; }
static inline void H5GroupT_setAttr(H5GroupT *g, const char *name, tstring value)
{ gh_attr_writes++; }
static inline tstring timeToStr(time_t t)
{ tstring s; s._t = 0; return s; }
void FileHDF5_setCreatedAt(FileHDF5t *self)
__CPROVER_requires(__CPROVER_is_fresh(self, sizeof(FileHDF5t)) && gh_attr_writes == 0)
__CPROVER_ensures(/*written-iff-missing*/ gh_attr_writes == (gh_has_created_at ? 0 : 1))
NIX_CANARY(FileHDF5_setCreatedAt) __CPROVER_assigns(gh_attr_writes)
;
void FileHDF5_setUpdatedAt(FileHDF5t *self)
__CPROVER_requires(__CPROVER_is_fresh(self, sizeof(FileHDF5t)) && gh_attr_writes == 0)
__CPROVER_ensures(/*written-iff-missing*/ gh_attr_writes == (gh_has_updated_at ? 0 : 1))
NIX_CANARY(FileHDF5_setUpdatedAt) __CPROVER_assigns(gh_attr_writes)
;
#undef RV
#endif
