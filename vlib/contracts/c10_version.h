/* C10: include/nix/Version.hpp FormatVersion.  Contracts state the property text:
   canWrite <=> identical triple; canRead <=> same x and file y not newer; operator< is the
   lexicographic order on (x,y,z); the derived comparisons are defined by it. */
#ifndef C10_VERSION_H
#define C10_VERSION_H
typedef struct { int vx, vy, vz; } FormatVersion;      /* data members of class FormatVersion */

/* FormatVersion({x, y, z}): initializer-list constructor (three elements) and address of a temporary */
static inline FormatVersion mk_FormatVersion_list(int x, int y, int z) { FormatVersion v; v.vx = x; v.vy = y; v.vz = z; return v; }
static inline FormatVersion *TMP_FormatVersion(FormatVersion v) { FormatVersion *p = malloc(sizeof(FormatVersion)); __CPROVER_assume(p != NULL); *p = v; return p; }
#ifndef NIX_WITNESS
#define FV_OK(p) __CPROVER_is_fresh(p, sizeof(FormatVersion))
#define FV_W2(a, b) 1
#else   /* replay: both triples are mirrored into globals the witness / oracle harness assigns (vlib/replay.py) */
extern int g_fa0, g_fa1, g_fa2, g_fb0, g_fb1, g_fb2;
#define FV_OK(p) __CPROVER_is_fresh(p, sizeof(FormatVersion))
#define FV_W2(a, b) ((a)->vx == g_fa0 && (a)->vy == g_fa1 && (a)->vz == g_fa2 && (b)->vx == g_fb0 && (b)->vy == g_fb1 && (b)->vz == g_fb2)
#endif
/* second operand may alias the first (a < a is legal C++) */
#define FV_OK2(a, b) (FV_OK(a) && ((b) == (a) || FV_OK(b)) && FV_W2(a, b))
#define FV_LEX_LT(a, b) ((a)->vx < (b)->vx || ((a)->vx == (b)->vx && ((a)->vy < (b)->vy || ((a)->vy == (b)->vy && (a)->vz < (b)->vz))))
#define FV_EQ(a, b) ((a)->vx == (b)->vx && (a)->vy == (b)->vy && (a)->vz == (b)->vz)
#define RV __CPROVER_return_value

int FormatVersion_x(const FormatVersion *self)
__CPROVER_requires(FV_OK(self)) __CPROVER_ensures(/*x*/ RV == self->vx) NIX_CANARY(FormatVersion_x) __CPROVER_assigns()
;
int FormatVersion_y(const FormatVersion *self)
__CPROVER_requires(FV_OK(self)) __CPROVER_ensures(/*y*/ RV == self->vy) NIX_CANARY(FormatVersion_y) __CPROVER_assigns()
;
int FormatVersion_z(const FormatVersion *self)
__CPROVER_requires(FV_OK(self)) __CPROVER_ensures(/*z*/ RV == self->vz) NIX_CANARY(FormatVersion_z) __CPROVER_assigns()
;

NIX_THROWS int FormatVersion_index(const FormatVersion *self, const size_t index)
__CPROVER_requires(FV_OK(self) && nix_exc == EXC_NONE)
__CPROVER_ensures(/*component*/ index < 3 ==> (nix_exc == EXC_NONE && RV == (index == 0 ? self->vx : index == 1 ? self->vy : self->vz)))
__CPROVER_ensures(/*out-of-range-throws*/ index >= 3 <==> nix_exc == EXC_out_of_range)
NIX_CANARY(FormatVersion_index) __CPROVER_assigns(nix_exc)
;

bool FormatVersion_eq(const FormatVersion *self, const FormatVersion *o)
__CPROVER_requires(FV_OK2(self, o))
__CPROVER_ensures(/*equality*/ RV <==> FV_EQ(self, o))
#ifdef NIX_ENFORCE_FormatVersion_eq
__CPROVER_ensures(/*COVER-alias*/ !(o == self))
__CPROVER_ensures(/*COVER-distinct-equal*/ !(o != self && RV))
#endif
NIX_CANARY(FormatVersion_eq) __CPROVER_assigns()
;

NIX_THROWS bool FormatVersion_lt(const FormatVersion *self, const FormatVersion *b)
__CPROVER_requires(FV_OK2(self, b) && nix_exc == EXC_NONE)
__CPROVER_ensures(/*lexicographic*/ RV <==> FV_LEX_LT(self, b))
#ifdef NIX_ENFORCE_FormatVersion_lt
__CPROVER_ensures(/*COVER-alias*/ !(b == self))
__CPROVER_ensures(/*COVER-lt-by-z*/ !(RV && self->vx == b->vx && self->vy == b->vy))
#endif
__CPROVER_ensures(/*no-exception*/ nix_exc == EXC_NONE)
NIX_CANARY(FormatVersion_lt) __CPROVER_assigns(nix_exc)
;

bool FormatVersion_ne(const FormatVersion *self, const FormatVersion *o)
__CPROVER_requires(FV_OK2(self, o))
__CPROVER_ensures(/*not-equal*/ RV <==> !FV_EQ(self, o))
NIX_CANARY(FormatVersion_ne) __CPROVER_assigns()
;
NIX_THROWS bool FormatVersion_gt(const FormatVersion *self, const FormatVersion *b)
__CPROVER_requires(FV_OK2(self, b) && nix_exc == EXC_NONE)
__CPROVER_ensures(/*greater*/ RV <==> FV_LEX_LT(b, self))
__CPROVER_ensures(/*no-exception*/ nix_exc == EXC_NONE)
NIX_CANARY(FormatVersion_gt) __CPROVER_assigns(nix_exc)
;
NIX_THROWS bool FormatVersion_le(const FormatVersion *self, const FormatVersion *b)
__CPROVER_requires(FV_OK2(self, b) && nix_exc == EXC_NONE)
__CPROVER_ensures(/*less-or-equal*/ RV <==> (FV_LEX_LT(self, b) || FV_EQ(self, b)))
__CPROVER_ensures(/*no-exception*/ nix_exc == EXC_NONE)
NIX_CANARY(FormatVersion_le) __CPROVER_assigns(nix_exc)
;
NIX_THROWS bool FormatVersion_ge(const FormatVersion *self, const FormatVersion *b)
__CPROVER_requires(FV_OK2(self, b) && nix_exc == EXC_NONE)
__CPROVER_ensures(/*greater-or-equal*/ RV <==> (FV_LEX_LT(b, self) || FV_EQ(self, b)))
__CPROVER_ensures(/*no-exception*/ nix_exc == EXC_NONE)
NIX_CANARY(FormatVersion_ge) __CPROVER_assigns(nix_exc)
;

bool FormatVersion_canWrite(const FormatVersion *self, const FormatVersion *thefile)
__CPROVER_requires(FV_OK2(self, thefile))
__CPROVER_ensures(/*write-iff-identical*/ RV <==> (self->vx == thefile->vx && self->vy == thefile->vy && self->vz == thefile->vz))
NIX_CANARY(FormatVersion_canWrite) __CPROVER_assigns()
;
bool FormatVersion_canRead(const FormatVersion *self, const FormatVersion *thefile)
__CPROVER_requires(FV_OK2(self, thefile))
__CPROVER_ensures(/*read-iff-same-major-and-not-newer-minor*/ RV <==> (self->vx == thefile->vx && thefile->vy <= self->vy))
NIX_CANARY(FormatVersion_canRead) __CPROVER_assigns()
;
#undef RV
#endif
