/* C18: util::scalePositions (src/util/dataAccess.cpp) - where the positions handed to positionToIndex(starts, ends, units, ...) are brought to the unit of the
   dimension.  "Expressing a tag's positions and extents ... in a scaled unit with numerically rescaled values selects the same elements as the
   unscaled request": every position k is multiplied by ITS OWN factor - the SI factor from units[k] to the dimension's unit when both are given,
   and exactly 1 when position k (or the dimension) has no unit - so a position does not depend on the entries before it.
   BOUNDED stand-in (at most 2 positions, loop unwound completely: the loop writes arrays, see DESIGN 2) - never counted as proved.
   getSIScaling is a ghost: its answer for entry k is the CONSTANT SC_F(k) (0.5 for entry 0, 4.0 for entry 1: powers of two, distinct from each other and from 1 -
   a symbolic factor makes the products symbolic x symbolic, which does not terminate, DESIGN 2), or InvalidUnit when gh_bad[k]; positions are any doubles;
   strings are abstract ids (1 = "none").
   The value clause for a scaled entry repeats the multiplication; the clause for a unit-less entry needs none (x * 1.0 == x). */
#ifndef C18_SCALE_H
#define C18_SCALE_H
#define RV __CPROVER_return_value
#define SC_MAX 2
typedef struct { int id; } nstring;
typedef struct { nstring *data; size_t n; } vec_nstr;
#define SC_F(k) ((k) == 0 ? 0.5 : 4.0)
extern int gh_bad[SC_MAX]; extern int gh_dim_unit_id; extern size_t gh_sc_calls;
static inline bool nstring_ne_cstr(const nstring *a, const char *lit)
{ __CPROVER_assert(lit[0] == 'n' && lit[1] == 'o' && lit[2] == 'n' && lit[3] == 'e' && lit[4] == 0, "only the literal \"none\" is modelled"); return a->id != 1; }
static inline size_t min(size_t a, size_t b)
{ return a < b ? a : b; }
/* NOT marked may-throw: the call sits in a try block, the catch-all is the macro below */
static inline double getSIScaling_caught(const nstring *origin, const nstring *destination)
{ __CPROVER_assert(origin->id >= 10 && origin->id < 10 + SC_MAX && destination->id == gh_dim_unit_id, "the factor is asked for the unit of THIS position and the dimension's unit");
  gh_sc_calls++;
  if (gh_bad[origin->id - 10]) { nix_exc = EXC_InvalidUnit; return 0.0; }
  return SC_F(origin->id - 10); }
#define NIX_CATCH_ALL_RETHROW(E) if (nix_exc) { nix_exc = EXC_##E; return NIX_RET_DEFAULT; }
static inline void vec_double_resize(vec_double *v, size_t n)
{ __CPROVER_assert(n <= SC_MAX, "bounded"); v->n = n; }
#define SAME_D(a, b) ((a) == (b) || (isnan(a) && isnan(b)))
#define SC_N (starts->n < ends->n ? starts->n : ends->n)
#define SC_HAS_UNIT(k) ((k) < units->n && units->data[k].id != 1 && dim_unit->id != 1)
#define SC_STOPPED_BEFORE(k) (((k) > 0 && SC_HAS_UNIT(0) && gh_bad[0]))
NIX_THROWS void scalePositions(const vec_double *starts, const vec_double *ends, const vec_nstr *units, const nstring *dim_unit, vec_double *scaled_starts, vec_double *scaled_ends)
__CPROVER_requires(__CPROVER_is_fresh(starts, sizeof(vec_double)) && starts->n <= SC_MAX && __CPROVER_is_fresh(starts->data, SC_MAX * sizeof(double)) &&
                   __CPROVER_is_fresh(ends, sizeof(vec_double)) && ends->n <= SC_MAX && __CPROVER_is_fresh(ends->data, SC_MAX * sizeof(double)) &&
                   __CPROVER_is_fresh(units, sizeof(vec_nstr)) && units->n <= SC_MAX && __CPROVER_is_fresh(units->data, SC_MAX * sizeof(nstring)) &&
                   __CPROVER_is_fresh(dim_unit, sizeof(nstring)) && dim_unit->id == gh_dim_unit_id && (gh_dim_unit_id == 1 || gh_dim_unit_id == 5) &&
                   (units->data[0].id == 1 || units->data[0].id == 10) && (units->data[1].id == 1 || units->data[1].id == 11) &&
                   __CPROVER_is_fresh(scaled_starts, sizeof(vec_double)) && scaled_starts->n <= SC_MAX && __CPROVER_is_fresh(scaled_starts->data, SC_MAX * sizeof(double)) &&
                   __CPROVER_is_fresh(scaled_ends, sizeof(vec_double)) && scaled_ends->n <= SC_MAX && __CPROVER_is_fresh(scaled_ends->data, SC_MAX * sizeof(double)) &&
                   (gh_bad[0] == 0 || gh_bad[0] == 1) && (gh_bad[1] == 0 || gh_bad[1] == 1) && gh_sc_calls == 0 && nix_exc == EXC_NONE)
__CPROVER_ensures(/*one-scaled-start-and-end-per-position*/ nix_exc == EXC_NONE ==> (scaled_starts->n == SC_N && scaled_ends->n == SC_N))
__CPROVER_ensures(/*a-position-without-unit-is-not-scaled-whatever-came-before-it*/ (nix_exc == EXC_NONE && ghost_k < SC_N && !SC_HAS_UNIT(ghost_k)) ==>
                  (SAME_D(scaled_starts->data[ghost_k], starts->data[ghost_k]) && SAME_D(scaled_ends->data[ghost_k], ends->data[ghost_k])))
__CPROVER_ensures(/*a-position-with-unit-is-scaled-by-its-own-factor*/ (nix_exc == EXC_NONE && ghost_k < SC_N && SC_HAS_UNIT(ghost_k)) ==>
                  (SAME_D(scaled_starts->data[ghost_k], starts->data[ghost_k] * SC_F(ghost_k)) && SAME_D(scaled_ends->data[ghost_k], ends->data[ghost_k] * SC_F(ghost_k))))
__CPROVER_ensures(/*an-inconvertible-unit-raises-IncompatibleDimensions*/ nix_exc != EXC_NONE <==> ((0 < SC_N && SC_HAS_UNIT(0) && gh_bad[0]) || (1 < SC_N && SC_HAS_UNIT(1) && gh_bad[1])))
__CPROVER_ensures(nix_exc == EXC_NONE || nix_exc == EXC_IncompatibleDimensions)
NIX_CANARY(scalePositions) __CPROVER_assigns(nix_exc, gh_sc_calls; scaled_starts->n; scaled_ends->n; __CPROVER_object_whole(scaled_starts->data); __CPROVER_object_whole(scaled_ends->data))
;
#undef RV
#endif
