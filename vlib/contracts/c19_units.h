/* C19: tagUnitsMatchRefsUnits (src/valid/checks.cpp) - "tag units that cannot be converted to the referenced
   dimension's unit" must be flagged, convertible ones accepted.  BOUNDED stand-in (at most 2 referenced arrays, 3 tag
   units, 3 dimensions per array; loops unwound completely under that bound) - never counted as proved.
   Strings are abstract ids (0 = empty, 1 = "none", 2.. = other unit strings); util::isScalable (boost::regex grammar,
   C18) is an arbitrary relation on ids (ghost table); getDimensionsUnits(ref) is the per-dimension unit list of the
   referenced array ("none" for a dimension without unit). */
#ifndef C19_UNITS_H
#define C19_UNITS_H
#define RV __CPROVER_return_value
#define NSTR_IDS 4
#define UNITS_MAX 3
#define REFS_MAX 2
typedef struct { int id; } nstring;
typedef struct { nstring *data; size_t n; } vec_nstr;
typedef struct { size_t du_n; nstring du[UNITS_MAX]; } DataArray;
typedef struct { DataArray *data; size_t n; } vec_DataArray;
typedef struct { vec_nstr units; } tagUnitsMatchRefsUnits;
extern bool gh_scal[NSTR_IDS][NSTR_IDS];          /* ghost: the isScalable relation */
static inline nstring nstring_default(void)
{ nstring s; s.id = 0; return s; }
static inline bool nstring_empty(const nstring *a)
{ return a->id == 0; }
static inline bool nstring_ne_cstr(const nstring *a, const char *lit)
{ __CPROVER_assert(lit[0] == 'n' && lit[1] == 'o' && lit[2] == 'n' && lit[3] == 'e' && lit[4] == 0, "only the literal \"none\" is modelled"); return a->id != 1; }
static inline bool nstring_eq_cstr(const nstring *a, const char *lit)
{ return !nstring_ne_cstr(a, lit); }
static inline bool isScalable(const nstring *a, const nstring *b)
{ __CPROVER_assert(a->id >= 0 && a->id < NSTR_IDS && b->id >= 0 && b->id < NSTR_IDS, "string ids in range"); return gh_scal[a->id][b->id]; }
static inline vec_nstr getDimensionsUnits_list(const DataArray *darray)
{ vec_nstr v; v.data = (nstring *)darray->du; v.n = darray->du_n; return v; }
#define NSTR_OK(s) ((s).id >= 0 && (s).id < NSTR_IDS)
#define TU(j) (self->units.data[j])
#define DU(k, j) (references->data[k].du[j])
/* pair (reference k, position j) is a breach: both units given and not convertible */
#define UB(k, j) ((k) < references->n && (j) < self->units.n && (j) < references->data[k].du_n && DU(k, j).id != 1 && TU(j).id != 0 && TU(j).id != 1 && !gh_scal[TU(j).id][DU(k, j).id])
#define ANY_UNIT_BREACH (UB(0, 0) || UB(0, 1) || UB(0, 2) || UB(1, 0) || UB(1, 1) || UB(1, 2))
#define REF_OK(k) (references->data[k].du_n <= UNITS_MAX && NSTR_OK(DU(k, 0)) && NSTR_OK(DU(k, 1)) && NSTR_OK(DU(k, 2)))
bool tagUnitsMatchRefsUnits_call(const tagUnitsMatchRefsUnits *self, const vec_DataArray *references)
__CPROVER_requires(__CPROVER_is_fresh(self, sizeof(tagUnitsMatchRefsUnits)) && self->units.n <= UNITS_MAX && __CPROVER_is_fresh(self->units.data, UNITS_MAX * sizeof(nstring)))
__CPROVER_requires(__CPROVER_is_fresh(references, sizeof(vec_DataArray)) && references->n <= REFS_MAX && __CPROVER_is_fresh(references->data, REFS_MAX * sizeof(DataArray)))
__CPROVER_requires(REF_OK(0) && REF_OK(1) && NSTR_OK(TU(0)) && NSTR_OK(TU(1)) && NSTR_OK(TU(2)) && nix_exc == EXC_NONE)
__CPROVER_ensures(/*inconvertible-unit-is-flagged*/ ANY_UNIT_BREACH ==> !RV)
__CPROVER_ensures(/*convertible-units-are-accepted*/ !ANY_UNIT_BREACH ==> RV)
__CPROVER_ensures(/*never-throws*/ nix_exc == EXC_NONE)
NIX_CANARY(tagUnitsMatchRefsUnits_call) __CPROVER_assigns(nix_exc)
;
#undef RV
#endif
