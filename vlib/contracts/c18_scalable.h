/* C18: util::isScalable(unitA, unitB) (src/util/util.cpp).
   "scalability is symmetric, and units of different base unit or power - or non-SI units - are rejected": two units are scalable exactly when both are
   SI units and their base unit and their power agree - the prefix plays no role - which is symmetric in A and B by construction.
   isSIUnit and splitUnit (boost::regex grammar) are ghosts: for each of the two unit strings, whether it is SI and the (prefix, base unit, power) it splits into. */
#ifndef C18_SCALABLE_H
#define C18_SCALABLE_H
#define RV __CPROVER_return_value
typedef struct { int id; } nstring;
#define UID_A 1
#define UID_B 2
extern int gh_si[3], gh_pre[3], gh_base[3], gh_pow[3]; extern int gh_splits;
static inline nstring nstring_default(void)
{ nstring s; s.id = 0; return s; }
static inline bool isSIUnit(const nstring *u)
{ __CPROVER_assert(u->id == UID_A || u->id == UID_B, "one of the two units"); return gh_si[u->id] != 0; }
static inline void splitUnit(const nstring *u, nstring *prefix, nstring *unit, nstring *power)
{ __CPROVER_assert((u->id == UID_A || u->id == UID_B) && gh_si[u->id], "only an SI unit is split"); gh_splits++; prefix->id = gh_pre[u->id]; unit->id = gh_base[u->id]; power->id = gh_pow[u->id]; }
static inline bool nstring_eq(const nstring *a, const nstring *b)
{ return a->id == b->id; }
bool isScalable_pair(const nstring *unitA, const nstring *unitB)
__CPROVER_requires(__CPROVER_is_fresh(unitA, sizeof(nstring)) && __CPROVER_is_fresh(unitB, sizeof(nstring)) && unitA->id == UID_A && unitB->id == UID_B && (gh_si[1] == 0 || gh_si[1] == 1) && (gh_si[2] == 0 || gh_si[2] == 1) && gh_splits == 0 && nix_exc == EXC_NONE)
__CPROVER_ensures(/*scalable-iff-both-SI-with-the-same-base-unit-and-the-same-power*/ RV == (gh_si[1] && gh_si[2] && gh_base[1] == gh_base[2] && gh_pow[1] == gh_pow[2]))
__CPROVER_ensures(/*never-throws*/ nix_exc == EXC_NONE)
NIX_CANARY(isScalable_pair) __CPROVER_assigns(nix_exc, gh_splits)
;
#undef RV
#endif
