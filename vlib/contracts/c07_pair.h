/* C07: start/end pair -> index pair.  "a start/end pair converts to (GreaterOrEqual(start), LessOrEqual(end))
   in inclusive and (GreaterOrEqual(start), Less(end)) in exclusive mode and is valid exactly when start <= end
   and the resulting pair is ordered."  Proved against the CONTRACTS of the leaf functions (c07_leaf.h). */
#ifndef C07_PAIR_H
#define C07_PAIR_H
typedef struct { int _unused; } DataFrameDimension;
typedef struct { vec_string be_labels; } SetDimension;          /* back end state read by labels() */
typedef struct { vec_double be_ticks; } RangeDimension;         /* back end state read by ticks() */
typedef struct { int _unused; } SampledDimension;
#define RV __CPROVER_return_value
#define RM_VALID(m) ((m) == RangeMatch_Inclusive || (m) == RangeMatch_Exclusive)

/* ---- integer axes ---- */
#define IAX_END_OK(i, e, m) ((m) == RangeMatch_Inclusive ? IAX_LE(i, e) : IAX_LT(i, e))
#define PAIR_IAX_CONTRACT(fn, s, e, n, m) \
__CPROVER_requires(RM_VALID(m) && nix_exc == EXC_NONE && IAX_DOM(s) && IAX_DOM(e)) \
__CPROVER_ensures(/*pair-sound*/ RV.has ==> ((s) <= (e) && RV.val.first <= RV.val.second && IAX_IN(RV.val.second, n) && \
                  IAX_GE(RV.val.first, s) && IAX_END_OK(RV.val.second, e, m))) \
__CPROVER_ensures(/*pair-first-is-smallest*/ (RV.has && IAX_IN((ndsize_t)ghost_k, n) && IAX_GE((ndsize_t)ghost_k, s)) ==> RV.val.first <= ghost_k) \
__CPROVER_ensures(/*pair-second-is-largest*/ (RV.has && IAX_IN((ndsize_t)ghost_k, n) && IAX_END_OK((ndsize_t)ghost_k, e, m)) ==> ghost_k <= RV.val.second) \
__CPROVER_ensures(/*pair-valid-when-region-nonempty*/ ((s) <= (e) && IAX_IN((ndsize_t)ghost_k, n) && IAX_GE((ndsize_t)ghost_k, s) && IAX_END_OK((ndsize_t)ghost_k, e, m)) ==> RV.has) \
__CPROVER_ensures(/*no-exception*/ nix_exc == EXC_NONE) \
NIX_SEL(fn, __CPROVER_ensures(/*COVER-pair-has*/ !(RV.has && RV.val.first < RV.val.second)) __CPROVER_ensures(/*COVER-pair-none*/ !(!RV.has && (s) <= (e))), ) \
NIX_CANARY(fn)

opt_pair DataFrameDimension_indexOf_pair(const DataFrameDimension *self, double start, double end, ndsize_t tick_count, const RangeMatch match)
__CPROVER_requires(NIX_SEL(DataFrameDimension_indexOf_pair, __CPROVER_is_fresh(self, sizeof(*self)), __CPROVER_r_ok(self, sizeof(*self))))
PAIR_IAX_CONTRACT(DataFrameDimension_indexOf_pair, start, end, tick_count, match)
__CPROVER_assigns()
;

/* set dimension: labels are fetched from the back end when the caller passes none */
vec_string SetDimension_labels(const SetDimension *self)
__CPROVER_requires(__CPROVER_r_ok(self, sizeof(*self)))
__CPROVER_ensures(RV.n == self->be_labels.n)
__CPROVER_assigns()
;
#define SET_N (__CPROVER_old(set_labels->n) == 0 ? (ndsize_t)self->be_labels.n : (ndsize_t)__CPROVER_old(set_labels->n))
opt_pair SetDimension_indexOf_pair(const SetDimension *self, double start, double end, vec_string *set_labels, const RangeMatch match)
__CPROVER_requires(NIX_SEL(SetDimension_indexOf_pair, __CPROVER_is_fresh(self, sizeof(*self)) && __CPROVER_is_fresh(set_labels, sizeof(*set_labels)),
                                                    __CPROVER_r_ok(self, sizeof(*self)) && __CPROVER_w_ok(set_labels, sizeof(*set_labels))))
PAIR_IAX_CONTRACT(SetDimension_indexOf_pair, start, end, SET_N, match)
__CPROVER_ensures(/*labels-filled-in*/ set_labels->n == SET_N)
__CPROVER_assigns(*set_labels)
;

/* ---- range axis ---- */
/* definitional stub (a contract returning a pointer by equality would make every later read through it unconstrained) */
static inline vec_double RangeDimension_ticks(const RangeDimension *self)
{ return self->be_ticks; }
#define RT_N (ticks.n == 0 ? self->be_ticks.n : ticks.n)
#define RT_D (ticks.n == 0 ? self->be_ticks.data : ticks.data)
#define RT_END_OK(i, e, m) ((m) == RangeMatch_Inclusive ? RT_D[i] <= (e) : RT_D[i] < (e))
#define VD_FRESH(v) ((v).n <= VEC_MAX && __CPROVER_is_fresh((v).data, ((v).n ? (v).n : 1) * sizeof(double)))
#define VD_VALID(v) ((v).n <= VEC_MAX && __CPROVER_r_ok((v).data, ((v).n ? (v).n : 1) * sizeof(double)))
#define RT_F(s, e) (ghost_ticks_ascending && !isnan(s) && !isnan(e))
opt_pair RangeDimension_indexOf_pair(const RangeDimension *self, double start, double end, vec_double ticks, RangeMatch match)
__CPROVER_requires(NIX_SEL(RangeDimension_indexOf_pair, __CPROVER_is_fresh(self, sizeof(*self)) && VD_FRESH(self->be_ticks) && VD_FRESH(ticks),
                                                      __CPROVER_r_ok(self, sizeof(*self)) && VD_VALID(self->be_ticks) && VD_VALID(ticks)))
__CPROVER_requires(RM_VALID(match) && nix_exc == EXC_NONE)
/* instances of "strictly ascending" for the vector that is searched */
__CPROVER_requires((ghost_ticks_ascending && ghost_k < RT_N) ==> (RT_D[0] <= RT_D[ghost_k] && RT_D[ghost_k] <= RT_D[RT_N - 1]))
__CPROVER_requires((ghost_ticks_ascending && RT_N > 0) ==> (RT_D[0] == RT_D[0] && RT_D[RT_N - 1] == RT_D[RT_N - 1]))
__CPROVER_ensures(/*in-range*/ RV.has ==> (RV.val.first <= RV.val.second && RV.val.second < RT_N))
__CPROVER_ensures(/*pair-sound*/ (RT_F(start, end) && RV.has) ==> (start <= end && RT_D[RV.val.first] >= start && RT_END_OK(RV.val.second, end, match)))
__CPROVER_ensures(/*pair-first-is-smallest*/ (RT_F(start, end) && RV.has && ghost_k < RT_N && RT_D[ghost_k] >= start) ==> RV.val.first <= ghost_k)
__CPROVER_ensures(/*pair-second-is-largest*/ (RT_F(start, end) && RV.has && ghost_k < RT_N && RT_END_OK(ghost_k, end, match)) ==> ghost_k <= RV.val.second)
__CPROVER_ensures(/*pair-valid-when-region-nonempty*/ (RT_F(start, end) && start <= end && ghost_k < RT_N && RT_D[ghost_k] >= start && RT_END_OK(ghost_k, end, match)) ==> RV.has)
__CPROVER_ensures(/*no-exception*/ nix_exc == EXC_NONE)
NIX_SEL(RangeDimension_indexOf_pair, __CPROVER_ensures(/*COVER-pair-has*/ !(RT_F(start, end) && RV.has && RV.val.first < RV.val.second)) __CPROVER_ensures(/*COVER-pair-none*/ !(RT_F(start, end) && !RV.has && start <= end && RT_N > 1)) __CPROVER_ensures(/*COVER-backend-ticks*/ !(RT_F(start, end) && RV.has && ticks.n == 0)), )
NIX_CANARY(RangeDimension_indexOf_pair) __CPROVER_assigns()
;

/* ---- sampled axis (grid constants S_INT / S_OFF as in c07_leaf.h), local form ---- */
#define SP_END_OK(i, e, m) ((m) == RangeMatch_Inclusive ? SAX(i) <= (e) : SAX(i) < (e))
#define SP_END_NEXT(i, e, m) ((m) == RangeMatch_Inclusive ? (e) < SAX((i) + 1) : (e) <= SAX((i) + 1))
opt_pair SampledDimension_indexOf_pair(const SampledDimension *self, double start, double end, const double sampling_interval, const double offset, const RangeMatch match)
__CPROVER_requires(NIX_SEL(SampledDimension_indexOf_pair, __CPROVER_is_fresh(self, sizeof(*self)), __CPROVER_r_ok(self, sizeof(*self))))
__CPROVER_requires(RM_VALID(match) && nix_exc == EXC_NONE && sampling_interval == (S_INT) && offset == (S_OFF) && SAX_DOM(start) && SAX_DOM(end))
__CPROVER_ensures(/*pair-sound*/ RV.has ==> (start <= end && RV.val.first <= RV.val.second && SAX(RV.val.first) >= start && SP_END_OK(RV.val.second, end, match)))
__CPROVER_ensures(/*pair-first-is-smallest*/ (RV.has && RV.val.first > 0) ==> SAX(RV.val.first - 1) < start)
__CPROVER_ensures(/*pair-second-is-largest*/ RV.has ==> SP_END_NEXT(RV.val.second, end, match))
__CPROVER_ensures(/*pair-valid-when-region-nonempty*/ (start <= end && ghost_k <= 10012 && SAX(ghost_k) >= start && SP_END_OK(ghost_k, end, match)) ==> RV.has)
__CPROVER_ensures(/*no-exception*/ nix_exc == EXC_NONE)
NIX_SEL(SampledDimension_indexOf_pair, __CPROVER_ensures(/*COVER-pair-has*/ !(RV.has && RV.val.first < RV.val.second)) __CPROVER_ensures(/*COVER-pair-none*/ !(!RV.has && start <= end)) __CPROVER_ensures(/*COVER-exclusive-at-first-sample*/ !(match == RangeMatch_Exclusive && end == (S_OFF) && start <= end)), )
NIX_CANARY(SampledDimension_indexOf_pair) __CPROVER_assigns()
;
#undef RV
#endif
