/* C08 / C03 kernel: the front-end gates of the create operations (src/File.cpp, src/Block.cpp, src/Source.cpp, src/Section.cpp,
   src/util/util.cpp).  C08: "An API call that is rejected with an exception - duplicate or invalid name, empty type ... -
   leaves the file's observable state exactly as it was: nothing is created".  C03: "Within one parent and entity kind no two
   entities ever share a name".  Both become, per create function: the back end's create primitive is reached only with a
   legal name, a non-empty type and a name that does not exist yet in that parent (precondition of the primitive), exactly
   once, and on every rejected call not at all.
   Strings are abstract (id, empty?, contains '/'?); handles are opaque; the back end is a ghost record: which names exist
   (answer of the has-query) and how many create calls it received with which name. */
#ifndef C08_GATE_H
#define C08_GATE_H
#define RV __CPROVER_return_value
#define NAME_IDS 4
typedef struct { int id; int empty; int has_slash; } nstring;     /* flags are ints (0/1): a havocked _Bool can hold other bytes */
typedef struct { int _h; } File;
typedef struct { int _h; int is_none; int valid; nstring id; nstring name; } Block;   /* handle: none-ness, validity, id and name strings */
typedef struct { int _h; int is_none; int valid; nstring id; nstring name; } Source;   /* handle: none-ness, validity, id and name strings */
typedef struct { int _h; int is_none; int valid; nstring id; nstring name; } Section;   /* handle: none-ness, validity, id and name strings */
typedef struct { int _h; } Tag;
typedef struct { int _h; } MultiTag;
typedef struct { int _h; } Group;
typedef struct { int _h; int is_none; int valid; nstring id; nstring name; } Property;   /* handle: none-ness, validity, id and name strings */
typedef struct { int _h; } Variant;
typedef struct { size_t n; } vec_Variant;
typedef struct { int is_none; int valid; } DataArray;
extern bool gh_exists[NAME_IDS];                 /* ghost: does a child of that kind with this name exist in the parent */
extern int gh_creates; extern int gh_created_id; extern int gh_has_queries, gh_deletes, gh_key_id;   /* has / delete calls received, key of the last one */
 /* ghost: create calls received by the back end, and the name of the last one */
#define NSTR_WF(s) ((s)->id >= 0 && (s)->id < NAME_IDS && ((s)->empty == 0 || (s)->empty == 1) && ((s)->has_slash == 0 || (s)->has_slash == 1))
#define DA_WF(a) (((a)->is_none == 0 || (a)->is_none == 1) && ((a)->valid == 0 || (a)->valid == 1))
#define NAME_LEGAL(s) (!(s)->empty && !(s)->has_slash)
static inline bool nstring_empty(const nstring *s)
{ return s->empty != 0; }
static inline bool nameCheck(const nstring *name)
{ return !name->has_slash; }                      /* util::nameCheck: name.find("/") == npos */
static inline bool DataArray_bool(const DataArray *a)
{ return a->is_none == 0; }
static inline bool DataArray_isValidEntity(const DataArray *a)
{ return a->valid != 0; }
/* ---- validation helpers of src/util/util.cpp (units, each against its own contract) ---- */
NIX_THROWS void checkEntityType(const nstring *str)
__CPROVER_requires(NIX_SEL(checkEntityType, __CPROVER_is_fresh(str, sizeof(nstring)), __CPROVER_r_ok(str, sizeof(nstring))) && NSTR_WF(str) && nix_exc == EXC_NONE)
__CPROVER_ensures(/*empty-type-rejected*/ str->empty <==> nix_exc == EXC_EmptyString)
__CPROVER_ensures(/*no-other-exception*/ nix_exc == EXC_NONE || nix_exc == EXC_EmptyString)
NIX_CANARY(checkEntityType) __CPROVER_assigns(nix_exc)
;
NIX_THROWS void checkEntityName(const nstring *name)
__CPROVER_requires(NIX_SEL(checkEntityName, __CPROVER_is_fresh(name, sizeof(nstring)), __CPROVER_r_ok(name, sizeof(nstring))) && NSTR_WF(name) && nix_exc == EXC_NONE)
__CPROVER_ensures(/*empty-name-rejected*/ name->empty <==> nix_exc == EXC_EmptyString)
__CPROVER_ensures(/*name-with-slash-rejected*/ (!name->empty && name->has_slash) <==> nix_exc == EXC_InvalidName)
__CPROVER_ensures(/*legal-name-accepted*/ NAME_LEGAL(name) <==> nix_exc == EXC_NONE)
NIX_CANARY(checkEntityName) __CPROVER_assigns(nix_exc)
;
NIX_THROWS void checkEntityNameAndType(const nstring *name, const nstring *type)
__CPROVER_requires(NIX_SEL(checkEntityNameAndType, __CPROVER_is_fresh(name, sizeof(nstring)) && __CPROVER_is_fresh(type, sizeof(nstring)), __CPROVER_r_ok(name, sizeof(nstring)) && __CPROVER_r_ok(type, sizeof(nstring))) && NSTR_WF(name) && NSTR_WF(type) && nix_exc == EXC_NONE)
__CPROVER_ensures(/*accepted-iff-legal-name-and-non-empty-type*/ (NAME_LEGAL(name) && !type->empty) <==> nix_exc == EXC_NONE)
__CPROVER_ensures(/*rejection-is-EmptyString-or-InvalidName*/ nix_exc == EXC_NONE || nix_exc == EXC_EmptyString || nix_exc == EXC_InvalidName)
NIX_CANARY(checkEntityNameAndType) __CPROVER_assigns(nix_exc)
;
NIX_THROWS void checkNameOrId(const nstring *name_or_id)
__CPROVER_requires(__CPROVER_is_fresh(name_or_id, sizeof(nstring)) && NSTR_WF(name_or_id) && nix_exc == EXC_NONE)
__CPROVER_ensures(/*empty-key-rejected*/ name_or_id->empty <==> nix_exc == EXC_EmptyString)
__CPROVER_ensures(/*no-other-exception*/ nix_exc == EXC_NONE || nix_exc == EXC_EmptyString)
NIX_CANARY(checkNameOrId) __CPROVER_assigns(nix_exc)
;
/* template <typename T> bool checkEntityInput(const T &entity, bool raise_exception = true), T = DataArray */
NIX_THROWS bool checkEntityInput(const DataArray *entity, bool raise_exception)
__CPROVER_requires(NIX_SEL(checkEntityInput, __CPROVER_is_fresh(entity, sizeof(DataArray)), __CPROVER_r_ok(entity, sizeof(DataArray))) && DA_WF(entity) && nix_exc == EXC_NONE)
__CPROVER_ensures(/*usable-handle-accepted*/ (!entity->is_none && entity->valid) ==> (RV && nix_exc == EXC_NONE))
__CPROVER_ensures(/*unusable-handle-rejected*/ (entity->is_none || !entity->valid) ==> (raise_exception ? nix_exc == EXC_UninitializedEntity : (!RV && nix_exc == EXC_NONE)))
NIX_CANARY(checkEntityInput) __CPROVER_assigns(nix_exc)
;
NIX_THROWS static inline bool checkEntityInput_1(const DataArray *entity)
{ return checkEntityInput(entity, true); }          /* the default argument raise_exception = true */
/* ---- the back end: has-queries answer from the ghost table; create primitives carry the invariant as precondition ---- */
#define CREATE_PRE(name, type) __CPROVER_requires(/*only-a-legal-fresh-name-reaches-the-back-end*/ NSTR_WF(name) && NAME_LEGAL(name) && !gh_exists[(name)->id] && nix_exc == EXC_NONE) \
  __CPROVER_requires(/*only-a-non-empty-type-reaches-the-back-end*/ !(type)->empty)
#define CREATE_POST(name) __CPROVER_ensures(gh_creates == __CPROVER_old(gh_creates) + 1 && gh_created_id == (name)->id) __CPROVER_assigns(gh_creates, gh_created_id)
static inline bool File_backend_hasBlock(const File *self, nstring name_or_id)
{ __CPROVER_assert(NSTR_WF(&name_or_id), "string id in range"); gh_has_queries++; gh_key_id = name_or_id.id; return gh_exists[name_or_id.id]; }
static inline bool File_backend_hasSection(const File *self, nstring name_or_id)
{ __CPROVER_assert(NSTR_WF(&name_or_id), "string id in range"); gh_has_queries++; gh_key_id = name_or_id.id; return gh_exists[name_or_id.id]; }
static inline bool Block_hasSource(const Block *self, nstring name_or_id)
{ __CPROVER_assert(NSTR_WF(&name_or_id), "string id in range"); gh_has_queries++; gh_key_id = name_or_id.id; return gh_exists[name_or_id.id]; }
static inline bool Block_hasDataArray(const Block *self, nstring name_or_id)
{ __CPROVER_assert(NSTR_WF(&name_or_id), "string id in range"); gh_has_queries++; gh_key_id = name_or_id.id; return gh_exists[name_or_id.id]; }
static inline bool Block_hasTag(const Block *self, nstring name_or_id)
{ __CPROVER_assert(NSTR_WF(&name_or_id), "string id in range"); gh_has_queries++; gh_key_id = name_or_id.id; return gh_exists[name_or_id.id]; }
static inline bool Block_hasMultiTag(const Block *self, nstring name_or_id)
{ __CPROVER_assert(NSTR_WF(&name_or_id), "string id in range"); gh_has_queries++; gh_key_id = name_or_id.id; return gh_exists[name_or_id.id]; }
static inline bool Block_hasGroup(const Block *self, nstring name_or_id)
{ __CPROVER_assert(NSTR_WF(&name_or_id), "string id in range"); gh_has_queries++; gh_key_id = name_or_id.id; return gh_exists[name_or_id.id]; }
static inline bool Source_backend_hasSource(const Source *self, nstring name_or_id)
{ __CPROVER_assert(NSTR_WF(&name_or_id), "string id in range"); gh_has_queries++; gh_key_id = name_or_id.id; return gh_exists[name_or_id.id]; }
static inline bool Section_backend_hasSection(const Section *self, nstring name_or_id)
{ __CPROVER_assert(NSTR_WF(&name_or_id), "string id in range"); gh_has_queries++; gh_key_id = name_or_id.id; return gh_exists[name_or_id.id]; }
static inline bool Section_backend_hasProperty(const Section *self, nstring name_or_id)
{ __CPROVER_assert(NSTR_WF(&name_or_id), "string id in range"); gh_has_queries++; gh_key_id = name_or_id.id; return gh_exists[name_or_id.id]; }
Block File_backend_createBlock(const File *self, const nstring *name, const nstring *type)
CREATE_PRE(name, type)
CREATE_POST(name)
;
Section File_backend_createSection(const File *self, const nstring *name, const nstring *type)
CREATE_PRE(name, type)
CREATE_POST(name)
;
Source Block_backend_createSource(const Block *self, const nstring *name, const nstring *type)
CREATE_PRE(name, type)
CREATE_POST(name)
;
DataArray Block_backend_createDataArray(const Block *self, const nstring *name, const nstring *type, DataType data_type, const NDSize *shape, const Compression *compression)
CREATE_PRE(name, type)
CREATE_POST(name)
;
Tag Block_backend_createTag(const Block *self, const nstring *name, const nstring *type, const vec_double *position)
CREATE_PRE(name, type)
CREATE_POST(name)
;
MultiTag Block_backend_createMultiTag(const Block *self, const nstring *name, const nstring *type, const DataArray *positions)
CREATE_PRE(name, type)
__CPROVER_requires(/*only-a-usable-positions-array-reaches-the-back-end*/ !positions->is_none && positions->valid)
CREATE_POST(name)
;
Group Block_backend_createGroup(const Block *self, const nstring *name, const nstring *type)
CREATE_PRE(name, type)
CREATE_POST(name)
;
Source Source_backend_createSource(const Source *self, const nstring *name, const nstring *type)
CREATE_PRE(name, type)
CREATE_POST(name)
;
Section Section_backend_createSection(const Section *self, const nstring *name, const nstring *type)
CREATE_PRE(name, type)
CREATE_POST(name)
;
#define NOTYPE_PRE(name) __CPROVER_requires(/*only-a-legal-fresh-name-reaches-the-back-end*/ NSTR_WF(name) && NAME_LEGAL(name) && !gh_exists[(name)->id] && nix_exc == EXC_NONE)
Property Section_backend_createProperty_dtype(const Section *self, const nstring *name, const DataType *dtype)
NOTYPE_PRE(name)
CREATE_POST(name)
;
Property Section_backend_createProperty_values(const Section *self, const nstring *name, const vec_Variant *values)
NOTYPE_PRE(name)
__CPROVER_requires(/*only-a-non-empty-value-list-reaches-the-back-end*/ values->n >= 1)
CREATE_POST(name)
;
Property Section_backend_createProperty_value(const Section *self, const nstring *name, const Variant *value)
NOTYPE_PRE(name)
CREATE_POST(name)
;
/* ---- the create functions ---- */
#define GATE_PRE(f, Cls) __CPROVER_requires(__CPROVER_is_fresh(self, sizeof(Cls)) && __CPROVER_is_fresh(name, sizeof(nstring)) && NSTR_WF(name) && nix_exc == EXC_NONE && gh_creates >= 0 && gh_creates < 1000 && gh_has_queries >= 0 && gh_has_queries < 1000)
#define GATE_POST(OK) \
  __CPROVER_ensures(/*illegal-name-or-empty-type-rejected*/ !(OK) ==> (nix_exc != EXC_NONE && nix_exc != EXC_DuplicateName)) \
  __CPROVER_ensures(/*duplicate-name-rejected*/ ((OK) && gh_exists[name->id]) ==> nix_exc == EXC_DuplicateName) \
  __CPROVER_ensures(/*rejected-call-leaves-the-back-end-untouched*/ nix_exc != EXC_NONE ==> gh_creates == __CPROVER_old(gh_creates)) \
  __CPROVER_ensures(/*accepted-call-creates-exactly-that-name-once*/ ((OK) && !gh_exists[name->id]) ==> (nix_exc == EXC_NONE && gh_creates == __CPROVER_old(gh_creates) + 1 && gh_created_id == name->id))
#define NT_OK (NAME_LEGAL(name) && !type->empty)
#define TYPE_FRESH __CPROVER_requires(__CPROVER_is_fresh(type, sizeof(nstring)) && NSTR_WF(type))
NIX_THROWS Block File_createBlock(File *self, const nstring *name, const nstring *type)
GATE_PRE(File_createBlock, File)
TYPE_FRESH
GATE_POST(NT_OK)
NIX_CANARY(File_createBlock) __CPROVER_assigns(nix_exc, gh_creates, gh_created_id, gh_has_queries, gh_key_id)
;
NIX_THROWS Section File_createSection(File *self, const nstring *name, const nstring *type)
GATE_PRE(File_createSection, File)
TYPE_FRESH
GATE_POST(NT_OK)
NIX_CANARY(File_createSection) __CPROVER_assigns(nix_exc, gh_creates, gh_created_id, gh_has_queries, gh_key_id)
;
NIX_THROWS Source Block_createSource(Block *self, const nstring *name, const nstring *type)
GATE_PRE(Block_createSource, Block)
TYPE_FRESH
GATE_POST(NT_OK)
NIX_CANARY(Block_createSource) __CPROVER_assigns(nix_exc, gh_creates, gh_created_id, gh_has_queries, gh_key_id)
;
NIX_THROWS DataArray Block_createDataArray(Block *self, const nstring *name, const nstring *type, DataType data_type, const NDSize *shape, const Compression *compression)
GATE_PRE(Block_createDataArray, Block)
TYPE_FRESH __CPROVER_requires(__CPROVER_is_fresh(shape, sizeof(NDSize)) && __CPROVER_is_fresh(compression, sizeof(Compression)))
GATE_POST(NT_OK)
NIX_CANARY(Block_createDataArray) __CPROVER_assigns(nix_exc, gh_creates, gh_created_id, gh_has_queries, gh_key_id)
;
NIX_THROWS Tag Block_createTag(Block *self, const nstring *name, const nstring *type, const vec_double *position)
GATE_PRE(Block_createTag, Block)
TYPE_FRESH __CPROVER_requires(__CPROVER_is_fresh(position, sizeof(vec_double)))
GATE_POST(NT_OK)
NIX_CANARY(Block_createTag) __CPROVER_assigns(nix_exc, gh_creates, gh_created_id, gh_has_queries, gh_key_id)
;
NIX_THROWS MultiTag Block_createMultiTag(Block *self, const nstring *name, const nstring *type, const DataArray *positions)
GATE_PRE(Block_createMultiTag, Block)
TYPE_FRESH __CPROVER_requires(__CPROVER_is_fresh(positions, sizeof(DataArray)) && DA_WF(positions))
GATE_POST((NT_OK && !positions->is_none && positions->valid))
NIX_CANARY(Block_createMultiTag) __CPROVER_assigns(nix_exc, gh_creates, gh_created_id, gh_has_queries, gh_key_id)
;
NIX_THROWS Group Block_createGroup(Block *self, const nstring *name, const nstring *type)
GATE_PRE(Block_createGroup, Block)
TYPE_FRESH
GATE_POST(NT_OK)
NIX_CANARY(Block_createGroup) __CPROVER_assigns(nix_exc, gh_creates, gh_created_id, gh_has_queries, gh_key_id)
;
NIX_THROWS Source Source_createSource(Source *self, const nstring *name, const nstring *type)
GATE_PRE(Source_createSource, Source)
TYPE_FRESH
GATE_POST(NT_OK)
NIX_CANARY(Source_createSource) __CPROVER_assigns(nix_exc, gh_creates, gh_created_id, gh_has_queries, gh_key_id)
;
NIX_THROWS Section Section_createSection(Section *self, const nstring *name, const nstring *type)
GATE_PRE(Section_createSection, Section)
TYPE_FRESH
GATE_POST(NT_OK)
NIX_CANARY(Section_createSection) __CPROVER_assigns(nix_exc, gh_creates, gh_created_id, gh_has_queries, gh_key_id)
;
NIX_THROWS Property Section_createProperty_dtype(Section *self, const nstring *name, const DataType *dtype)
GATE_PRE(Section_createProperty_dtype, Section)
__CPROVER_requires(__CPROVER_is_fresh(dtype, sizeof(DataType)))
GATE_POST(NAME_LEGAL(name))
NIX_CANARY(Section_createProperty_dtype) __CPROVER_assigns(nix_exc, gh_creates, gh_created_id, gh_has_queries, gh_key_id)
;
NIX_THROWS Property Section_createProperty_values(Section *self, const nstring *name, const vec_Variant *values)
GATE_PRE(Section_createProperty_values, Section)
__CPROVER_requires(__CPROVER_is_fresh(values, sizeof(vec_Variant)))
GATE_POST((NAME_LEGAL(name) && values->n >= 1))
NIX_CANARY(Section_createProperty_values) __CPROVER_assigns(nix_exc, gh_creates, gh_created_id, gh_has_queries, gh_key_id)
;
NIX_THROWS Property Section_createProperty_value(Section *self, const nstring *name, const Variant *value)
GATE_PRE(Section_createProperty_value, Section)
__CPROVER_requires(__CPROVER_is_fresh(value, sizeof(Variant)))
GATE_POST(NAME_LEGAL(name))
NIX_CANARY(Section_createProperty_value) __CPROVER_assigns(nix_exc, gh_creates, gh_created_id, gh_has_queries, gh_key_id)
;

/* ---- Block::createDataFrame (include/nix/Block.hpp, header-defined) ----
   "duplicate or invalid name, empty type ... nothing is created, removed, renamed, re-identified": the same gate as the other create functions, plus the column
   rules (an unsupported column type, a column name used twice) - a rejected call of any of these kinds leaves the back end's create primitive unreached.
   std::set<std::string>::insert and Variant::supports_type are ghosts that answer arbitrarily and remember whether they reported a problem. */
#ifdef DF_BOUNDED
#define DF_NMAX DF_BOUNDED
#else
#define DF_NMAX VEC_MAX
#endif
typedef struct { int _h; } DataFrame;
typedef struct { nstring name; DataType dtype; } Column;
typedef struct { Column *data; size_t n; } vec_Column;
typedef struct { int _s; } set_nstr;
extern int gh_col_problem;
_Bool nondet_bool(void);
static inline bool Variant_supports_type(DataType t)
{ bool ok = nondet_bool(); if (!ok) gh_col_problem = 1; return ok; }
static inline bool set_nstr_insert(set_nstr *s, nstring v)
{ bool fresh = nondet_bool(); if (!fresh) gh_col_problem = 1; return fresh; }
static inline bool Block_hasDataFrame(const Block *self, nstring name_or_id)
{ __CPROVER_assert(NSTR_WF(&name_or_id), "string id in range"); gh_has_queries++; gh_key_id = name_or_id.id; return gh_exists[name_or_id.id]; }
DataFrame Block_backend_createDataFrame(const Block *self, const nstring *name, const nstring *type, const vec_Column *cols, const Compression *compression)
CREATE_PRE(name, type)
__CPROVER_requires(/*only-columns-of-supported-type-and-distinct-names-reach-the-back-end*/ gh_col_problem == 0)
CREATE_POST(name)
;
NIX_THROWS DataFrame Block_createDataFrame(Block *self, const nstring *name, const nstring *type, const vec_Column *cols, const Compression *compression)
GATE_PRE(Block_createDataFrame, Block)
TYPE_FRESH __CPROVER_requires(__CPROVER_is_fresh(compression, sizeof(Compression)) && __CPROVER_is_fresh(cols, sizeof(vec_Column)) && cols->n <= DF_NMAX && __CPROVER_is_fresh(cols->data, (cols->n ? cols->n : 1) * sizeof(Column)) && gh_col_problem == 0)
  __CPROVER_ensures(/*illegal-name-or-empty-type-rejected*/ !(NT_OK) ==> (nix_exc != EXC_NONE && nix_exc != EXC_DuplicateName))
  __CPROVER_ensures(/*duplicate-name-rejected*/ ((NT_OK) && gh_exists[name->id]) ==> nix_exc == EXC_DuplicateName)
  __CPROVER_ensures(/*rejected-call-leaves-the-back-end-untouched*/ nix_exc != EXC_NONE ==> gh_creates == __CPROVER_old(gh_creates))
  __CPROVER_ensures(/*a-column-problem-rejects-the-call*/ gh_col_problem ==> nix_exc != EXC_NONE)
  __CPROVER_ensures(/*accepted-call-creates-exactly-that-name-once*/ ((NT_OK) && !gh_exists[name->id] && !gh_col_problem) ==> (nix_exc == EXC_NONE && gh_creates == __CPROVER_old(gh_creates) + 1 && gh_created_id == name->id))
NIX_CANARY(Block_createDataFrame) __CPROVER_assigns(nix_exc, gh_creates, gh_created_id, gh_has_queries, gh_key_id, gh_col_problem)
;
#undef RV
#endif
