/* C06: MultiTag retrieval (src/util/dataAccess.cpp), two statement regions:
   (A) getOffsetAndCount(MultiTag): the per-position, per-dimension assembly of offset and count
       "exactly the elements inside the region whose start is row i of the positions array and whose size is row i of
        the extents array (single element at or after the position when there are no extents or the extent is zero)"
   (B) featureData(MultiTag, indices, feature), Indexed branch: "Indexed features return slice i along the first dimension".
   The index pair of the region (C07 pair contract) and GreaterOrEqual(position) are ghost inputs. */
#ifndef C06_MTAG_H
#define C06_MTAG_H
#define RV __CPROVER_return_value
/* nstring, Dimension, gh_ge, gh_pair_start and positionToIndex_scalar: see c05_tag.h */
/* region A */
#define M_OLD(p, k) __CPROVER_old((p)->dims[k])
NIX_THROWS void mtag_assemble_dim(opt_pair opt_range, NDSize *data_offset, NDSize *data_count, NDSize *temp_offset, size_t dim_index, size_t i, double start_pos, double end_pos, const nstring *unit, const Dimension *dimension)
__CPROVER_requires(ND_OK(data_offset) && ND_OK(data_count) && ND_OK(temp_offset) && data_offset->rank == data_count->rank && dim_index < data_offset->rank)
__CPROVER_requires(__CPROVER_is_fresh(unit, sizeof(nstring)) && __CPROVER_is_fresh(dimension, sizeof(Dimension)) && nix_exc == EXC_NONE && (gh_pair_start == end_pos || (isnan(end_pos) && isnan(gh_pair_start))))
__CPROVER_ensures(/*region-with-elements:offset-is-first-index*/ opt_range.has ==> (nix_exc == EXC_NONE && data_offset->dims[dim_index] == opt_range.val.first))
__CPROVER_ensures(/*region-with-elements:count-spans-to-last-index*/ opt_range.has ==> data_count->dims[dim_index] == M_OLD(data_count, dim_index) + (opt_range.val.second - opt_range.val.first))
__CPROVER_ensures(/*point:first-element-at-or-after-the-position*/ (!opt_range.has && end_pos == start_pos && gh_ge.has && nix_exc == EXC_NONE) ==>
                  (data_offset->dims[dim_index] == gh_ge.val && data_count->dims[dim_index] == M_OLD(data_count, dim_index)))
__CPROVER_ensures(/*point:no-element-at-or-after-throws*/ (!opt_range.has && end_pos == start_pos && !gh_ge.has) ==> nix_exc != EXC_NONE)
__CPROVER_ensures(/*empty-region-throws*/ (!opt_range.has && !(end_pos == start_pos)) ==> nix_exc == EXC_OutOfBounds)
__CPROVER_ensures(/*other-dimensions-untouched*/ (ghost_k < data_offset->rank && ghost_k != dim_index) ==>
                  (data_offset->dims[ghost_k] == M_OLD(data_offset, ghost_k) && data_count->dims[ghost_k] == M_OLD(data_count, ghost_k)))
NIX_CANARY(mtag_assemble_dim) __CPROVER_assigns(nix_exc; data_offset->dims[dim_index]; data_count->dims[dim_index])
;
/* region B */
typedef struct { int n; } vec_DataView;
extern int gh_pushed;
static inline void vec_DataView_push_back(vec_DataView *v, DataView io)
{ gh_pushed++; }
static inline NDSize DataArray_dataExtent_copy(const DataArray *d)
{ return NDSize_copy(&d->extent); }
static inline NDSize mk_NDSize_1(NDSize v)
{ return v; }                     /* NDSize count(<temporary>): move construction */
NIX_THROWS void mtag_indexed_slice(const DataArray *data, const vec_ndsize *position_indices, size_t idx, vec_DataView *views)
__CPROVER_requires(__CPROVER_is_fresh(data, sizeof(DataArray)) && NDV_FRESH(data->extent) && ND_CASE(&data->extent) && __CPROVER_is_fresh(views, sizeof(vec_DataView)))
__CPROVER_requires(__CPROVER_is_fresh(position_indices, sizeof(vec_ndsize)) && position_indices->n <= 64 && idx < position_indices->n && __CPROVER_is_fresh(position_indices->data, position_indices->n * sizeof(ndsize_t)))
__CPROVER_requires(nix_exc == EXC_NONE && gh_views == 0 && gh_pushed == 0)
__CPROVER_ensures(/*index-past-the-first-dimension-throws*/ (data->extent.rank > 0 && position_indices->data[idx] >= data->extent.dims[0]) ==> (nix_exc == EXC_OutOfBounds && gh_views == 0 && gh_pushed == 0))
__CPROVER_ensures(/*slice-i-along-the-first-dimension*/ (data->extent.rank > 0 && position_indices->data[idx] < data->extent.dims[0] && ND_FORALL(i21, data->extent.rank, data->extent.dims[i21] > 0)) ==>
                  (nix_exc == EXC_NONE && gh_views == 1 && gh_pushed == 1 && gh_view_count_rank == data->extent.rank && gh_view_offset_rank == data->extent.rank &&
                   (ghost_k < data->extent.rank ==> (gh_view_offset_k == (ghost_k == 0 ? position_indices->data[idx] : 0) && gh_view_count_k == (ghost_k == 0 ? 1 : data->extent.dims[ghost_k])))))
NIX_CANARY(mtag_indexed_slice) __CPROVER_assigns(nix_exc, gh_views, gh_view_count_rank, gh_view_offset_rank, gh_view_count_k, gh_view_offset_k, gh_view_extent_dims, gh_pushed)
;

/* region D: featureData(MultiTag, indices, feature) - the dispatch on the link type and the index gate
   "an index beyond the number of positions raises an out-of-bounds error ... tagged features are cut like references" */
typedef struct { DataArray positions; } MultiTag;
#define TMP_DataArray(v) ((DataArray[1]){(v)})
static inline DataArray MultiTag_positions(const MultiTag *t)
{ return t->positions; }
extern size_t gh_max_idx; extern int gh_mtagged_calls;
/* std::max_element on a range of ndsize_t: ASSUMED contract.  For an empty range it returns last (dereferencing it is undefined behaviour - checked at the use). */
size_t std_max_element_idx(const ndsize_t *first, size_t n)
__CPROVER_requires(n <= VEC_MAX && __CPROVER_r_ok(first, (n ? n : 1) * sizeof(ndsize_t)))
__CPROVER_ensures(n == 0 ? __CPROVER_return_value == 0 : __CPROVER_return_value < n)
__CPROVER_ensures((ghost_k < n) ==> first[ghost_k] <= first[__CPROVER_return_value])
__CPROVER_ensures(gh_max_idx == __CPROVER_return_value)
__CPROVER_assigns(gh_max_idx)
;
static inline ndsize_t *max_element(ndsize_t *first, ndsize_t *last)
{ return first + std_max_element_idx(first, (size_t)(last - first)); }
static inline vec_DataView taggedData_mtag_counted(const MultiTag *tag, vec_ndsize *position_indices, const DataArray *array, RangeMatch match)
{ gh_mtagged_calls++; vec_DataView v; v.n = 0; return v; }
#define POS_COUNT (tag->positions.extent.dims[0])
NIX_THROWS vec_DataView mtag_feature_gate(const MultiTag *tag, vec_ndsize *position_indices, const Feature *feature, const DataArray *data, RangeMatch match, vec_DataView views)
__CPROVER_requires(__CPROVER_is_fresh(tag, sizeof(MultiTag)) && NDV_FRESH(tag->positions.extent) && tag->positions.extent.rank >= 1 && __CPROVER_is_fresh(feature, sizeof(Feature)) && __CPROVER_is_fresh(data, sizeof(DataArray)))
__CPROVER_requires(__CPROVER_is_fresh(position_indices, sizeof(vec_ndsize)) && position_indices->n <= VEC_MAX && __CPROVER_is_fresh(position_indices->data, position_indices->n * sizeof(ndsize_t)))
__CPROVER_requires(/*an empty index list only arises when the tag has no positions (the caller fills an empty list with 0..count-1)*/ position_indices->n == 0 ==> POS_COUNT == 0)
__CPROVER_requires(nix_exc == EXC_NONE && gh_mtagged_calls == 0 && (feature->link == LinkType_Tagged || feature->link == LinkType_Untagged || feature->link == LinkType_Indexed))
__CPROVER_ensures(/*tagged-feature-is-cut-like-a-reference*/ feature->link == LinkType_Tagged ==> gh_mtagged_calls == 1)
__CPROVER_ensures(/*untagged-and-indexed-are-not-cut*/ feature->link != LinkType_Tagged ==> gh_mtagged_calls == 0)
__CPROVER_ensures(/*index-beyond-the-number-of-positions-throws*/ (feature->link != LinkType_Tagged && ghost_k < position_indices->n && position_indices->data[ghost_k] >= POS_COUNT) ==> nix_exc == EXC_OutOfBounds)
__CPROVER_ensures(/*valid-indices-are-accepted*/ (feature->link != LinkType_Tagged && position_indices->n > 0 && position_indices->data[gh_max_idx] < POS_COUNT) ==> nix_exc == EXC_NONE)
__CPROVER_ensures(/*no-other-exception*/ nix_exc == EXC_NONE || nix_exc == EXC_OutOfBounds)
NIX_CANARY(mtag_feature_gate) __CPROVER_assigns(nix_exc, gh_mtagged_calls, gh_max_idx)
;
/* region C: the untagged branch - "untagged features are returned whole" (one view per requested position: offset 0, count = extent) */
NIX_THROWS void mtag_untagged_whole(const DataArray *data, vec_DataView *views)
__CPROVER_requires(__CPROVER_is_fresh(data, sizeof(DataArray)) && NDV_FRESH(data->extent) && ND_CASE(&data->extent) && __CPROVER_is_fresh(views, sizeof(vec_DataView)))
__CPROVER_requires(nix_exc == EXC_NONE && gh_views == 0 && gh_pushed == 0)
__CPROVER_ensures(/*whole-array-returned*/ nix_exc == EXC_NONE && gh_views == 1 && gh_pushed == 1 && gh_view_count_rank == data->extent.rank && gh_view_offset_rank == data->extent.rank &&
                  (ghost_k < data->extent.rank ==> (gh_view_offset_k == 0 && gh_view_count_k == data->extent.dims[ghost_k])))
NIX_CANARY(mtag_untagged_whole) __CPROVER_assigns(nix_exc, gh_views, gh_view_count_rank, gh_view_offset_rank, gh_view_count_k, gh_view_offset_k, gh_view_extent_dims, gh_pushed)
;

/* region E: getOffsetAndCount(MultiTag, array, indices, ...) - the gate on the index list
   "an index beyond the number of positions raises an out-of-bounds error" (also beyond the number of extents rows when the tag has extents) */
static inline bool DataArray_bool(const DataArray *a)
{ return !a->is_none; }
#define NPOS (positions->extent.dims[0])
#define NEXT (extents->extent.dims[0])
NIX_THROWS void mtag_index_gate(const vec_ndsize *indices, const DataArray *positions, const DataArray *extents, NDSize *extent_size)
__CPROVER_requires(__CPROVER_is_fresh(indices, sizeof(vec_ndsize)) && indices->n <= VEC_MAX && __CPROVER_is_fresh(indices->data, indices->n * sizeof(ndsize_t)))
__CPROVER_requires(__CPROVER_is_fresh(positions, sizeof(DataArray)) && !positions->is_none && NDV_FRESH(positions->extent) && positions->extent.rank >= 1 &&
                   __CPROVER_is_fresh(extents, sizeof(DataArray)) && (extents->is_none || (NDV_FRESH(extents->extent) && extents->extent.rank >= 1)) && __CPROVER_is_fresh(extent_size, sizeof(NDSize)) && nix_exc == EXC_NONE)
__CPROVER_ensures(/*index-beyond-the-number-of-positions-throws*/ (ghost_k < indices->n && indices->data[ghost_k] >= NPOS) ==> nix_exc == EXC_OutOfBounds)
__CPROVER_ensures(/*index-beyond-the-number-of-extents-throws*/ (!extents->is_none && ghost_k < indices->n && indices->data[ghost_k] >= NEXT) ==> nix_exc == EXC_OutOfBounds)
__CPROVER_ensures(/*valid-indices-are-accepted*/ (indices->n > 0 && indices->data[gh_max_idx] < NPOS && (extents->is_none || indices->data[gh_max_idx] < NEXT)) ==> nix_exc == EXC_NONE)
__CPROVER_ensures(/*an-empty-list-is-accepted*/ indices->n == 0 ==> nix_exc == EXC_NONE)
__CPROVER_ensures(/*no-other-exception*/ nix_exc == EXC_NONE || nix_exc == EXC_OutOfBounds)
NIX_CANARY(mtag_index_gate) __CPROVER_assigns(nix_exc, gh_max_idx; *extent_size)
;
#undef RV
#endif
