/* C06: the single-position feature retrievals featureData(MultiTag, position_index, feature_index, match) and
   featureData(MultiTag, position_index, feature, match) (src/util/dataAccess.cpp).
   "retrieval for a list of indices equals the list of the single retrievals": the single retrieval IS the list retrieval for the one-element list
   {position_index} - asked exactly once, for THE feature (by index: the feature with that number; a number >= featureCount raises OutOfBounds
   and asks nothing), in the REQUESTED range mode - and its first element is what is returned.
   The list retrieval itself (regions B, C, D of c06_mtag.h) is a ghost record of its arguments here. */
#ifndef C06_SINGLE_H
#define C06_SINGLE_H
#define RV __CPROVER_return_value
typedef struct { ndsize_t feature_count; } MultiTag;
typedef struct { ndsize_t number; } Feature;
#define TMP_Feature(v) ((Feature[1]){(v)})
typedef struct { int id; } DataView;
typedef struct { DataView *data; size_t n; } vec_DataView;
extern int gh_list_calls, gh_get_calls; extern size_t gh_list_n; extern ndsize_t gh_list_first, gh_list_feature; extern RangeMatch gh_list_match; extern DataView gh_answer[1];
static inline size_t fits_in_size_t(ndsize_t size, const char *msg_if_fail)
{ return (size_t)size; }           /* sizeof(ndsize_t) == sizeof(size_t) on this platform */
static inline ndsize_t MultiTag_featureCount(const MultiTag *t)
{ return t->feature_count; }
static inline Feature MultiTag_getFeature(const MultiTag *t, size_t index)
{ __CPROVER_assert(index < t->feature_count, "only an existing feature is fetched"); gh_get_calls++; Feature f; f.number = index; return f; }
static inline vec_ndsize mk_vec_ndsize_fill(size_t n, ndsize_t v)
{ __CPROVER_assert(n == 1, "a one-element index list"); vec_ndsize r; r.data = (ndsize_t *)malloc(sizeof(ndsize_t)); __CPROVER_assume(r.data != NULL); r.data[0] = v; r.n = 1; return r; }
static inline vec_DataView featureData_mtag_list(const MultiTag *tag, vec_ndsize position_indices, const Feature *feature, RangeMatch match)
{ gh_list_calls++; gh_list_n = position_indices.n; gh_list_first = position_indices.n ? position_indices.data[0] : 0; gh_list_feature = feature->number; gh_list_match = match;
  vec_DataView v; v.data = gh_answer; v.n = 1; return v; }
#define SGL_ASKED(fnum) (gh_list_calls == 1 && gh_list_n == 1 && gh_list_first == position_index && gh_list_feature == (fnum) && gh_list_match == match)
NIX_THROWS DataView featureData_mtag_pos_index(const MultiTag *tag, ndsize_t position_index, ndsize_t feature_index, RangeMatch match)
__CPROVER_requires(__CPROVER_is_fresh(tag, sizeof(MultiTag)) && gh_list_calls == 0 && gh_get_calls == 0 && nix_exc == EXC_NONE)
__CPROVER_ensures(/*feature-number-past-the-end-raises-and-retrieves-nothing*/ feature_index >= tag->feature_count <==> (nix_exc == EXC_OutOfBounds && gh_list_calls == 0))
__CPROVER_ensures(/*the-one-element-list-retrieval-of-that-feature-in-the-requested-mode*/ feature_index < tag->feature_count ==> (nix_exc == EXC_NONE && SGL_ASKED(feature_index) && RV.id == gh_answer[0].id))
NIX_CANARY(featureData_mtag_pos_index) __CPROVER_assigns(nix_exc, gh_list_calls, gh_list_n, gh_list_first, gh_list_feature, gh_list_match, gh_get_calls)
;
NIX_THROWS DataView featureData_mtag_pos_feature(const MultiTag *tag, ndsize_t position_index, const Feature *feature, RangeMatch match)
__CPROVER_requires(__CPROVER_is_fresh(tag, sizeof(MultiTag)) && __CPROVER_is_fresh(feature, sizeof(Feature)) && gh_list_calls == 0 && nix_exc == EXC_NONE)
__CPROVER_ensures(/*the-one-element-list-retrieval-of-that-feature-in-the-requested-mode*/ nix_exc == EXC_NONE && SGL_ASKED(feature->number) && RV.id == gh_answer[0].id)
NIX_CANARY(featureData_mtag_pos_feature) __CPROVER_assigns(nix_exc, gh_list_calls, gh_list_n, gh_list_first, gh_list_feature, gh_list_match)
;
#undef RV
#endif
