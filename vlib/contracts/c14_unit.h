/* C14: Property::unit(const std::string&) (src/Property.cpp) and PropertyHDF5::deleteValues (backend/hdf5/PropertyHDF5.cpp).
   "A metadata Property returns exactly the sequence of typed values last assigned to it ... together with its unit, uncertainty and definition":
   (1) the unit handed to the back end is the given unit with blanks removed (util::deblankString) and nothing else - an empty result removes the
       unit instead; (2) removing the values sets the extent of the value data set to {0} and touches nothing else of the property (no attribute
       - unit, uncertainty, definition - is removed).  Strings are abstract ids; deblankString is a ghost function (id -> id), any OTHER string
       transformation a changed body may call (unitSanitizer) returns an id that deblankString never returns. */
#ifndef C14_UNIT_H
#define C14_UNIT_H
#define RV __CPROVER_return_value
typedef struct { int id; } nstring;
typedef struct { int _p; } Property;
typedef struct { int _p; } PropertyHDF5;
typedef struct { int _d; } DataSet;
#define TMP_DataSet(v) ((DataSet[1]){(v)})
typedef struct { ndsize_t d0; } NDSize;
extern int gh_deblank_out, gh_unit_sets, gh_unit_set_to, gh_unit_removes, gh_attr_removes, gh_extent_calls; extern ndsize_t gh_extent_n;
#define OTHER_STRING 999999
static inline nstring deblankString(const nstring *s)
{ nstring r; r.id = gh_deblank_out; return r; }
static inline nstring unitSanitizer(const nstring *s)
{ nstring r; r.id = OTHER_STRING; return r; }
static inline bool nstring_empty(const nstring *s)
{ return s->id == 0; }
static inline void Property_backend_unit(Property *self, const nstring *u)
{ gh_unit_sets++; gh_unit_set_to = u->id; }
static inline void Property_unit_none(Property *self)
{ gh_unit_removes++; }
void Property_unit_set(Property *self, const nstring *unit)
__CPROVER_requires(__CPROVER_is_fresh(self, sizeof(Property)) && __CPROVER_is_fresh(unit, sizeof(nstring)) && gh_unit_sets == 0 && gh_unit_removes == 0 && gh_deblank_out >= 0 && gh_deblank_out < OTHER_STRING && nix_exc == EXC_NONE)
__CPROVER_ensures(/*the-unit-stored-is-the-given-unit-without-blanks*/ gh_deblank_out != 0 ==> (gh_unit_sets == 1 && gh_unit_set_to == gh_deblank_out && gh_unit_removes == 0))
__CPROVER_ensures(/*a-blank-unit-removes-the-unit*/ gh_deblank_out == 0 ==> (gh_unit_sets == 0 && gh_unit_removes == 1))
__CPROVER_ensures(/*never-throws*/ nix_exc == EXC_NONE)
NIX_CANARY(Property_unit_set) __CPROVER_assigns(nix_exc, gh_unit_sets, gh_unit_set_to, gh_unit_removes)
;
static inline DataSet PropertyHDF5_dataset(const PropertyHDF5 *self)
{ DataSet d; d._d = 1; return d; }
static inline NDSize mk_NDSize_brace_1(ndsize_t n)
{ NDSize s; s.d0 = n; return s; }
static inline void DataSet_setExtent(DataSet *d, NDSize dims)
{ gh_extent_calls++; gh_extent_n = dims.d0; }
static inline void PropertyHDF5_removeAttr(PropertyHDF5 *self, const char *name)
{ gh_attr_removes++; }
static inline bool PropertyHDF5_hasAttr(const PropertyHDF5 *self, const char *name)
{ return true; }
static inline void DataSet_removeAttr(DataSet *d, const char *name)
{ gh_attr_removes++; }
static inline bool DataSet_hasAttr(const DataSet *d, const char *name)
{ return true; }
void PropertyHDF5_deleteValues(PropertyHDF5 *self)
__CPROVER_requires(__CPROVER_is_fresh(self, sizeof(PropertyHDF5)) && gh_extent_calls == 0 && gh_attr_removes == 0 && nix_exc == EXC_NONE)
__CPROVER_ensures(/*the-values-are-emptied*/ gh_extent_calls == 1 && gh_extent_n == 0)
__CPROVER_ensures(/*unit-uncertainty-and-definition-are-left-alone*/ gh_attr_removes == 0 && nix_exc == EXC_NONE)
NIX_CANARY(PropertyHDF5_deleteValues) __CPROVER_assigns(nix_exc, gh_extent_calls, gh_extent_n, gh_attr_removes)
;
#undef RV
#endif
