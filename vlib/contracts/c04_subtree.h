/* C04: "Deleting a source or a section also removes its entire subtree" - the back-end delete functions
   SourceHDF5::deleteSource, SectionHDF5::deleteSection, FileHDF5::deleteSection, BlockHDF5::deleteSource.
   Each is: resolve the entity in this container; for EVERY child of it, in order, ask THE ENTITY ITSELF to delete that child by the child's ID
   (this is the recursion: the entity's own delete function is this same code one level down); then remove every link to the entity by its
   name in this container (H5Group::removeAllLinks: proved in c04_links.h) and return that answer.  A missing container group or an unknown
   key deletes nothing and answers false.
   Decided here is the recursion STEP (every child, through the entity, by id, before the entity is unlinked); that the recursion reaches
   every descendant follows by induction over the (finite) tree - NOT mechanised.  Handles / shared_ptr objects are abstract records. */
#ifndef C04_SUBTREE_H
#define C04_SUBTREE_H
#define RV __CPROVER_return_value
#ifdef C04_BOUNDED
#define C04_NMAX C04_BOUNDED
#else
#define C04_NMAX VEC_MAX
#endif
typedef struct { int id; } nstring;
#define TMP_nstring(v) ((nstring[1]){(v)})
typedef struct { int is_none; int node; nstring id; nstring name; } Ent;
typedef Ent Source; typedef Ent Section;
typedef struct { Ent *data; size_t n; } vec_Ent;
typedef vec_Ent vec_Source; typedef vec_Ent vec_Section;
typedef struct { int grp; } H5Group;
typedef struct { int has; H5Group val; } opt_H5Group;
typedef struct { int _b; H5Group metadata; } Cont;              /* the container whose delete function is under contract */
typedef Cont SourceHDF5; typedef Cont SectionHDF5; typedef Cont FileHDF5; typedef Cont BlockHDF5;
#define CONT_GRP 4
#define ENT_NODE 6
extern int gh_group_present, gh_found, gh_unlink_answer;         /* inputs: container group exists; the key resolves; answer of removeAllLinks */
extern int gh_key, gh_lookups, gh_unlinks, gh_unlink_name, gh_unlink_after_children, gh_children_asked; extern size_t gh_child_deletes;
extern Ent *gh_children; extern size_t gh_nchildren; extern Ent gh_entity;
static inline opt_H5Group c04_group(const Cont *self)
{ opt_H5Group g; g.has = gh_group_present != 0; g.val.grp = CONT_GRP; return g; }
static inline opt_H5Group SourceHDF5_source_group(const Cont *self)
{ return c04_group(self); }
static inline opt_H5Group SectionHDF5_section_group(const Cont *self)
{ return c04_group(self); }
static inline opt_H5Group BlockHDF5_source_group(const Cont *self)
{ return c04_group(self); }
static inline bool c04_has(const Cont *self, const nstring *key)
{ __CPROVER_assert(key->id == gh_key, "the entity is looked up by the key given"); return gh_found != 0; }
static inline Ent c04_get(const Cont *self, const nstring *key)
{ __CPROVER_assert(key->id == gh_key, "the entity is fetched by the key given"); gh_lookups++; Ent e = gh_entity; if (!gh_found) e.is_none = 1; return e; }
static inline bool SourceHDF5_hasSource(const Cont *self, const nstring *key)
{ return c04_has(self, key); }
static inline Ent SourceHDF5_getSource(const Cont *self, const nstring *key)
{ return c04_get(self, key); }
static inline bool SectionHDF5_hasSection(const Cont *self, const nstring *key)
{ return c04_has(self, key); }
static inline Ent SectionHDF5_getSection(const Cont *self, const nstring *key)
{ return c04_get(self, key); }
static inline bool FileHDF5_hasSection(const Cont *self, const nstring *key)
{ return c04_has(self, key); }
static inline Ent FileHDF5_getSection(const Cont *self, const nstring *key)
{ return c04_get(self, key); }
static inline Ent BlockHDF5_getSourceEntity(const Cont *self, const nstring *key)
{ return c04_get(self, key); }
static inline bool Source_bool(const Ent *e)
{ return e->is_none == 0; }
static inline vec_Ent c04_children(const Ent *e)
{ __CPROVER_assert(e->node == ENT_NODE && e->is_none == 0, "the children of the entity that is being deleted"); gh_children_asked++; vec_Ent v; v.data = gh_children; v.n = gh_nchildren; return v; }
static inline vec_Ent Source_sources(const Ent *e)
{ return c04_children(e); }
static inline vec_Ent Section_sections(const Ent *e)
{ return c04_children(e); }
static inline nstring Source_id(const Ent *e)
{ return e->id; }
static inline nstring Section_id(const Ent *e)
{ return e->id; }
static inline nstring Source_name(const Ent *e)
{ return e->name; }
static inline nstring Section_name(const Ent *e)
{ return e->name; }
static inline bool c04_delete_child(Ent *e, nstring key)
{ __CPROVER_assert(/*each-child-is-deleted-through-the-entity-by-its-id-in-order*/ e->node == ENT_NODE && gh_child_deletes < gh_nchildren && key.id == gh_children[gh_child_deletes].id.id && gh_unlinks == 0,
                   "every child is deleted THROUGH THE ENTITY (recursion), by the child's id, in order, before the entity is unlinked");
  gh_child_deletes++; return true; }
static inline bool Source_deleteSource(Ent *e, nstring key)
{ return c04_delete_child(e, key); }
static inline bool Section_deleteSection(Ent *e, nstring key)
{ return c04_delete_child(e, key); }
static inline bool H5Group_unlink_all(H5Group *g, const nstring *name)
{ __CPROVER_assert(g->grp == CONT_GRP, "the links are removed in this container's group"); gh_unlinks++; gh_unlink_name = name->id; gh_unlink_after_children = (int)(gh_child_deletes == gh_nchildren); return gh_unlink_answer != 0; }
#define ST_PRE(self, key) (__CPROVER_is_fresh(self, sizeof(Cont)) && (self)->metadata.grp == CONT_GRP && __CPROVER_is_fresh(key, sizeof(nstring)) && (key)->id == gh_key && \
    (gh_group_present == 0 || gh_group_present == 1) && (gh_found == 0 || gh_found == 1) && (gh_unlink_answer == 0 || gh_unlink_answer == 1) && \
    gh_lookups == 0 && gh_unlinks == 0 && gh_child_deletes == 0 && gh_children_asked == 0 && gh_entity.is_none == 0 && gh_entity.node == ENT_NODE && gh_entity.id.id != gh_entity.name.id && \
    gh_nchildren <= C04_NMAX && __CPROVER_is_fresh(gh_children, gh_nchildren * sizeof(Ent)) && nix_exc == EXC_NONE)
#define ST_ASSIGNS nix_exc, gh_lookups, gh_unlinks, gh_unlink_name, gh_unlink_after_children, gh_children_asked, gh_child_deletes
#define ST_CONTRACT(fn, present) \
__CPROVER_ensures(/*nothing-found-nothing-deleted*/ (!(present) || !gh_found) ==> (!RV && gh_unlinks == 0 && gh_child_deletes == 0)) \
__CPROVER_ensures(/*every-child-deleted-through-the-entity-before-it-is-unlinked*/ ((present) && gh_found) ==> (gh_child_deletes == gh_nchildren && gh_unlinks == 1 && gh_unlink_after_children)) \
__CPROVER_ensures(/*the-entity-is-unlinked-by-its-name-and-that-answer-returned*/ ((present) && gh_found) ==> (gh_unlink_name == gh_entity.name.id && RV == (gh_unlink_answer != 0))) \
__CPROVER_ensures(/*never-throws*/ nix_exc == EXC_NONE)
bool SourceHDF5_deleteSource(SourceHDF5 *self, const nstring *name_or_id)
__CPROVER_requires(ST_PRE(self, name_or_id))
ST_CONTRACT(SourceHDF5_deleteSource, gh_group_present)
NIX_CANARY(SourceHDF5_deleteSource) __CPROVER_assigns(ST_ASSIGNS)
;
bool SectionHDF5_deleteSection(SectionHDF5 *self, const nstring *name_or_id)
__CPROVER_requires(ST_PRE(self, name_or_id))
ST_CONTRACT(SectionHDF5_deleteSection, gh_group_present)
NIX_CANARY(SectionHDF5_deleteSection) __CPROVER_assigns(ST_ASSIGNS)
;
bool FileHDF5_deleteSection(FileHDF5 *self, const nstring *name_or_id)
__CPROVER_requires(ST_PRE(self, name_or_id))
ST_CONTRACT(FileHDF5_deleteSection, 1)
NIX_CANARY(FileHDF5_deleteSection) __CPROVER_assigns(ST_ASSIGNS)
;
bool BlockHDF5_deleteSource(BlockHDF5 *self, const nstring *name_or_id)
__CPROVER_requires(ST_PRE(self, name_or_id))
ST_CONTRACT(BlockHDF5_deleteSource, gh_group_present)
NIX_CANARY(BlockHDF5_deleteSource) __CPROVER_assigns(ST_ASSIGNS)
;
#undef RV
#endif
