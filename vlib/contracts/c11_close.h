/* C11: FileHDF5::close (backend/hdf5/FileHDF5.cpp) and File::close (src/File.cpp).
   "close: close root groups, enumerate every open group/dataset/datatype id of the file and close each as many times
   as its reference count, then close the file id."  libhdf5's identifier table is a ghost array gh_ref[id] of
   reference counts (ids 0..H5_IDS-1); H5Oclose decrements, H5Iget_ref reads.  Durability / SIGKILL are not covered. */
#ifndef C11_CLOSE_H
#define C11_CLOSE_H
#define RV __CPROVER_return_value
#include <sys/types.h>
typedef long hid_t;
#define H5_IDS 8   /* (stub H5Fget_obj_ids copies exactly 8 entries) */                                   /* size of the ghost identifier table */
typedef struct { hid_t *data; size_t n; } vec_hid;
typedef struct { int _g; } H5GroupC;
typedef struct { H5GroupC data, metadata, root; hid_t hid; FileMode mode; } FileHDF5c;     /* members of FileHDF5 (hid is inherited from H5Object) */
extern int gh_ref[H5_IDS];                          /* reference count per identifier */
extern bool gh_is_open; extern ssize_t gh_obj_count, gh_ids_result; extern hid_t gh_listed[H5_IDS];
extern int gh_group_closes, gh_file_closes; extern int gh_ref_k_at_file_close; extern int gh_group_closes_at_file_close;
#define H5F_OBJ_GROUP 4u
#define H5F_OBJ_DATASET 2u
#define H5F_OBJ_DATATYPE 8u
static inline bool FileHDF5c_isOpen(const FileHDF5c *self)
{ return gh_is_open; }
static inline void H5GroupC_close(H5GroupC *g)
{ gh_group_closes++; }
static inline ssize_t H5Fget_obj_count(hid_t file, unsigned types)
{ return gh_obj_count; }
/* fills the first min(max, n) entries with identifiers of the table; returns the count or a negative error */
static inline ssize_t H5Fget_obj_ids(hid_t file, unsigned types, size_t max, hid_t *out)
{
#define CP_(k) if ((k) < max) out[k] = gh_listed[k];
  CP_(0) CP_(1) CP_(2) CP_(3) CP_(4) CP_(5) CP_(6) CP_(7)
#undef CP_
  return gh_ids_result; }
static inline int H5Iget_ref(hid_t id)
{ return (id >= 0 && id < H5_IDS) ? gh_ref[id] : -1; }
static inline int H5Oclose(hid_t id)
{ if (id >= 0 && id < H5_IDS && gh_ref[id] > 0) { gh_ref[id]--; return 0; } return -1; }
/* H5Object::close(): closes the file identifier; records what the table looked like at that moment */
static inline void H5Object_close(FileHDF5c *self)
{ gh_file_closes++; gh_group_closes_at_file_close = gh_group_closes;
  gh_ref_k_at_file_close = (ghost_k < gh_obj_count && ghost_k < H5_IDS && gh_listed[ghost_k] >= 0 && gh_listed[ghost_k] < H5_IDS) ? gh_ref[gh_listed[ghost_k]] : 0; }
static inline vec_hid mk_vec_hid(size_t n)
{ vec_hid v; v.n = n; v.data = (hid_t *)nix_new_array(n ? n : 1, sizeof(hid_t)); return v; }   /* contents: unspecified here, filled by H5Fget_obj_ids */

NIX_THROWS void FileHDF5_close(FileHDF5c *self)
__CPROVER_requires(__CPROVER_is_fresh(self, sizeof(FileHDF5c)) && nix_exc == EXC_NONE && gh_group_closes == 0 && gh_file_closes == 0)
__CPROVER_requires(gh_obj_count <= H5_IDS && gh_ids_result <= gh_obj_count)
__CPROVER_requires(__CPROVER_forall { size_t q; (q < H5_IDS) ==> (gh_listed[q] >= 0 && gh_listed[q] < H5_IDS && gh_ref[q] >= 0 && gh_ref[q] < 1000) })
__CPROVER_ensures(/*closed-file-is-left-alone*/ !gh_is_open ==> (gh_group_closes == 0 && gh_file_closes == 0 && nix_exc == EXC_NONE))
__CPROVER_ensures(/*enumeration-error-throws*/ (gh_is_open && (gh_obj_count < 0 || (gh_obj_count > 0 && gh_ids_result < 0))) <==> nix_exc == EXC_H5Exception)
__CPROVER_ensures(/*file-id-closed-exactly-once-on-success*/ (gh_is_open && nix_exc == EXC_NONE) ==> gh_file_closes == 1)
__CPROVER_ensures(/*file-id-not-closed-on-error*/ nix_exc != EXC_NONE ==> gh_file_closes == 0)
__CPROVER_ensures(/*root-groups-closed-before-the-file*/ gh_file_closes == 1 ==> gh_group_closes_at_file_close == 3)
__CPROVER_ensures(/*every-listed-object-released-before-the-file-id-is-closed*/ gh_file_closes == 1 ==> gh_ref_k_at_file_close == 0)
NIX_CANARY(FileHDF5_close) __CPROVER_assigns(nix_exc, gh_group_closes, gh_file_closes, gh_ref_k_at_file_close, gh_group_closes_at_file_close, __CPROVER_object_whole(gh_ref))
;
#undef RV
#endif
