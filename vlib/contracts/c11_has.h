/* C11 (also C03): H5Group::hasObject (backend/hdf5/h5x/H5Group.cpp) - the guard in front of hasX / getX / open of nearly every accessor.
   "After close(), entity handles obtained earlier fail with an exception instead of keeping the file open or touching it": on a closed file libhdf5
   answers H5Lexists with an ERROR (negative), which is neither "yes" nor "no" - the guard must raise then, not answer false (an accessor would go on
   and report "not there").  Decided: the empty name is answered false without asking; otherwise libhdf5 is asked once about this group and that name;
   an error raises H5Exception; otherwise the answer is libhdf5's.  libhdf5 is a ghost (its answer: negative / 0 / positive, arbitrary). */
#ifndef C11_HAS_H
#define C11_HAS_H
#define RV __CPROVER_return_value
typedef struct { int id; } nstring;
typedef struct { long hid; } H5Group;
typedef struct { int value; } HTri;
#define H5P_DEFAULT 0
extern int gh_exists_answer, gh_exists_calls, gh_exists_name; extern long gh_exists_hid;
static inline bool nstring_empty(const nstring *s)
{ return s->id == 0; }
static inline const nstring *nstring_c_str(const nstring *s)
{ return s; }
static inline HTri H5Lexists(long hid, const nstring *name, long lapl)
{ gh_exists_calls++; gh_exists_hid = hid; gh_exists_name = name->id; HTri t; t.value = gh_exists_answer; return t; }
static inline bool HTri_result(const HTri *t)
{ return t->value > 0; }
static inline bool HTri_isError(const HTri *t)
{ return t->value < 0; }
static inline bool HTri_bool(const HTri *t)
{ return t->value > 0; }
NIX_THROWS static inline bool HTri_check(const HTri *t, const char *msg)
{ if (t->value < 0) { nix_exc = EXC_H5Exception; return false; } return t->value > 0; }
NIX_THROWS bool H5Group_hasObject(const H5Group *self, const nstring *name)
__CPROVER_requires(__CPROVER_is_fresh(self, sizeof(H5Group)) && __CPROVER_is_fresh(name, sizeof(nstring)) && gh_exists_calls == 0 && nix_exc == EXC_NONE)
__CPROVER_ensures(/*the-empty-name-is-not-there-and-nobody-is-asked*/ name->id == 0 ==> (!RV && gh_exists_calls == 0 && nix_exc == EXC_NONE))
__CPROVER_ensures(/*libhdf5-is-asked-once-about-this-group-and-that-name*/ name->id != 0 ==> (gh_exists_calls == 1 && gh_exists_hid == self->hid && gh_exists_name == name->id))
__CPROVER_ensures(/*an-error-answer-raises-instead-of-meaning-no*/ (name->id != 0 && gh_exists_answer < 0) <==> nix_exc == EXC_H5Exception)
__CPROVER_ensures(/*otherwise-the-answer-is-libhdf5-s*/ (name->id != 0 && gh_exists_answer >= 0) ==> RV == (gh_exists_answer > 0))
NIX_CANARY(H5Group_hasObject) __CPROVER_assigns(nix_exc, gh_exists_calls, gh_exists_hid, gh_exists_name)
;
#undef RV
#endif
