/* C08: the replace-link setters MultiTagHDF5::positions(name_or_id) / extents(name_or_id) (backend/hdf5/MultiTagHDF5.cpp).
   "A rejected operation leaves no trace ... reference to an entity that is not in the same block ..., mismatching shape ...: nothing is created, removed ...":
   a rejected assignment (the array is not found in the block; for extents: its shape differs from the positions') raises runtime_error and neither removes
   the existing link nor creates one; an accepted assignment removes the old link - if there is one - and then creates exactly one link of that name to the
   array's group, and touches the update time.  The HDF5 group is a ghost (removals, links created, in which order). */
#ifndef C08_RELINK_H
#define C08_RELINK_H
#define RV __CPROVER_return_value
typedef struct { int id; } nstring;
typedef struct { int null; int grp; int shape; } DataArrayP;      /* std::shared_ptr<IDataArray> / <DataArrayHDF5>: found?, its group, its shape (abstract) */
typedef struct { int _m; } MultiTagHDF5;
typedef struct { int grp; } H5Group;
#define OWN_GRP 3
#define TMP_H5Group(v) ((H5Group[1]){(v)})
extern int gh_rl_found, gh_rl_target_grp, gh_rl_target_shape, gh_rl_pos_shape, gh_rl_has_old;
extern int gh_rl_removes, gh_rl_links, gh_rl_link_target, gh_rl_link_after_removes, gh_rl_updates, gh_rl_name_ok, gh_rl_remove_name_ok;
/* RL_NAME: "positions" or "extents" (set per job); link names are compared on their first three characters */
#define RL_IS(s) ((s)[0] == RL_NAME[0] && (s)[1] == RL_NAME[1] && (s)[2] == RL_NAME[2])
static inline DataArrayP MultiTagHDF5_getArrayEntity(const MultiTagHDF5 *self, const nstring *key)
{ DataArrayP p; p.null = gh_rl_found ? 0 : 1; p.grp = gh_rl_target_grp; p.shape = gh_rl_target_shape; return p; }
static inline bool DataArrayP_bool(const DataArrayP *p)
{ return !p->null; }
static inline DataArrayP MultiTagHDF5_positions(const MultiTagHDF5 *self)
{ DataArrayP p; p.null = 0; p.grp = 99; p.shape = gh_rl_pos_shape; return p; }
static inline bool MultiTagHDF5_checkDimensions(const MultiTagHDF5 *self, DataArrayP a, DataArrayP b)
{ __CPROVER_assert(!a.null && !b.null, "shapes of existing arrays are compared"); return a.shape == b.shape; }
static inline H5Group MultiTagHDF5_group(const MultiTagHDF5 *self)
{ H5Group g; g.grp = OWN_GRP; return g; }
static inline bool H5Group_hasGroup(const H5Group *g, const char *name)
{ __CPROVER_assert(g->grp == OWN_GRP, "the multi-tag's own group"); return gh_rl_has_old != 0 && RL_IS(name); }
static inline void H5Group_removeGroup(H5Group *g, const char *name)
{ __CPROVER_assert(g->grp == OWN_GRP, "the multi-tag's own group"); gh_rl_removes++; gh_rl_remove_name_ok = RL_IS(name); }
static inline H5Group DataArrayP_group(const DataArrayP *p)
{ __CPROVER_assert(!p->null, "group() of an array that was found"); H5Group g; g.grp = p->grp; return g; }
static inline void H5Group_createLink(H5Group *g, H5Group target, const char *name)
{ __CPROVER_assert(g->grp == OWN_GRP, "the multi-tag's own group"); gh_rl_links++; gh_rl_link_target = target.grp; gh_rl_name_ok = RL_IS(name); gh_rl_link_after_removes = gh_rl_removes; }
static inline void MultiTagHDF5_forceUpdatedAt(MultiTagHDF5 *self)
{ gh_rl_updates++; }
/* FeatureHDF5::data(name_or_id): the same rule for the feature's data link */
typedef struct { int _f; } FeatureHDF5;
static inline DataArrayP FeatureHDF5_getArrayEntity(const FeatureHDF5 *self, const nstring *key)
{ DataArrayP p; p.null = gh_rl_found ? 0 : 1; p.grp = gh_rl_target_grp; p.shape = gh_rl_target_shape; return p; }
static inline H5Group FeatureHDF5_group(const FeatureHDF5 *self)
{ H5Group g; g.grp = OWN_GRP; return g; }
static inline void FeatureHDF5_forceUpdatedAt(FeatureHDF5 *self)
{ gh_rl_updates++; }
#define RL_PRE (__CPROVER_is_fresh(self, sizeof(*self)) && __CPROVER_is_fresh(name_or_id, sizeof(nstring)) && (gh_rl_found == 0 || gh_rl_found == 1) && (gh_rl_has_old == 0 || gh_rl_has_old == 1) && \
                gh_rl_target_grp >= 10 && gh_rl_removes == 0 && gh_rl_links == 0 && gh_rl_updates == 0 && nix_exc == EXC_NONE)
#define RL_POST(accepted) \
__CPROVER_ensures(/*a-rejected-assignment-removes-nothing-and-links-nothing*/ !(accepted) <==> (nix_exc == EXC_runtime_error && gh_rl_removes == 0 && gh_rl_links == 0 && gh_rl_updates == 0)) \
__CPROVER_ensures(/*an-accepted-assignment-replaces-the-link*/ (accepted) ==> (nix_exc == EXC_NONE && gh_rl_removes == (gh_rl_has_old ? 1 : 0) && (gh_rl_removes == 0 || gh_rl_remove_name_ok) && \
                  gh_rl_links == 1 && gh_rl_name_ok && gh_rl_link_target == gh_rl_target_grp && gh_rl_link_after_removes == gh_rl_removes && gh_rl_updates == 1))
#define RL_ASSIGNS nix_exc, gh_rl_removes, gh_rl_remove_name_ok, gh_rl_links, gh_rl_link_target, gh_rl_name_ok, gh_rl_link_after_removes, gh_rl_updates
NIX_THROWS void MultiTagHDF5_positions_set(MultiTagHDF5 *self, const nstring *name_or_id)
__CPROVER_requires(RL_PRE)
RL_POST(gh_rl_found)
NIX_CANARY(MultiTagHDF5_positions_set) __CPROVER_assigns(RL_ASSIGNS)
;
NIX_THROWS void FeatureHDF5_data_set(FeatureHDF5 *self, const nstring *name_or_id)
__CPROVER_requires(RL_PRE)
RL_POST(gh_rl_found)
NIX_CANARY(FeatureHDF5_data_set) __CPROVER_assigns(RL_ASSIGNS)
;
NIX_THROWS void MultiTagHDF5_extents_set(MultiTagHDF5 *self, const nstring *name_or_id)
__CPROVER_requires(RL_PRE)
RL_POST(gh_rl_found && gh_rl_target_shape == gh_rl_pos_shape)
NIX_CANARY(MultiTagHDF5_extents_set) __CPROVER_assigns(RL_ASSIGNS)
;

/* ---- EntityWithMetadataHDF5::metadata(id) and SectionHDF5::link(id): links to a SECTION, found by id in the whole file ----
   same rule: a rejected assignment (empty id: EmptyString, for metadata; no section with that id in the file: runtime_error) leaves the existing link in
   place and creates none; an accepted one removes the old link (through the setter's own none-overload) and then creates exactly one link to the section's group. */
typedef struct { int _e; } EntityWithMetadataHDF5;
typedef struct { int _s; } SectionHDF5;
typedef struct { int _f; } File;
typedef struct { int key; } IdFilterT;
typedef struct { int null; int grp; } SectionP;                 /* shared_ptr<ISection> / <SectionHDF5> */
typedef struct { SectionP impl_; } Section;
typedef struct { Section *data; size_t n; } vec_Section;
extern int gh_sl_found, gh_sl_target_grp, gh_sl_has_old, gh_sl_key, gh_sl_empty_id, gh_sl_searches, gh_sl_search_key, gh_sl_unlinks, gh_sl_links, gh_sl_link_target, gh_sl_link_after_unlinks, gh_sl_name_ok;
extern Section gh_sl_hit[1];
static inline bool nstring_empty(const nstring *s)
{ return gh_sl_empty_id != 0; }
static inline IdFilterT mk_IdFilter(const nstring *id)
{ IdFilterT f; f.key = id->id; return f; }
static inline File sl_file(void)
{ File f; f._f = 1; return f; }
static inline File EntityWithMetadataHDF5_file(const EntityWithMetadataHDF5 *self)
{ return sl_file(); }
static inline File SectionHDF5_file(const SectionHDF5 *self)
{ return sl_file(); }
static inline vec_Section File_findSections(const File *f, IdFilterT filter)
{ gh_sl_searches++; gh_sl_search_key = filter.key; vec_Section v; v.data = gh_sl_hit; v.n = gh_sl_found ? 1 : 0; return v; }
static inline SectionP Section_impl(const Section *s)
{ return s->impl_; }
static inline H5Group sl_group(void)
{ H5Group g; g.grp = OWN_GRP; return g; }
static inline H5Group EntityWithMetadataHDF5_group(const EntityWithMetadataHDF5 *self)
{ return sl_group(); }
static inline H5Group SectionHDF5_group(const SectionHDF5 *self)
{ return sl_group(); }
static inline bool H5Group_hasGroup_sl(const H5Group *g, const char *name)
{ __CPROVER_assert(g->grp == OWN_GRP, "the entity's own group"); return gh_sl_has_old != 0 && RL_IS(name); }
static inline void sl_unlink(void)
{ gh_sl_unlinks++; }
static inline void EntityWithMetadataHDF5_metadata_none(EntityWithMetadataHDF5 *self)
{ sl_unlink(); }
static inline void SectionHDF5_link_none(SectionHDF5 *self)
{ sl_unlink(); }
static inline H5Group SectionP_group(const SectionP *p)
{ __CPROVER_assert(!p->null, "group() of a section that was found"); H5Group g; g.grp = p->grp; return g; }
static inline void H5Group_createLink_sl(H5Group *g, H5Group target, const char *name)
{ __CPROVER_assert(g->grp == OWN_GRP, "the entity's own group"); gh_sl_links++; gh_sl_link_target = target.grp; gh_sl_name_ok = RL_IS(name); gh_sl_link_after_unlinks = gh_sl_unlinks; }
#define SL_PRE(T) (__CPROVER_is_fresh(self, sizeof(T)) && __CPROVER_is_fresh(id, sizeof(nstring)) && id->id == gh_sl_key && (gh_sl_found == 0 || gh_sl_found == 1) && (gh_sl_has_old == 0 || gh_sl_has_old == 1) && \
    (gh_sl_empty_id == 0 || gh_sl_empty_id == 1) && gh_sl_hit[0].impl_.null == 0 && gh_sl_hit[0].impl_.grp == gh_sl_target_grp && gh_sl_target_grp >= 10 && \
    gh_sl_searches == 0 && gh_sl_unlinks == 0 && gh_sl_links == 0 && nix_exc == EXC_NONE)
#define SL_POST(accepted) \
__CPROVER_ensures(/*a-rejected-assignment-keeps-the-existing-link-and-creates-none*/ !(accepted) <==> (nix_exc != EXC_NONE && gh_sl_unlinks == 0 && gh_sl_links == 0)) \
__CPROVER_ensures(/*an-accepted-assignment-replaces-the-link-with-one-to-the-section-of-that-id*/ (accepted) ==> (nix_exc == EXC_NONE && gh_sl_search_key == gh_sl_key && gh_sl_unlinks == (gh_sl_has_old ? 1 : 0) && \
                  gh_sl_links == 1 && gh_sl_name_ok && gh_sl_link_target == gh_sl_target_grp && gh_sl_link_after_unlinks == gh_sl_unlinks))
#define SL_ASSIGNS nix_exc, gh_sl_searches, gh_sl_search_key, gh_sl_unlinks, gh_sl_links, gh_sl_link_target, gh_sl_link_after_unlinks, gh_sl_name_ok
NIX_THROWS void EntityWithMetadataHDF5_metadata_set(EntityWithMetadataHDF5 *self, const nstring *id)
__CPROVER_requires(SL_PRE(EntityWithMetadataHDF5))
SL_POST(!gh_sl_empty_id && gh_sl_found)
__CPROVER_ensures(/*an-empty-id-is-EmptyString-an-unknown-id-runtime_error*/ (gh_sl_empty_id ==> nix_exc == EXC_EmptyString) && ((!gh_sl_empty_id && !gh_sl_found) ==> nix_exc == EXC_runtime_error))
NIX_CANARY(EntityWithMetadataHDF5_metadata_set) __CPROVER_assigns(SL_ASSIGNS)
;
NIX_THROWS void SectionHDF5_link_set(SectionHDF5 *self, const nstring *id)
__CPROVER_requires(SL_PRE(SectionHDF5) && gh_sl_empty_id == 0)
SL_POST(gh_sl_found)
NIX_CANARY(SectionHDF5_link_set) __CPROVER_assigns(SL_ASSIGNS)
;

/* ---- BlockHDF5::createMultiTag(name, type, positions): "nothing is created" when the positions array is not in this block ("half-built multi-tag") ----
   the constructor of the new multi-tag links the positions and raises when the array is not in the block - AFTER the group exists; so the create function
   must refuse before it creates the group.  Ghosts: is the array in the block; groups created; multi-tag objects constructed (the constructor raises for a
   foreign array, as the real one does). */
typedef struct { int _b; } BlockHDF5;
typedef struct { int has; H5Group val; } opt_H5Group;
typedef struct { int null; } MultiTagP;
typedef struct { nstring id_; } DataArray;
extern int gh_cm_in_block, gh_cm_groups_created, gh_cm_objects, gh_cm_asked_id, gh_cm_created_name;
static inline nstring DataArray_id(const DataArray *a)
{ return a->id_; }
static inline bool BlockHDF5_hasEntity_DataArray(const BlockHDF5 *self, nstring id)
{ gh_cm_asked_id = id.id; return gh_cm_in_block != 0; }
static inline nstring createId(void)
{ nstring s; s.id = 4242; return s; }
static inline opt_H5Group BlockHDF5_multi_tag_group(const BlockHDF5 *self, bool create)
{ opt_H5Group g; g.has = 1; g.val.grp = OWN_GRP; return g; }
static inline H5Group H5Group_openGroup_create(H5Group *g, const nstring *name)
{ __CPROVER_assert(g->grp == OWN_GRP, "the block's multi-tag group"); gh_cm_groups_created++; gh_cm_created_name = name->id; H5Group r; r.grp = 50; return r; }
NIX_THROWS static inline MultiTagP mk_MultiTagP(H5Group group, const DataArray *positions)
{ MultiTagP p; p.null = 1; if (!gh_cm_in_block) { nix_exc = EXC_runtime_error; return p; } gh_cm_objects++; p.null = 0; return p; }
NIX_THROWS MultiTagP BlockHDF5_createMultiTag(BlockHDF5 *self, const nstring *name, const nstring *type, const DataArray *positions)
__CPROVER_requires(__CPROVER_is_fresh(self, sizeof(BlockHDF5)) && __CPROVER_is_fresh(name, sizeof(nstring)) && __CPROVER_is_fresh(type, sizeof(nstring)) && __CPROVER_is_fresh(positions, sizeof(DataArray)) &&
                   (gh_cm_in_block == 0 || gh_cm_in_block == 1) && gh_cm_groups_created == 0 && gh_cm_objects == 0 && nix_exc == EXC_NONE)
__CPROVER_ensures(/*positions-of-another-block-are-refused-and-nothing-is-created*/ !gh_cm_in_block <==> (nix_exc == EXC_runtime_error && gh_cm_groups_created == 0 && gh_cm_objects == 0))
__CPROVER_ensures(/*otherwise-exactly-one-group-of-that-name-and-one-multi-tag*/ gh_cm_in_block ==> (nix_exc == EXC_NONE && gh_cm_groups_created == 1 && gh_cm_created_name == name->id && gh_cm_objects == 1 && !RV.null))
NIX_CANARY(BlockHDF5_createMultiTag) __CPROVER_assigns(nix_exc, gh_cm_groups_created, gh_cm_created_name, gh_cm_objects, gh_cm_asked_id)
;
#undef RV
#endif
