/* C16 (and C01): reading variable-length strings - the element step of StringWriter::finish (backend/hdf5/h5x/H5Object.hpp).
   After H5Dread the buffer holds one char* per element; libhdf5 leaves a NULL pointer for an element that was never written
   (documented behaviour for variable-length strings).  Assigning a null char* to std::string is undefined behaviour
   (std::string::operator=(const char*) requires a valid C string); C01 says such elements "read as ... empty string". */
#ifndef C16_STRINGS_H
#define C16_STRINGS_H
#define RV __CPROVER_return_value
typedef struct { const char *src; int empty; } nstring;       /* std::string: where its contents were copied from */
static inline void nstring_assign_cstr(nstring *s, const char *c)
{ __CPROVER_assert(/*std-string-is-never-assigned-a-null-pointer*/ c != NULL, "std::string::operator=(const char*) is handed a valid C string, never NULL (undefined behaviour)"); s->src = c; s->empty = (c[0] == 0); }
void string_writer_finish_elem(nstring *data, char **buffer, ndsize_t i)
__CPROVER_requires(i < 64 && __CPROVER_is_fresh(data, 64 * sizeof(nstring)) && __CPROVER_is_fresh(buffer, 64 * sizeof(char *)) &&
                   (buffer[i] == NULL || __CPROVER_is_fresh(buffer[i], 8)) && nix_exc == EXC_NONE)
__CPROVER_ensures(/*written-element-is-copied-from-the-buffer*/ __CPROVER_old(buffer[i]) != NULL ==> data[i].src == __CPROVER_old(buffer[i]))
__CPROVER_ensures(/*never-written-element-reads-as-the-empty-string*/ __CPROVER_old(buffer[i]) == NULL ==> data[i].empty)
__CPROVER_ensures(/*never-throws*/ nix_exc == EXC_NONE)
NIX_CANARY(string_writer_finish_elem) __CPROVER_assigns(nix_exc; data[i])
;
#undef RV
#endif
