/* C17: fillPositionsExtentsAndUnits (src/util/dataAccess.cpp) - the per-dimension body of its loop (region unit).
   "... with dimensions that are not specified included in full": dataSlice pads the caller's start / end / unit vectors, one entry per
   dimension the caller left out, with (coordinate of the first element, coordinate of the LAST element shape[i]-1, the dimension's own unit).
   Decided per dimension i: a vector that already has an entry for i is left alone; otherwise exactly one value is appended to it:
   starts <- x_0, ends <- x_(shape[i]-1), units <- the dimension's unit.  The axis is abstracted to the coordinates this code reads
   (x_0 = offset-or-0 / first tick / 0; x_q for q = shape[i]-1; any other index: arbitrary), the vectors are ghost records of what is appended.
   NOT decided: that the loop visits the dimensions in order so that the appended entry lands at position i (sizes >= i is its invariant, by
   inspection), getDimensionUnit itself, Exclusive mode for a padded dimension (drops the last element: known finding of C05's mechanism). */
#ifndef C17_FILL_H
#define C17_FILL_H
#define RV __CPROVER_return_value
typedef struct { int id; } nstring;
typedef struct { DimensionType type; int has_offset; double offset; double x0; ndsize_t q; double xq; ndsize_t n_ticks; int unit; } Dimension;
typedef Dimension SampledDimension; typedef Dimension RangeDimension;
typedef struct { size_t n; int which; } vec_double_g;         /* ghost vector: its length, and which one it is (1 = starts, 2 = ends) */
typedef struct { size_t n; } vec_nstr_g;
extern int gh_push_starts, gh_push_ends, gh_push_units, gh_unit_pushed; extern double gh_start_pushed, gh_end_pushed;
double nondet_double(void);
static inline DimensionType Dimension_dimensionType(const Dimension *d)
{ return d->type; }
static inline SampledDimension Dimension_asSampledDimension(const Dimension *d)
{ return *d; }
static inline RangeDimension Dimension_asRangeDimension(const Dimension *d)
{ return *d; }
static inline opt_double SampledDimension_offset(const SampledDimension *sd)
{ opt_double o; o.has = sd->has_offset != 0; o.val = sd->offset; return o; }
/* SampledDimension::operator[](index) = positionAt(index) */
static inline double SampledDimension_at(const SampledDimension *sd, ndsize_t index)
{ return index == sd->q ? sd->xq : (index == 0 ? sd->x0 : nondet_double()); }
/* RangeDimension::axis(count, startIndex)[0] with count == 1: the tick at startIndex; raises OutOfBounds past the last tick */
NIX_THROWS static inline double RangeDimension_axis_first(const RangeDimension *rd, ndsize_t count, ndsize_t start_index)
{ __CPROVER_assert(count == 1, "one tick is asked for");
  if (start_index >= rd->n_ticks) { nix_exc = EXC_OutOfBounds; return 0.0; }
  return start_index == rd->q ? rd->xq : (start_index == 0 ? rd->x0 : nondet_double()); }
/* RangeDimension::ticks(): all ticks (a ghost array with the first tick x0 and, where it exists, the tick x_q at index q) */
extern double *gh_ticks;
static inline vec_double RangeDimension_ticks(const RangeDimension *rd)
{ vec_double v; v.data = gh_ticks; v.n = (size_t)rd->n_ticks; return v; }
NIX_THROWS static inline double converts_to_double(ndsize_t num, const char *msg_if_fail)
{ double dbl = (double)num;
  if (dbl >= 18446744073709551616.0 || (ndsize_t)dbl != num) { nix_exc = EXC_OutOfBounds; return 0.0; }
  return dbl; }
static inline nstring getDimensionUnit(const Dimension *d)
{ nstring s; s.id = d->unit; return s; }
static inline size_t vec_double_g_size(const vec_double_g *v)
{ return v->n; }
static inline void vec_double_g_push_back(vec_double_g *v, double x)
{ __CPROVER_assert(v->which == 1 || v->which == 2, "starts or ends"); if (v->which == 1) { gh_push_starts++; gh_start_pushed = x; } else { gh_push_ends++; gh_end_pushed = x; } v->n++; }
static inline size_t vec_nstr_g_size(const vec_nstr_g *v)
{ return v->n; }
static inline void vec_nstr_g_push_back(vec_nstr_g *v, nstring s)
{ gh_push_units++; gh_unit_pushed = s.id; v->n++; }
#define SAME_D(a, b) ((a) == (b) || (isnan(a) && isnan(b)))
#define F_INT_AXIS(d) ((d)->type == DimensionType_Set || (d)->type == DimensionType_DataFrame)
#define F_LAST(shape, i) ((shape)->dims[i] - 1)
NIX_THROWS void fill_pad_dim(const Dimension *dim, size_t i, vec_double_g *starts, vec_double_g *ends, vec_nstr_g *units, NDSize *shape, const char *double_fail_msg)
__CPROVER_requires(__CPROVER_is_fresh(dim, sizeof(Dimension)) && __CPROVER_is_fresh(starts, sizeof(vec_double_g)) && __CPROVER_is_fresh(ends, sizeof(vec_double_g)) && __CPROVER_is_fresh(units, sizeof(vec_nstr_g)) &&
                   ND_OK(shape) && i < shape->rank && starts->which == 1 && ends->which == 2 && starts->n < 1000 && ends->n < 1000 && units->n < 1000 && nix_exc == EXC_NONE)
__CPROVER_requires((dim->type == DimensionType_Sample || dim->type == DimensionType_Set || dim->type == DimensionType_Range || dim->type == DimensionType_DataFrame) && (dim->has_offset == 0 || dim->has_offset == 1) &&
                   gh_push_starts == 0 && gh_push_ends == 0 && gh_push_units == 0 && shape->dims[i] >= 1 &&
                   dim->n_ticks <= 8 && __CPROVER_is_fresh(gh_ticks, 8 * sizeof(double)) && (dim->n_ticks > 0 ==> SAME_D(gh_ticks[0], dim->x0)) && (dim->q < dim->n_ticks ==> SAME_D(gh_ticks[dim->q], dim->xq)) && dim->q == F_LAST(shape, i) &&
                   (dim->type == DimensionType_Sample ==> SAME_D(dim->x0, dim->has_offset ? dim->offset : 0.0)) && (dim->q == 0 ==> SAME_D(dim->xq, dim->x0)) &&
                   (F_INT_AXIS(dim) ==> (dim->x0 == 0.0 && dim->q < 9007199254740992ull && dim->xq == (double)dim->q)))
__CPROVER_ensures(/*a-vector-that-has-an-entry-for-this-dimension-is-left-alone*/ (i < __CPROVER_old(starts->n) ==> gh_push_starts == 0) && (i < __CPROVER_old(ends->n) ==> gh_push_ends == 0) && (i < __CPROVER_old(units->n) ==> gh_push_units == 0))
__CPROVER_ensures(/*missing-unit-is-the-dimension-s-own*/ (i >= __CPROVER_old(units->n)) ==> (gh_push_units == 1 && gh_unit_pushed == dim->unit))
__CPROVER_ensures(/*missing-start-is-the-first-coordinate*/ (nix_exc == EXC_NONE && i >= __CPROVER_old(starts->n)) ==> (gh_push_starts == 1 && SAME_D(gh_start_pushed, dim->x0)))
__CPROVER_ensures(/*missing-end-is-the-coordinate-of-the-last-element*/ (nix_exc == EXC_NONE && i >= __CPROVER_old(ends->n)) ==> (gh_push_ends == 1 && SAME_D(gh_end_pushed, dim->xq)))
__CPROVER_ensures(/*raises-only-for-a-range-axis-with-fewer-ticks-than-elements*/ nix_exc != EXC_NONE ==> (nix_exc == EXC_OutOfBounds && dim->type == DimensionType_Range && dim->n_ticks <= F_LAST(shape, i)))
NIX_CANARY(fill_pad_dim) __CPROVER_assigns(nix_exc, gh_push_starts, gh_push_ends, gh_push_units, gh_unit_pushed, gh_start_pushed, gh_end_pushed; starts->n; ends->n; units->n)
;
#undef RV
#endif
