/* C07: contracts of the position -> index leaf functions of src/Dimensions.cpp.
   Each __CPROVER_ensures clause is one sentence of the property statement; the label in the
   leading comment is the name the check reports. */
#ifndef C07_LEAF_H
#define C07_LEAF_H

#define MATCH_VALID(m) ((m) == PositionMatch_Equal || (m) == PositionMatch_Less || (m) == PositionMatch_Greater || \
                        (m) == PositionMatch_GreaterOrEqual || (m) == PositionMatch_LessOrEqual)

/* double -> index conversion used by all three arithmetic axes.  2^64 = 18446744073709551616.0 */
#define TWO64 18446744073709551616.0
opt_ndsize toIndex(const double value, const bool saturate)
__CPROVER_requires(nix_exc == EXC_NONE)
__CPROVER_ensures(/*fits-converted*/ (value >= 0.0 && value < TWO64) ==> (__CPROVER_return_value.has && __CPROVER_return_value.val == (ndsize_t)value))
__CPROVER_ensures(/*too-large-saturates-when-asked*/ (value >= TWO64 && saturate) ==> (__CPROVER_return_value.has && __CPROVER_return_value.val == ULLONG_MAX))
__CPROVER_ensures(/*otherwise-no-index*/ !((value >= 0.0 && value < TWO64) || (value >= TWO64 && saturate)) ==> !__CPROVER_return_value.has)
__CPROVER_ensures(/*no-exception*/ nix_exc == EXC_NONE)
NIX_CANARY(toIndex) __CPROVER_assigns()
;

/* ---- integer axes (set / data-frame): x_i = i, i < n or unbounded when n == 0 --------------
   Coordinates are the integers themselves, compared with the double position in the reals.  For
   |p| <= 2^53 the comparison "i <= p" is exact in doubles for i <= 2^53 and trivially false above. */
#define TWO53 9007199254740992.0
#define TWO53U (1ULL << 53)
#define IAX_DOM(p) ((p) > -TWO53 && (p) < TWO53)            /* excludes NaN and infinities; below 2^53 consecutive
                                                               integers are distinct doubles */
#ifdef C16_SAFETY   /* C16: every double, including NaN, infinities and |p| >= 2^64; functional clauses are then vacuous outside the domain */
#define IAX_DOM_REQ(p) 1
#else
#define IAX_DOM_REQ(p) IAX_DOM(p)
#endif
#define IAX_IN(i, n) ((n) == 0 || (i) < (n))
#define IAX_LE(i, p) ((i) <= TWO53U && (double)(i) <= (p))
#define IAX_LT(i, p) ((i) <= TWO53U && (double)(i) <  (p))
#define IAX_GE(i, p) ((i) >  TWO53U || (double)(i) >= (p))
#define IAX_GT(i, p) ((i) >  TWO53U || (double)(i) >  (p))
#define IAX_EQ(i, p) ((i) <= TWO53U && (double)(i) == (p))

#define POST_IAX_LE_SOUND(p, n, RV) ((RV).has ==> (IAX_IN((RV).val, n) && IAX_LE((RV).val, p)))
#define POST_IAX_LE_MAX(p, n, RV, k) ((IAX_IN(k, n) && IAX_LE(k, p)) ==> ((RV).has && (k) <= (RV).val))
#define POST_IAX_LT_SOUND(p, n, RV) ((RV).has ==> (IAX_IN((RV).val, n) && IAX_LT((RV).val, p)))
#define POST_IAX_LT_MAX(p, n, RV, k) ((IAX_IN(k, n) && IAX_LT(k, p)) ==> ((RV).has && (k) <= (RV).val))
#define POST_IAX_GE_SOUND(p, n, RV) ((RV).has ==> (IAX_IN((RV).val, n) && IAX_GE((RV).val, p)))
#define POST_IAX_GE_MIN(p, n, RV, k) ((IAX_IN(k, n) && IAX_GE(k, p)) ==> ((RV).has && (RV).val <= (k)))
#define POST_IAX_GT_SOUND(p, n, RV) ((RV).has ==> (IAX_IN((RV).val, n) && IAX_GT((RV).val, p)))
#define POST_IAX_GT_MIN(p, n, RV, k) ((IAX_IN(k, n) && IAX_GT(k, p)) ==> ((RV).has && (RV).val <= (k)))
#define POST_IAX_EQ_SOUND(p, n, RV) ((RV).has ==> (IAX_IN((RV).val, n) && IAX_EQ((RV).val, p)))
#define POST_IAX_EQ_FOUND(p, n, RV, k) ((IAX_IN(k, n) && IAX_EQ(k, p)) ==> ((RV).has && (RV).val == (k)))

#define IAX_CONTRACT(p, n, m, fn) \
__CPROVER_requires(MATCH_VALID(m)) \
__CPROVER_requires(nix_exc == EXC_NONE) \
__CPROVER_requires(IAX_DOM_REQ(p)) \
__CPROVER_ensures(/*LessOrEqual-sound*/ (IAX_DOM(p) && (m) == PositionMatch_LessOrEqual) ==> POST_IAX_LE_SOUND(p, n, __CPROVER_return_value)) \
__CPROVER_ensures(/*LessOrEqual-largest*/ (IAX_DOM(p) && (m) == PositionMatch_LessOrEqual) ==> POST_IAX_LE_MAX(p, n, __CPROVER_return_value, (ndsize_t)ghost_k)) \
__CPROVER_ensures(/*Less-sound*/ (IAX_DOM(p) && (m) == PositionMatch_Less) ==> POST_IAX_LT_SOUND(p, n, __CPROVER_return_value)) \
__CPROVER_ensures(/*Less-largest*/ (IAX_DOM(p) && (m) == PositionMatch_Less) ==> POST_IAX_LT_MAX(p, n, __CPROVER_return_value, (ndsize_t)ghost_k)) \
__CPROVER_ensures(/*GreaterOrEqual-sound*/ (IAX_DOM(p) && (m) == PositionMatch_GreaterOrEqual) ==> POST_IAX_GE_SOUND(p, n, __CPROVER_return_value)) \
__CPROVER_ensures(/*GreaterOrEqual-smallest*/ (IAX_DOM(p) && (m) == PositionMatch_GreaterOrEqual) ==> POST_IAX_GE_MIN(p, n, __CPROVER_return_value, (ndsize_t)ghost_k)) \
__CPROVER_ensures(/*Greater-sound*/ (IAX_DOM(p) && (m) == PositionMatch_Greater) ==> POST_IAX_GT_SOUND(p, n, __CPROVER_return_value)) \
__CPROVER_ensures(/*Greater-smallest*/ (IAX_DOM(p) && (m) == PositionMatch_Greater) ==> POST_IAX_GT_MIN(p, n, __CPROVER_return_value, (ndsize_t)ghost_k)) \
__CPROVER_ensures(/*Equal-sound*/ (IAX_DOM(p) && (m) == PositionMatch_Equal) ==> POST_IAX_EQ_SOUND(p, n, __CPROVER_return_value)) \
__CPROVER_ensures(/*Equal-found*/ (IAX_DOM(p) && (m) == PositionMatch_Equal) ==> POST_IAX_EQ_FOUND(p, n, __CPROVER_return_value, (ndsize_t)ghost_k)) \
__CPROVER_ensures(/*no-exception*/ nix_exc == EXC_NONE) \
IAX_COVERS(m) \
NIX_CANARY(fn) __CPROVER_assigns()

/* vacuity guard: clauses labelled COVER-* must FAIL (= the situation is reachable under the requires) */
#if defined(NIX_ENFORCE_getDataFrameIndex) || defined(NIX_ENFORCE_getSetIndex)
#define COVER_HAS(m, M, RV) \
__CPROVER_ensures(/*COVER-has*/ !((m) == M && (RV).has)) \
__CPROVER_ensures(/*COVER-none*/ !((m) == M && !(RV).has))
#define IAX_COVERS(m) \
COVER_HAS(m, PositionMatch_LessOrEqual, __CPROVER_return_value) COVER_HAS(m, PositionMatch_Less, __CPROVER_return_value) \
COVER_HAS(m, PositionMatch_GreaterOrEqual, __CPROVER_return_value) COVER_HAS(m, PositionMatch_Greater, __CPROVER_return_value) \
COVER_HAS(m, PositionMatch_Equal, __CPROVER_return_value)
#else
#define IAX_COVERS(m)
#endif

opt_ndsize getDataFrameIndex(const double position, const ndsize_t tick_count, const PositionMatch match)
IAX_CONTRACT(position, tick_count, match, getDataFrameIndex)
;

opt_ndsize getSetIndex(const double position, vec_string labels, const PositionMatch match)
IAX_CONTRACT(position, (ndsize_t)labels.n, match, getSetIndex)
;


/* ---- range axis: x_i = ticks[i] ------------------------------------------------------------
   F = premise of the property (ticks strictly ascending, position is a number).  Functional
   clauses are conditioned on F; in-range and memory safety are unconditional. */
#define RAX_F(p) (ghost_ticks_ascending && !isnan(p))
#define RAX_N(t) ((t)->n)
#define RAX(t, i) ((t)->data[i])
opt_ndsize getIndex(const double position, vec_double *ticks, PositionMatch matching)
__CPROVER_requires(MATCH_VALID(matching))
__CPROVER_requires(nix_exc == EXC_NONE)
__CPROVER_requires(__CPROVER_is_fresh(ticks, sizeof(*ticks)) && ticks->n <= VEC_MAX)
__CPROVER_requires(__CPROVER_is_fresh(ticks->data, (ticks->n ? ticks->n : 1) * sizeof(double)))
/* instances of "strictly ascending" (by transitivity): x_0 <= x_k <= x_{n-1} */
__CPROVER_requires((ghost_ticks_ascending && ghost_k < ticks->n) ==> (RAX(ticks, 0) <= RAX(ticks, ghost_k) && RAX(ticks, ghost_k) <= RAX(ticks, ticks->n - 1)))
__CPROVER_requires((ghost_ticks_ascending && ticks->n > 0) ==> (RAX(ticks, 0) == RAX(ticks, 0) && RAX(ticks, ticks->n - 1) == RAX(ticks, ticks->n - 1)))
#ifdef NIX_WITNESS   /* replay only: arrays of at most 4 elements mirrored into globals the harness assigns */
__CPROVER_requires(ticks->n == g_wn && g_wn <= 4 && ghost_ticks_ascending)
__CPROVER_requires((g_wn > 0 ==> RAX(ticks, 0) == g_w0) && (g_wn > 1 ==> RAX(ticks, 1) == g_w1) && (g_wn > 2 ==> RAX(ticks, 2) == g_w2) && (g_wn > 3 ==> RAX(ticks, 3) == g_w3))
#endif
__CPROVER_ensures(/*in-range*/ __CPROVER_return_value.has ==> __CPROVER_return_value.val < ticks->n)
__CPROVER_ensures(/*LessOrEqual-sound*/ (RAX_F(position) && matching == PositionMatch_LessOrEqual && __CPROVER_return_value.has) ==> RAX(ticks, __CPROVER_return_value.val) <= position)
__CPROVER_ensures(/*LessOrEqual-largest*/ (RAX_F(position) && matching == PositionMatch_LessOrEqual && ghost_k < ticks->n && RAX(ticks, ghost_k) <= position) ==> (__CPROVER_return_value.has && ghost_k <= __CPROVER_return_value.val))
__CPROVER_ensures(/*Less-sound*/ (RAX_F(position) && matching == PositionMatch_Less && __CPROVER_return_value.has) ==> RAX(ticks, __CPROVER_return_value.val) < position)
__CPROVER_ensures(/*Less-largest*/ (RAX_F(position) && matching == PositionMatch_Less && ghost_k < ticks->n && RAX(ticks, ghost_k) < position) ==> (__CPROVER_return_value.has && ghost_k <= __CPROVER_return_value.val))
__CPROVER_ensures(/*GreaterOrEqual-sound*/ (RAX_F(position) && matching == PositionMatch_GreaterOrEqual && __CPROVER_return_value.has) ==> RAX(ticks, __CPROVER_return_value.val) >= position)
__CPROVER_ensures(/*GreaterOrEqual-smallest*/ (RAX_F(position) && matching == PositionMatch_GreaterOrEqual && ghost_k < ticks->n && RAX(ticks, ghost_k) >= position) ==> (__CPROVER_return_value.has && __CPROVER_return_value.val <= ghost_k))
__CPROVER_ensures(/*Greater-sound*/ (RAX_F(position) && matching == PositionMatch_Greater && __CPROVER_return_value.has) ==> RAX(ticks, __CPROVER_return_value.val) > position)
__CPROVER_ensures(/*Greater-smallest*/ (RAX_F(position) && matching == PositionMatch_Greater && ghost_k < ticks->n && RAX(ticks, ghost_k) > position) ==> (__CPROVER_return_value.has && __CPROVER_return_value.val <= ghost_k))
__CPROVER_ensures(/*Equal-sound*/ (RAX_F(position) && matching == PositionMatch_Equal && __CPROVER_return_value.has) ==> RAX(ticks, __CPROVER_return_value.val) == position)
__CPROVER_ensures(/*Equal-found*/ (RAX_F(position) && matching == PositionMatch_Equal && ghost_k < ticks->n && RAX(ticks, ghost_k) == position) ==> (__CPROVER_return_value.has && __CPROVER_return_value.val == ghost_k))
__CPROVER_ensures(/*no-exception*/ nix_exc == EXC_NONE)
#ifdef NIX_ENFORCE_getIndex
__CPROVER_ensures(/*COVER-asc-LE-has*/ !(RAX_F(position) && matching == PositionMatch_LessOrEqual && __CPROVER_return_value.has && ticks->n > 2))
__CPROVER_ensures(/*COVER-asc-LE-none*/ !(RAX_F(position) && matching == PositionMatch_LessOrEqual && !__CPROVER_return_value.has && ticks->n > 2))
__CPROVER_ensures(/*COVER-asc-Less-has*/ !(RAX_F(position) && matching == PositionMatch_Less && __CPROVER_return_value.has && ticks->n > 2))
__CPROVER_ensures(/*COVER-asc-GE-has*/ !(RAX_F(position) && matching == PositionMatch_GreaterOrEqual && __CPROVER_return_value.has && __CPROVER_return_value.val > 1))
__CPROVER_ensures(/*COVER-asc-GE-none*/ !(RAX_F(position) && matching == PositionMatch_GreaterOrEqual && !__CPROVER_return_value.has && ticks->n > 2))
__CPROVER_ensures(/*COVER-asc-Greater-has*/ !(RAX_F(position) && matching == PositionMatch_Greater && __CPROVER_return_value.has && __CPROVER_return_value.val > 1))
__CPROVER_ensures(/*COVER-asc-Equal-has*/ !(RAX_F(position) && matching == PositionMatch_Equal && __CPROVER_return_value.has && __CPROVER_return_value.val > 1))
__CPROVER_ensures(/*COVER-asc-k-below*/ !(RAX_F(position) && ghost_k < ticks->n && __CPROVER_return_value.has && ghost_k < __CPROVER_return_value.val))
__CPROVER_ensures(/*COVER-asc-k-above*/ !(RAX_F(position) && ghost_k < ticks->n && __CPROVER_return_value.has && ghost_k > __CPROVER_return_value.val))
__CPROVER_ensures(/*COVER-unsorted*/ !(!ghost_ticks_ascending && ticks->n > 2 && ticks->data[0] > ticks->data[1]))
#endif
NIX_CANARY(getIndex) __CPROVER_assigns()
;

/* ---- sampled axis: x_i = (double)i * interval + offset  (= SampledDimension::positionAt) ----
   interval and offset are the constants of one grid point (-DS_INT=..., -DS_OFF=...); the position is
   symbolic over [x_0 - 10*interval, x_0 + 10001*interval].  Clauses are in local form (DESIGN 7, C07). */
#ifdef S_INT
#define SAX(i) ((double)(i) * (S_INT) + (S_OFF))
#define SAX_DOM(p) ((p) >= (S_OFF) - 10 * (S_INT) && (p) <= (S_OFF) + 10001 * (S_INT))
#else
#define SAX(i) 0.0
#define SAX_DOM(p) 0
#define S_INT 1.0
#define S_OFF 0.0
#endif
#define SRV __CPROVER_return_value
opt_ndsize getSampledIndex(const double position, const double offset, const double sampling_interval, const PositionMatch match)
__CPROVER_requires(MATCH_VALID(match))
__CPROVER_requires(nix_exc == EXC_NONE)
__CPROVER_requires(sampling_interval == (S_INT) && offset == (S_OFF))
#ifndef SAX_SAFETY_ONLY
__CPROVER_requires(SAX_DOM(position))
#endif
#ifdef SAX_MATCH
__CPROVER_requires(match == SAX_MATCH)
#endif
#ifdef SAX_LO
__CPROVER_requires(position >= (S_OFF) + (SAX_LO) * (S_INT) && position <= (S_OFF) + (SAX_HI) * (S_INT))
#endif
#ifndef SAX_SAFETY_ONLY
__CPROVER_ensures(/*LessOrEqual-exists*/ match == PositionMatch_LessOrEqual ==> ((SRV.has != 0) <==> SAX(0) <= position))
__CPROVER_ensures(/*LessOrEqual-sound*/ (match == PositionMatch_LessOrEqual && SRV.has) ==> SAX(SRV.val) <= position)
__CPROVER_ensures(/*LessOrEqual-largest*/ (match == PositionMatch_LessOrEqual && SRV.has) ==> position < SAX(SRV.val + 1))
__CPROVER_ensures(/*Less-exists*/ match == PositionMatch_Less ==> ((SRV.has != 0) <==> SAX(0) < position))
__CPROVER_ensures(/*Less-sound*/ (match == PositionMatch_Less && SRV.has) ==> SAX(SRV.val) < position)
__CPROVER_ensures(/*Less-largest*/ (match == PositionMatch_Less && SRV.has) ==> position <= SAX(SRV.val + 1))
__CPROVER_ensures(/*GreaterOrEqual-exists*/ match == PositionMatch_GreaterOrEqual ==> SRV.has)
__CPROVER_ensures(/*GreaterOrEqual-sound*/ (match == PositionMatch_GreaterOrEqual && SRV.has) ==> SAX(SRV.val) >= position)
__CPROVER_ensures(/*GreaterOrEqual-smallest*/ (match == PositionMatch_GreaterOrEqual && SRV.has && SRV.val > 0) ==> SAX(SRV.val - 1) < position)
__CPROVER_ensures(/*Greater-exists*/ match == PositionMatch_Greater ==> SRV.has)
__CPROVER_ensures(/*Greater-sound*/ (match == PositionMatch_Greater && SRV.has) ==> SAX(SRV.val) > position)
__CPROVER_ensures(/*Greater-smallest*/ (match == PositionMatch_Greater && SRV.has && SRV.val > 0) ==> SAX(SRV.val - 1) <= position)
__CPROVER_ensures(/*Equal-sound*/ (match == PositionMatch_Equal && SRV.has) ==> SAX(SRV.val) == position)
__CPROVER_ensures(/*Equal-found*/ (match == PositionMatch_Equal && ghost_k <= 10012 && SAX(ghost_k) == position) ==> (SRV.has && SRV.val == ghost_k))
#endif
__CPROVER_ensures(/*no-exception*/ nix_exc == EXC_NONE)
#ifdef NIX_ENFORCE_getSampledIndex
#ifndef SAX_MATCH
#define SAX_MATCH_IS(M) (match == M)
#else
#define SAX_MATCH_IS(M) (SAX_MATCH == M)
#endif
__CPROVER_ensures(/*COVER-has*/ !(SRV.has && SRV.val >= 1))
#if !defined(SAX_LO) || (SAX_LO < 0)
__CPROVER_ensures(/*COVER-before-first*/ !(position < (S_OFF)))
#endif
#endif
NIX_CANARY(getSampledIndex) __CPROVER_assigns()
;

#endif
