/* C03 (and C04): queries and deletions BY HANDLE.  "the lookup by name, the lookup by id ..., the has-queries (by name, id or
   handle) ... all agree": a by-handle query is the by-id query for the handle's id - an unusable handle (none / invalid)
   answers false without touching the back end; otherwise the back end is asked exactly once, with the handle's ID as key
   (not its name: names are unique per parent only, ids file-wide), and its answer is returned. */
#ifndef C03_HANDLE_H
#define C03_HANDLE_H
#define RV __CPROVER_return_value
#define H_WF(h) (((h)->is_none == 0 || (h)->is_none == 1) && ((h)->valid == 0 || (h)->valid == 1) && NSTR_WF(&(h)->id) && NSTR_WF(&(h)->name) && (h)->id.id != (h)->name.id)
#define H_USABLE(h) ((h)->is_none == 0 && (h)->valid == 1)
extern bool gh_delete_answer;
static inline bool Block_bool(const Block *h)
{ return h->is_none == 0; }
static inline bool Block_isNone(const Block *h)
{ return h->is_none != 0; }
static inline bool Block_isValidEntity(const Block *h)
{ return h->valid != 0; }
static inline nstring Block_id(const Block *h)
{ return h->id; }
static inline nstring Block_name(const Block *h)
{ return h->name; }
static inline bool checkEntityInput_Block(const Block *entity, bool raise_exception)
{ if (entity->is_none == 0 && entity->valid != 0) return true; __CPROVER_assert(!raise_exception, "by-handle queries never raise"); return false; }
static inline bool Source_bool(const Source *h)
{ return h->is_none == 0; }
static inline bool Source_isNone(const Source *h)
{ return h->is_none != 0; }
static inline bool Source_isValidEntity(const Source *h)
{ return h->valid != 0; }
static inline nstring Source_id(const Source *h)
{ return h->id; }
static inline nstring Source_name(const Source *h)
{ return h->name; }
static inline bool checkEntityInput_Source(const Source *entity, bool raise_exception)
{ if (entity->is_none == 0 && entity->valid != 0) return true; __CPROVER_assert(!raise_exception, "by-handle queries never raise"); return false; }
static inline bool Section_bool(const Section *h)
{ return h->is_none == 0; }
static inline bool Section_isNone(const Section *h)
{ return h->is_none != 0; }
static inline bool Section_isValidEntity(const Section *h)
{ return h->valid != 0; }
static inline nstring Section_id(const Section *h)
{ return h->id; }
static inline nstring Section_name(const Section *h)
{ return h->name; }
static inline bool checkEntityInput_Section(const Section *entity, bool raise_exception)
{ if (entity->is_none == 0 && entity->valid != 0) return true; __CPROVER_assert(!raise_exception, "by-handle queries never raise"); return false; }
static inline bool Property_bool(const Property *h)
{ return h->is_none == 0; }
static inline bool Property_isNone(const Property *h)
{ return h->is_none != 0; }
static inline bool Property_isValidEntity(const Property *h)
{ return h->valid != 0; }
static inline nstring Property_id(const Property *h)
{ return h->id; }
static inline nstring Property_name(const Property *h)
{ return h->name; }
static inline bool checkEntityInput_Property(const Property *entity, bool raise_exception)
{ if (entity->is_none == 0 && entity->valid != 0) return true; __CPROVER_assert(!raise_exception, "by-handle queries never raise"); return false; }
static inline bool File_backend_deleteBlock(const File *self, nstring name_or_id)
{ __CPROVER_assert(NSTR_WF(&name_or_id), "string id in range"); gh_deletes++; gh_key_id = name_or_id.id; return gh_delete_answer; }
static inline bool File_deleteSection_key(const File *self, nstring name_or_id)
{ __CPROVER_assert(NSTR_WF(&name_or_id), "string id in range"); gh_deletes++; gh_key_id = name_or_id.id; return gh_delete_answer; }
static inline bool Block_backend_deleteSource(const Block *self, nstring name_or_id)
{ __CPROVER_assert(NSTR_WF(&name_or_id), "string id in range"); gh_deletes++; gh_key_id = name_or_id.id; return gh_delete_answer; }
static inline bool Source_backend_deleteSource(const Source *self, nstring name_or_id)
{ __CPROVER_assert(NSTR_WF(&name_or_id), "string id in range"); gh_deletes++; gh_key_id = name_or_id.id; return gh_delete_answer; }
static inline bool Section_backend_deleteSection(const Section *self, nstring name_or_id)
{ __CPROVER_assert(NSTR_WF(&name_or_id), "string id in range"); gh_deletes++; gh_key_id = name_or_id.id; return gh_delete_answer; }
static inline bool Section_backend_deleteProperty(const Section *self, nstring name_or_id)
{ __CPROVER_assert(NSTR_WF(&name_or_id), "string id in range"); gh_deletes++; gh_key_id = name_or_id.id; return gh_delete_answer; }
#define BYH_PRE(Cls, Arg, arg) __CPROVER_requires(__CPROVER_is_fresh(self, sizeof(Cls)) && __CPROVER_is_fresh(arg, sizeof(Arg)) && H_WF(arg) && nix_exc == EXC_NONE && gh_has_queries == 0 && gh_deletes == 0)
#define HAS_POST(arg) \
  __CPROVER_ensures(/*unusable-handle-answers-false-without-asking*/ !H_USABLE(arg) ==> (!RV && gh_has_queries == 0)) \
  __CPROVER_ensures(/*usable-handle-is-looked-up-by-its-id*/ H_USABLE(arg) ==> (gh_has_queries == 1 && gh_key_id == (arg)->id.id && RV == gh_exists[(arg)->id.id])) \
  __CPROVER_ensures(/*a-query-deletes-nothing-and-never-throws*/ gh_deletes == 0 && nix_exc == EXC_NONE)
#define DEL_POST(arg) \
  __CPROVER_ensures(/*unusable-handle-deletes-nothing*/ !H_USABLE(arg) ==> (!RV && gh_deletes == 0)) \
  __CPROVER_ensures(/*usable-handle-is-deleted-by-its-id*/ H_USABLE(arg) ==> (gh_deletes == 1 && gh_key_id == (arg)->id.id && RV == gh_delete_answer)) \
  __CPROVER_ensures(/*never-throws*/ nix_exc == EXC_NONE)
#define BYH_ASSIGNS __CPROVER_assigns(nix_exc, gh_has_queries, gh_deletes, gh_key_id)
bool File_hasBlock_h(const File *self, const Block *block)
BYH_PRE(File, Block, block)
HAS_POST(block)
NIX_CANARY(File_hasBlock_h) BYH_ASSIGNS
;
bool File_deleteBlock_h(File *self, const Block *block)
BYH_PRE(File, Block, block)
DEL_POST(block)
NIX_CANARY(File_deleteBlock_h) BYH_ASSIGNS
;
bool File_hasSection_h(const File *self, const Section *section)
BYH_PRE(File, Section, section)
HAS_POST(section)
NIX_CANARY(File_hasSection_h) BYH_ASSIGNS
;
bool File_deleteSection_h(File *self, const Section *section)
BYH_PRE(File, Section, section)
DEL_POST(section)
NIX_CANARY(File_deleteSection_h) BYH_ASSIGNS
;
bool Block_deleteSource_h(Block *self, const Source *source)
BYH_PRE(Block, Source, source)
DEL_POST(source)
NIX_CANARY(Block_deleteSource_h) BYH_ASSIGNS
;
bool Source_hasSource_h(const Source *self, const Source *source)
BYH_PRE(Source, Source, source)
HAS_POST(source)
NIX_CANARY(Source_hasSource_h) BYH_ASSIGNS
;
bool Source_deleteSource_h(Source *self, const Source *source)
BYH_PRE(Source, Source, source)
DEL_POST(source)
NIX_CANARY(Source_deleteSource_h) BYH_ASSIGNS
;
bool Section_hasSection_h(const Section *self, const Section *section)
BYH_PRE(Section, Section, section)
HAS_POST(section)
NIX_CANARY(Section_hasSection_h) BYH_ASSIGNS
;
bool Section_deleteSection_h(Section *self, const Section *section)
BYH_PRE(Section, Section, section)
DEL_POST(section)
NIX_CANARY(Section_deleteSection_h) BYH_ASSIGNS
;
bool Section_hasProperty_h(const Section *self, const Property *property)
BYH_PRE(Section, Property, property)
HAS_POST(property)
NIX_CANARY(Section_hasProperty_h) BYH_ASSIGNS
;
bool Section_deleteProperty_h(Section *self, const Property *property)
BYH_PRE(Section, Property, property)
DEL_POST(property)
NIX_CANARY(Section_deleteProperty_h) BYH_ASSIGNS
;
#undef RV
#endif
