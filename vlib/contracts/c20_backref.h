/* C20: the back-reference queries of src/Source.cpp and src/Section.cpp.
   "... and the back-reference queries (blocks, arrays, tags, multi-tags and sources that use a section as metadata; arrays, tags and
   multi-tags that are attached to a source; the parent source) return exactly the entities whose link points there."
   Each query is one call into the parent block / file with a filter object.  Decided here: WHICH container is asked (the entity's own
   parent), with WHICH enumeration (arrays / tags / multi-tags / sources searched through the whole tree / blocks), with which KIND of
   filter (attached-source / metadata) keyed by WHAT (this entity's ID - ids are file-wide unique, names only per parent), exactly once,
   and that the answer is handed back unchanged (parentSource: its first element, or none).  The filters themselves
   (util::SourceFilter / MetadataFilter: e.hasSource(key) / e.metadata().id() == key) are units of their own below.
   Strings are abstract ids; the enumeration of the container with a filter (Block::dataArrays(filter), ...) is ASSUMED to return exactly
   the entities the filter accepts (getEntities in include/nix/base/Entity.hpp, not under contract). */
#ifndef C20_BACKREF_H
#define C20_BACKREF_H
#define RV __CPROVER_return_value
typedef struct { int id; } nstring;
typedef struct { int is_none; nstring id; nstring name; int tag; nstring md_id; int md_none; int has_src_key; int has_src_answer; } Ent;   /* any entity handle */
typedef Ent Source; typedef Ent Section; typedef Ent Block; typedef Ent File; typedef Ent DataArray; typedef Ent Tag; typedef Ent MultiTag;
typedef struct { Ent *data; size_t n; } vec_Ent;
typedef vec_Ent vec_Source; typedef vec_Ent vec_DataArray; typedef vec_Ent vec_Tag; typedef vec_Ent vec_MultiTag; typedef vec_Ent vec_Block;
typedef enum { F_NONE = 0, F_SOURCE = 1, F_METADATA = 2 } filter_kind;
typedef struct { filter_kind kind; nstring key; } EntFilter;
typedef enum { Q_NONE = 0, Q_dataArrays, Q_tags, Q_multiTags, Q_sources, Q_findSources, Q_blocks } query_kind;
#define PARENT_TAG 77
extern int gh_q_calls, gh_q_container, gh_parent_calls; extern query_kind gh_q_kind; extern EntFilter gh_q_filter; extern vec_Ent gh_answer;
static inline EntFilter mk_SourceFilter(nstring key)
{ EntFilter f; f.kind = F_SOURCE; f.key = key; return f; }
static inline EntFilter mk_MetadataFilter(nstring key)
{ EntFilter f; f.kind = F_METADATA; f.key = key; return f; }
static inline nstring Source_id(const Ent *e)
{ return e->id; }
static inline nstring Source_name(const Ent *e)
{ return e->name; }
static inline nstring Section_id(const Ent *e)
{ return e->id; }
static inline nstring Section_name(const Ent *e)
{ return e->name; }
static inline bool Block_bool(const Ent *e)
{ return e->is_none == 0; }
static inline Ent Source_default(void)
{ Ent e; e.is_none = 1; e.id.id = 0; e.name.id = 0; e.tag = 0; e.md_id.id = 0; e.md_none = 1; e.has_src_key = 0; e.has_src_answer = 0; return e; }
static inline Block Source_backend_parentBlock(const Ent *self)
{ Ent b = Source_default(); b.is_none = 0; b.tag = PARENT_TAG; gh_parent_calls++; return b; }
static inline File Section_backend_parentFile(const Ent *self)
{ Ent b = Source_default(); b.is_none = 0; b.tag = PARENT_TAG; gh_parent_calls++; return b; }
static inline vec_Ent c20_query(const Ent *container, query_kind k, EntFilter f)
{ gh_q_calls++; gh_q_container = container->tag; gh_q_kind = k; gh_q_filter = f; return gh_answer; }
static inline vec_Ent Block_dataArrays(const Block *b, EntFilter f)
{ return c20_query(b, Q_dataArrays, f); }
static inline vec_Ent Block_tags(const Block *b, EntFilter f)
{ return c20_query(b, Q_tags, f); }
static inline vec_Ent Block_multiTags(const Block *b, EntFilter f)
{ return c20_query(b, Q_multiTags, f); }
static inline vec_Ent Block_sources(const Block *b, EntFilter f)
{ return c20_query(b, Q_sources, f); }
static inline vec_Ent Block_findSources(const Block *b, EntFilter f)
{ return c20_query(b, Q_findSources, f); }
static inline vec_Ent File_blocks(const File *b, EntFilter f)
{ return c20_query(b, Q_blocks, f); }
#define BR_PRE(self) (__CPROVER_is_fresh(self, sizeof(Ent)) && (self)->is_none == 0 && (self)->id.id != (self)->name.id && (self)->id.id > 0 && (self)->name.id > 0 && \
                      gh_q_calls == 0 && gh_parent_calls == 0 && gh_answer.n <= 4 && __CPROVER_is_fresh(gh_answer.data, 4 * sizeof(Ent)) && nix_exc == EXC_NONE)
#define BR_ASKED(self, qk, fk) (gh_q_calls == 1 && gh_q_container == PARENT_TAG && gh_q_kind == (qk) && gh_q_filter.kind == (fk) && gh_q_filter.key.id == (self)->id.id)
#define BR_ANSWER (RV.n == gh_answer.n && RV.data == gh_answer.data)
#define BR_ASSIGNS nix_exc, gh_q_calls, gh_q_container, gh_q_kind, gh_q_filter, gh_parent_calls
vec_DataArray Source_referringDataArrays(const Source *self)
__CPROVER_requires(BR_PRE(self))
__CPROVER_ensures(/*the-own-parent-is-asked-once-for-that-kind-with-the-filter-keyed-by-this-entity-s-id*/ BR_ASKED(self, Q_dataArrays, F_SOURCE))
__CPROVER_ensures(/*the-answer-is-returned-unchanged*/ BR_ANSWER && nix_exc == EXC_NONE)
NIX_CANARY(Source_referringDataArrays) __CPROVER_assigns(BR_ASSIGNS)
;
vec_Tag Source_referringTags(const Source *self)
__CPROVER_requires(BR_PRE(self))
__CPROVER_ensures(/*the-own-parent-is-asked-once-for-that-kind-with-the-filter-keyed-by-this-entity-s-id*/ BR_ASKED(self, Q_tags, F_SOURCE))
__CPROVER_ensures(/*the-answer-is-returned-unchanged*/ BR_ANSWER && nix_exc == EXC_NONE)
NIX_CANARY(Source_referringTags) __CPROVER_assigns(BR_ASSIGNS)
;
vec_MultiTag Source_referringMultiTags(const Source *self)
__CPROVER_requires(BR_PRE(self))
__CPROVER_ensures(/*the-own-parent-is-asked-once-for-that-kind-with-the-filter-keyed-by-this-entity-s-id*/ BR_ASKED(self, Q_multiTags, F_SOURCE))
__CPROVER_ensures(/*the-answer-is-returned-unchanged*/ BR_ANSWER && nix_exc == EXC_NONE)
NIX_CANARY(Source_referringMultiTags) __CPROVER_assigns(BR_ASSIGNS)
;
/* the parent source: the (first) source of the block's whole source tree that has THIS source (by id) among its children */
Source Source_parentSource(const Source *self)
__CPROVER_requires(BR_PRE(self))
__CPROVER_ensures(/*the-whole-source-tree-of-the-own-block-is-searched-for-the-holder-of-this-source-s-id*/ BR_ASKED(self, Q_findSources, F_SOURCE))
__CPROVER_ensures(/*the-first-holder-or-none*/ gh_answer.n > 0 ? (RV.is_none == gh_answer.data[0].is_none && RV.id.id == gh_answer.data[0].id.id) : RV.is_none != 0)
NIX_CANARY(Source_parentSource) __CPROVER_assigns(BR_ASSIGNS)
;
vec_Block Section_referringBlocks(const Section *self)
__CPROVER_requires(BR_PRE(self))
__CPROVER_ensures(/*the-own-parent-is-asked-once-for-that-kind-with-the-filter-keyed-by-this-entity-s-id*/ BR_ASKED(self, Q_blocks, F_METADATA))
__CPROVER_ensures(/*the-answer-is-returned-unchanged*/ BR_ANSWER && nix_exc == EXC_NONE)
NIX_CANARY(Section_referringBlocks) __CPROVER_assigns(BR_ASSIGNS)
;
/* the per-block variants: a none block answers nothing and is not asked */
#define BRB_PRE(self, b) (BR_PRE(self) && __CPROVER_is_fresh(b, sizeof(Ent)) && ((b)->is_none == 0 || (b)->is_none == 1) && (b)->tag == PARENT_TAG)
#define BRB_POST(self, b, qk) ((b)->is_none ? (gh_q_calls == 0 && RV.n == 0) : (BR_ASKED(self, qk, F_METADATA) && BR_ANSWER))
vec_DataArray Section_referringDataArrays_b(const Section *self, const Block *b)
__CPROVER_requires(BRB_PRE(self, b))
__CPROVER_ensures(/*the-given-block-is-asked-once-with-the-metadata-filter-keyed-by-this-section-s-id-and-a-none-block-is-not-asked*/ BRB_POST(self, b, Q_dataArrays))
NIX_CANARY(Section_referringDataArrays_b) __CPROVER_assigns(BR_ASSIGNS)
;
vec_Tag Section_referringTags_b(const Section *self, const Block *b)
__CPROVER_requires(BRB_PRE(self, b))
__CPROVER_ensures(/*the-given-block-is-asked-once-with-the-metadata-filter-keyed-by-this-section-s-id-and-a-none-block-is-not-asked*/ BRB_POST(self, b, Q_tags))
NIX_CANARY(Section_referringTags_b) __CPROVER_assigns(BR_ASSIGNS)
;
vec_MultiTag Section_referringMultiTags_b(const Section *self, const Block *b)
__CPROVER_requires(BRB_PRE(self, b))
__CPROVER_ensures(/*the-given-block-is-asked-once-with-the-metadata-filter-keyed-by-this-section-s-id-and-a-none-block-is-not-asked*/ BRB_POST(self, b, Q_multiTags))
NIX_CANARY(Section_referringMultiTags_b) __CPROVER_assigns(BR_ASSIGNS)
;
vec_Source Section_referringSources_b(const Section *self, const Block *b)
__CPROVER_requires(BRB_PRE(self, b))
__CPROVER_ensures(/*the-given-block-is-asked-once-with-the-metadata-filter-keyed-by-this-section-s-id-and-a-none-block-is-not-asked*/ BRB_POST(self, b, Q_findSources))
NIX_CANARY(Section_referringSources_b) __CPROVER_assigns(BR_ASSIGNS)
;
/* the file-wide variants Section::referringDataArrays() / Tags() / MultiTags() / Sources(): the body of their loop over the blocks of the file (region units):
   for each block the per-block query above is asked exactly once, for THAT block, and its answer is appended to the result. */
typedef struct { int serial; size_t n; } vec_EntA;
extern int gh_fw_calls, gh_fw_block, gh_fw_kind, gh_fw_appends, gh_fw_append_serial;
#define FW_SERIAL 64
static inline vec_EntA fw_query(const Ent *self, const Ent *b, int kind)
{ gh_fw_calls++; gh_fw_block = b->tag; gh_fw_kind = kind; vec_EntA v; v.serial = FW_SERIAL; v.n = 0; return v; }
static inline vec_EntA Section_referringDataArrays_blk(const Ent *self, const Ent *b)
{ return fw_query(self, b, Q_dataArrays); }
static inline vec_EntA Section_referringTags_blk(const Ent *self, const Ent *b)
{ return fw_query(self, b, Q_tags); }
static inline vec_EntA Section_referringMultiTags_blk(const Ent *self, const Ent *b)
{ return fw_query(self, b, Q_multiTags); }
static inline vec_EntA Section_referringSources_blk(const Ent *self, const Ent *b)
{ return fw_query(self, b, Q_findSources); }
static inline void vec_Ent_append(vec_Ent *dst, const vec_EntA *src)
{ gh_fw_appends++; gh_fw_append_serial = src->serial; }
#define FW_PRE(res) (__CPROVER_is_fresh(self, sizeof(Ent)) && __CPROVER_is_fresh(b, sizeof(Ent)) && __CPROVER_is_fresh(res, sizeof(vec_Ent)) && gh_fw_calls == 0 && gh_fw_appends == 0 && nix_exc == EXC_NONE)
#define FW_POST(kind) __CPROVER_ensures(/*the-per-block-query-of-that-kind-is-asked-once-for-that-block-and-its-answer-appended*/ gh_fw_calls == 1 && gh_fw_block == b->tag && gh_fw_kind == (kind) && \
                                        gh_fw_appends == 1 && gh_fw_append_serial == FW_SERIAL && nix_exc == EXC_NONE)
#define FW_ASSIGNS nix_exc, gh_fw_calls, gh_fw_block, gh_fw_kind, gh_fw_appends, gh_fw_append_serial
void section_filewide_arrays(const Section *self, Block *b, vec_DataArray *arrays)
__CPROVER_requires(FW_PRE(arrays))
FW_POST(Q_dataArrays)
NIX_CANARY(section_filewide_arrays) __CPROVER_assigns(FW_ASSIGNS)
;
void section_filewide_tags(const Section *self, Block *b, vec_Tag *tags)
__CPROVER_requires(FW_PRE(tags))
FW_POST(Q_tags)
NIX_CANARY(section_filewide_tags) __CPROVER_assigns(FW_ASSIGNS)
;
void section_filewide_mtags(const Section *self, Block *b, vec_MultiTag *tags)
__CPROVER_requires(FW_PRE(tags))
FW_POST(Q_multiTags)
NIX_CANARY(section_filewide_mtags) __CPROVER_assigns(FW_ASSIGNS)
;
void section_filewide_sources(const Section *self, Block *b, vec_Source *srcs)
__CPROVER_requires(FW_PRE(srcs))
FW_POST(Q_findSources)
NIX_CANARY(section_filewide_sources) __CPROVER_assigns(FW_ASSIGNS)
;
#undef RV
#endif
