/* C03: H5Group::objectName(index) (backend/hdf5/h5x/H5Group.cpp) - the lookup every "entity number i" ends in.
   "Index order is creation order, and the relative order of the surviving entities is unchanged by deleting others and by closing and reopening":
   libhdf5 offers several orders; the one that has this property is the CREATION-ORDER index traversed INCREASING.  Decided: an index beyond the
   number of objects raises OutOfBounds without asking libhdf5; otherwise the first question to libhdf5 is (H5_INDEX_CRT_ORDER, H5_ITER_INC, index);
   only if that lookup FAILS (a group without creation-order tracking) the name index is used instead; the characters are then fetched with the
   same index type, order and index as the successful length query, into a buffer of exactly length + 1 bytes, and that string is returned;
   no name (length 0) raises.  H5Lget_name_by_idx is a ghost (ASSUMED: it reports the link in the order it is asked for). */
#ifndef C03_INDEX_H
#define C03_INDEX_H
#define RV __CPROVER_return_value
typedef struct { int id; } nstring;
typedef struct { long hid; ndsize_t count; } H5Group;
typedef long ssize_t_;
typedef enum { H5_INDEX_UNKNOWN = -1, H5_INDEX_NAME = 0, H5_INDEX_CRT_ORDER = 1 } H5_index_t;
typedef enum { H5_ITER_UNKNOWN = -1, H5_ITER_INC = 0, H5_ITER_DEC = 1, H5_ITER_NATIVE = 2 } H5_iter_order_t;
typedef unsigned long long hsize_t;
#define H5P_DEFAULT 0
#define ssize_t long
#define NAME_CRT 11      /* the string libhdf5 writes for a creation-order lookup */
#define NAME_ALPHA 22    /* ... for a name-index lookup */
extern long gh_len_crt, gh_len_alpha;        /* inputs: what libhdf5 answers to a length query in creation order / in name order (< 0: the lookup fails) */
extern int gh_calls, gh_first_type, gh_first_order, gh_fetch_type, gh_fetch_order, gh_fetches, gh_written; extern hsize_t gh_first_index, gh_fetch_index; extern size_t gh_fetch_size;
static inline ndsize_t H5Group_objectCount(const H5Group *g)
{ return g->count; }
static inline long H5Lget_name_by_idx(long loc, const char *group, H5_index_t type, H5_iter_order_t order, hsize_t n, char *name, size_t size, long lapl)
{ long len = (type == H5_INDEX_CRT_ORDER && order == H5_ITER_INC) ? gh_len_crt : gh_len_alpha;
  if (gh_calls == 0) { gh_first_type = type; gh_first_order = order; gh_first_index = n; }
  gh_calls++;
  if (name != NULL) { __CPROVER_assert(len >= 0 && size == (size_t)len + 1 && __CPROVER_w_ok(name, size), "the characters are fetched into a buffer of exactly length + 1 bytes");
                      gh_fetches++; gh_fetch_type = type; gh_fetch_order = order; gh_fetch_index = n; gh_fetch_size = size; gh_written = (type == H5_INDEX_CRT_ORDER && order == H5_ITER_INC) ? NAME_CRT : NAME_ALPHA; }
  return len; }
static inline nstring nstring_default(void)
{ nstring s; s.id = 0; return s; }
static inline void nstring_assign_cstr(nstring *s, const char *p)
{ __CPROVER_assert(p != NULL, "std::string is never assigned a null pointer"); s->id = gh_written; }
#define IX_CRT_OK (gh_len_crt >= 0)
NIX_THROWS nstring H5Group_objectName(const H5Group *self, ndsize_t index)
__CPROVER_requires(__CPROVER_is_fresh(self, sizeof(H5Group)) && gh_calls == 0 && gh_fetches == 0 && gh_written == 0 && gh_len_crt < 4096 && gh_len_alpha < 4096 && nix_exc == EXC_NONE)
__CPROVER_ensures(/*an-index-beyond-the-number-of-objects-raises-without-asking*/ index > self->count ==> (nix_exc == EXC_OutOfBounds && gh_calls == 0))
__CPROVER_ensures(/*the-first-question-is-the-creation-order-index-traversed-increasing*/ index <= self->count ==> (gh_calls >= 1 && gh_first_type == H5_INDEX_CRT_ORDER && gh_first_order == H5_ITER_INC && gh_first_index == index))
__CPROVER_ensures(/*creation-order-answer-is-returned-whenever-that-lookup-succeeds*/ (index <= self->count && gh_len_crt > 0) ==> (nix_exc == EXC_NONE && RV.id == NAME_CRT && gh_fetches == 1 &&
                  gh_fetch_type == H5_INDEX_CRT_ORDER && gh_fetch_order == H5_ITER_INC && gh_fetch_index == index))
__CPROVER_ensures(/*name-order-only-when-the-creation-order-lookup-fails*/ (index <= self->count && gh_len_crt < 0 && gh_len_alpha > 0) ==> (nix_exc == EXC_NONE && RV.id == NAME_ALPHA && gh_fetches == 1 && gh_fetch_type == H5_INDEX_NAME && gh_fetch_index == index))
__CPROVER_ensures(/*no-name-raises*/ (index <= self->count && (gh_len_crt == 0 || (gh_len_crt < 0 && gh_len_alpha <= 0))) ==> (nix_exc == EXC_H5Exception && gh_fetches == 0))
NIX_CANARY(H5Group_objectName) __CPROVER_assigns(nix_exc, gh_calls, gh_first_type, gh_first_order, gh_first_index, gh_fetches, gh_fetch_type, gh_fetch_order, gh_fetch_index, gh_fetch_size, gh_written)
;
#undef RV
#endif
