/* C01: DataArray::appendData (src/DataArray.cpp): "append = grow extent along axis then write at old end".
   The back end (extent, element transfer) is a ghost record; what HDF5 stores and returns is not covered. */
#ifndef C01_APPEND_H
#define C01_APPEND_H
#define RV __CPROVER_return_value
typedef struct { NDSize extent; } DataArrayA;                         /* front-end handle: current extent */
extern int gh_extent_sets, gh_writes; extern int gh_writes_at_extent_set;
extern size_t gh_set_rank, gh_w_count_rank, gh_w_offset_rank; extern ndsize_t gh_set_k, gh_w_count_k, gh_w_offset_k;
static inline NDSize DataArrayA_dataExtent_get(const DataArrayA *self)
{ return NDSize_copy(&self->extent); }
static inline void DataArrayA_dataExtent_set(DataArrayA *self, const NDSize *e)
{ gh_extent_sets++; gh_writes_at_extent_set = gh_writes; gh_set_rank = e->rank; gh_set_k = ghost_k < e->rank ? e->dims[ghost_k] : 0; }
static inline void DataArrayA_setData(DataArrayA *self, DataType dtype, const void *data, const NDSize *count, const NDSize *offset)
{ gh_writes++; gh_w_count_rank = count->rank; gh_w_offset_rank = offset->rank;
  gh_w_count_k = ghost_k < count->rank ? count->dims[ghost_k] : 0; gh_w_offset_k = ghost_k < offset->rank ? offset->dims[ghost_k] : 0; }
#define A_OLD(k) (self->extent.dims[k])
#define A_MISMATCH ND_EXISTS(ia, count->rank, ia != axis && self->extent.dims[ia] != count->dims[ia])
NIX_THROWS void DataArray_appendData(DataArrayA *self, DataType dtype, const void *data, const NDSize *count, size_t axis)
__CPROVER_requires(__CPROVER_is_fresh(self, sizeof(DataArrayA)) && NDV_FRESH(self->extent) && ND_OK(count) && ND_CASE(count) && nix_exc == EXC_NONE && gh_extent_sets == 0 && gh_writes == 0)
__CPROVER_ensures(/*axis-out-of-range-rejected*/ axis >= self->extent.rank <==> nix_exc == EXC_InvalidRank)
__CPROVER_ensures(/*rank-or-shape-mismatch-rejected*/ (axis < self->extent.rank && (self->extent.rank != count->rank || A_MISMATCH)) <==> nix_exc == EXC_IncompatibleDimensions)
__CPROVER_ensures(/*only-these-exceptions*/ nix_exc == EXC_NONE || nix_exc == EXC_InvalidRank || nix_exc == EXC_IncompatibleDimensions)
__CPROVER_ensures(/*rejected-changes-nothing*/ nix_exc != EXC_NONE ==> (gh_extent_sets == 0 && gh_writes == 0))
__CPROVER_ensures(/*grow-once-then-write-once*/ nix_exc == EXC_NONE ==> (gh_extent_sets == 1 && gh_writes == 1 && gh_writes_at_extent_set == 0))
__CPROVER_ensures(/*extent-grows-along-axis-only*/ (nix_exc == EXC_NONE && ghost_k < count->rank) ==> (gh_set_rank == count->rank &&
                  gh_set_k == A_OLD(ghost_k) + (ghost_k == axis ? count->dims[axis] : 0)))
__CPROVER_ensures(/*write-at-old-end-of-axis*/ (nix_exc == EXC_NONE && ghost_k < count->rank) ==> (gh_w_offset_rank == count->rank && gh_w_count_rank == count->rank &&
                  gh_w_offset_k == (ghost_k == axis ? A_OLD(axis) : 0) && gh_w_count_k == count->dims[ghost_k]))
NIX_CANARY(DataArray_appendData) __CPROVER_assigns(nix_exc, gh_extent_sets, gh_writes, gh_writes_at_extent_set, gh_set_rank, gh_w_count_rank, gh_w_offset_rank, gh_set_k, gh_w_count_k, gh_w_offset_k)
;
#undef RV
#endif
