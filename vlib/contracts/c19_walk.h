/* C19: File::validate (src/File.cpp) - the walk that hands every entity of the file to the validator.
   "... reports at least one error for EVERY ENTITY that breaches one": a rule can only flag an entity the walk visits.  Decided here, as a BOUNDED
   stand-in (every container holds at most 2 entries; all loops unwound completely; never counted as proved): every block, every data array of
   every block, every range / set / sampled dimension descriptor of every array, every multi-tag and tag with every one of their features, every
   source of the block's source tree, every section of the file's section tree and every property of every section is handed to valid::validate
   exactly once, and every result is concatenated into the returned result.  Containers are ghost arrays (each parent of a kind has the same
   children: the counts multiply); valid::validate(...) itself (the rule tables of validate.cpp) is a ghost counter per entity kind. */
#ifndef C19_WALK_H
#define C19_WALK_H
#define RV __CPROVER_return_value
typedef enum { K_BLOCK = 0, K_ARRAY, K_DIM, K_MTAG, K_MFEATURE, K_TAG, K_TFEATURE, K_SOURCE, K_SECTION, K_PROP, K_COUNT } ent_kind;
typedef struct { ent_kind kind; DimensionType dtype; } Ent;
typedef Ent File; typedef Ent Block; typedef Ent DataArray; typedef Ent Dimension; typedef Ent RangeDimension; typedef Ent SetDimension; typedef Ent SampledDimension;
typedef Ent MultiTag; typedef Ent Tag; typedef Ent Feature; typedef Ent Source; typedef Ent Section; typedef Ent Property;
typedef struct { Ent *data; size_t n; } vec_Ent;
typedef vec_Ent vec_Block; typedef vec_Ent vec_DataArray; typedef vec_Ent vec_Dimension; typedef vec_Ent vec_MultiTag; typedef vec_Ent vec_Tag; typedef vec_Ent vec_Feature;
typedef vec_Ent vec_Source; typedef vec_Ent vec_Section; typedef vec_Ent vec_Property;
typedef struct { int parts; } Result;
#define W_MAX 2
extern Ent gh_items[K_COUNT][W_MAX]; extern size_t gh_n[K_COUNT];
extern size_t gh_validated[K_COUNT], gh_val_range, gh_val_set, gh_val_sampled, gh_results_made, gh_concats;
static inline vec_Ent c19_children(ent_kind k)
{ vec_Ent v; v.data = gh_items[k]; v.n = gh_n[k]; return v; }
static inline vec_Ent File_blocks(const Ent *f)
{ return c19_children(K_BLOCK); }
static inline vec_Ent File_findSections(const Ent *f)
{ return c19_children(K_SECTION); }
static inline vec_Ent Block_dataArrays(const Ent *b)
{ __CPROVER_assert(b->kind == K_BLOCK, "arrays of a block"); return c19_children(K_ARRAY); }
static inline vec_Ent Block_multiTags(const Ent *b)
{ __CPROVER_assert(b->kind == K_BLOCK, "multi-tags of a block"); return c19_children(K_MTAG); }
static inline vec_Ent Block_tags(const Ent *b)
{ __CPROVER_assert(b->kind == K_BLOCK, "tags of a block"); return c19_children(K_TAG); }
static inline vec_Ent Block_findSources(const Ent *b)
{ __CPROVER_assert(b->kind == K_BLOCK, "source tree of a block"); return c19_children(K_SOURCE); }
static inline vec_Ent DataArray_dimensions(const Ent *a)
{ __CPROVER_assert(a->kind == K_ARRAY, "descriptors of an array"); return c19_children(K_DIM); }
static inline vec_Ent MultiTag_features(const Ent *t)
{ __CPROVER_assert(t->kind == K_MTAG, "features of a multi-tag"); return c19_children(K_MFEATURE); }
static inline vec_Ent Tag_features(const Ent *t)
{ __CPROVER_assert(t->kind == K_TAG, "features of a tag"); return c19_children(K_TFEATURE); }
static inline vec_Ent Section_properties(const Ent *s)
{ __CPROVER_assert(s->kind == K_SECTION, "properties of a section"); return c19_children(K_PROP); }
static inline DimensionType Dimension_dimensionType(const Dimension *d)
{ return d->dtype; }
static inline RangeDimension Dimension_asRangeDimension(const Dimension *d)
{ __CPROVER_assert(d->kind == K_DIM && d->dtype == DimensionType_Range, "asRangeDimension of a range descriptor"); return *d; }
static inline SetDimension Dimension_asSetDimension(const Dimension *d)
{ __CPROVER_assert(d->kind == K_DIM && d->dtype == DimensionType_Set, "asSetDimension of a set descriptor"); return *d; }
static inline SampledDimension Dimension_asSampledDimension(const Dimension *d)
{ __CPROVER_assert(d->kind == K_DIM && d->dtype == DimensionType_Sample, "asSampledDimension of a sampled descriptor"); return *d; }
/* whether a range descriptor is an alias of its array: arbitrary - every range descriptor is validated, alias or not */
_Bool nondet_bool(void);
static inline bool RangeDimension_alias(const Ent *d)
{ return nondet_bool(); }
/* the rewriter's variable table is flat: a method on the re-declared local d may be resolved under the type of a later declaration */
static inline bool SampledDimension_alias(const Ent *d)
{ return nondet_bool(); }
static inline bool SetDimension_alias(const Ent *d)
{ return nondet_bool(); }
static inline Result c19_validated(const Ent *e, ent_kind k)
{ __CPROVER_assert(e->kind == k, "the validator overload matches the entity kind"); gh_validated[k]++; gh_results_made++; Result r; r.parts = 1; return r; }
static inline Result validate_Block(const Ent *e)
{ return c19_validated(e, K_BLOCK); }
static inline Result validate_DataArray(const Ent *e)
{ return c19_validated(e, K_ARRAY); }
static inline Result validate_RangeDimension(const Ent *e)
{ gh_val_range++; return c19_validated(e, K_DIM); }
static inline Result validate_SetDimension(const Ent *e)
{ gh_val_set++; return c19_validated(e, K_DIM); }
static inline Result validate_SampledDimension(const Ent *e)
{ gh_val_sampled++; return c19_validated(e, K_DIM); }
static inline Result validate_MultiTag(const Ent *e)
{ return c19_validated(e, K_MTAG); }
static inline Result validate_Tag(const Ent *e)
{ return c19_validated(e, K_TAG); }
static inline Result validate_Feature(const Ent *e)
{ __CPROVER_assert(e->kind == K_MFEATURE || e->kind == K_TFEATURE, "a feature"); gh_validated[e->kind == K_MFEATURE ? K_MFEATURE : K_TFEATURE]++; gh_results_made++; Result r; r.parts = 1; return r; }
static inline Result validate_Source(const Ent *e)
{ return c19_validated(e, K_SOURCE); }
static inline Result validate_Section(const Ent *e)
{ return c19_validated(e, K_SECTION); }
static inline Result validate_Property(const Ent *e)
{ return c19_validated(e, K_PROP); }
static inline Result Result_default(void)
{ Result r; r.parts = 0; return r; }
static inline void Result_concat(Result *self, Result other)
{ gh_concats += (size_t)other.parts; self->parts += other.parts; }
#define W_KIND_OK(k) (gh_n[k] <= W_MAX && (gh_n[k] < 1 || gh_items[k][0].kind == (k)) && (gh_n[k] < 2 || gh_items[k][1].kind == (k)) && gh_validated[k] == 0)
#define W_DIMS_OF(t) ((size_t)((gh_n[K_DIM] >= 1 && gh_items[K_DIM][0].dtype == (t)) ? 1 : 0) + (size_t)((gh_n[K_DIM] >= 2 && gh_items[K_DIM][1].dtype == (t)) ? 1 : 0))
#define W_DT_OK(i) (gh_items[K_DIM][i].dtype == DimensionType_Sample || gh_items[K_DIM][i].dtype == DimensionType_Set || gh_items[K_DIM][i].dtype == DimensionType_Range || gh_items[K_DIM][i].dtype == DimensionType_DataFrame)
Result File_validate(const File *self)
__CPROVER_requires(__CPROVER_is_fresh(self, sizeof(Ent)) && W_KIND_OK(K_BLOCK) && W_KIND_OK(K_ARRAY) && W_KIND_OK(K_DIM) && W_KIND_OK(K_MTAG) && W_KIND_OK(K_MFEATURE) && W_KIND_OK(K_TAG) && W_KIND_OK(K_TFEATURE) &&
                   W_KIND_OK(K_SOURCE) && W_KIND_OK(K_SECTION) && W_KIND_OK(K_PROP) && W_DT_OK(0) && W_DT_OK(1) && gh_val_range == 0 && gh_val_set == 0 && gh_val_sampled == 0 && gh_results_made == 0 && gh_concats == 0 && nix_exc == EXC_NONE)
__CPROVER_ensures(/*every-block-and-every-array-of-every-block-is-validated-once*/ gh_validated[K_BLOCK] == gh_n[K_BLOCK] && gh_validated[K_ARRAY] == gh_n[K_BLOCK] * gh_n[K_ARRAY])
__CPROVER_ensures(/*every-range-set-and-sampled-descriptor-of-every-array-is-validated-once*/ gh_val_range == gh_n[K_BLOCK] * gh_n[K_ARRAY] * W_DIMS_OF(DimensionType_Range) &&
                  gh_val_set == gh_n[K_BLOCK] * gh_n[K_ARRAY] * W_DIMS_OF(DimensionType_Set) && gh_val_sampled == gh_n[K_BLOCK] * gh_n[K_ARRAY] * W_DIMS_OF(DimensionType_Sample))
__CPROVER_ensures(/*every-tag-and-multi-tag-with-every-feature-is-validated-once*/ gh_validated[K_MTAG] == gh_n[K_BLOCK] * gh_n[K_MTAG] && gh_validated[K_MFEATURE] == gh_n[K_BLOCK] * gh_n[K_MTAG] * gh_n[K_MFEATURE] &&
                  gh_validated[K_TAG] == gh_n[K_BLOCK] * gh_n[K_TAG] && gh_validated[K_TFEATURE] == gh_n[K_BLOCK] * gh_n[K_TAG] * gh_n[K_TFEATURE])
__CPROVER_ensures(/*every-source-section-and-property-is-validated-once*/ gh_validated[K_SOURCE] == gh_n[K_BLOCK] * gh_n[K_SOURCE] && gh_validated[K_SECTION] == gh_n[K_SECTION] &&
                  gh_validated[K_PROP] == gh_n[K_SECTION] * gh_n[K_PROP])
__CPROVER_ensures(/*every-result-is-part-of-the-returned-result*/ gh_concats == gh_results_made && RV.parts == (int)gh_results_made && nix_exc == EXC_NONE)
NIX_CANARY(File_validate) __CPROVER_assigns(nix_exc, gh_val_range, gh_val_set, gh_val_sampled, gh_results_made, gh_concats, __CPROVER_object_whole(gh_validated))
;
#undef RV
#endif
