/* C14: nix::Variant (src/Variant.cpp, include/nix/Variant.hpp): tagged union with an owned C string.
   Representation invariant VAR_WF: dtype == String  =>  v_string points to a heap block owned by the Variant. */
#ifndef C14_VARIANT_H
#define C14_VARIANT_H
typedef int none_t;                      /* nix::none_t tag type: carries no value */
/* data members of class Variant.  The anonymous union is modelled as a struct of separate members: CBMC's encoding of a
   pointer inside a union made even set(bool) take minutes.  The extracted code only ever reads the member selected by
   dtype (reading another one would be undefined behaviour in C++ as well), so the two layouts behave the same; the
   vtable pointer is not modelled. */
typedef struct {
    DataType dtype;
    bool v_bool; double v_double; uint32_t v_uint32; int32_t v_int32; uint64_t v_uint64; int64_t v_int64; char *v_string;
} Variant;
#define RV __CPROVER_return_value
#define VAR_STRMAX 16                    /* bound on string blocks in the jobs that inspect string contents */
/* fresh Variant whose string (if any) is a heap block of s_len+1 bytes (ghost g_slen) */
extern size_t g_slen;
#define VAR_FRESH(p) (__CPROVER_is_fresh(p, sizeof(Variant)) && \
                      ((p)->dtype != DataType_String || (g_slen < VAR_STRMAX && __CPROVER_is_fresh((p)->v_string, g_slen + 1))))
#define VAR_VALID(p) (__CPROVER_w_ok(p, sizeof(Variant)) && ((p)->dtype != DataType_String || (p)->v_string != NULL))
#define VAR_IN(f, p) NIX_SEL(f, VAR_FRESH(p), VAR_VALID(p))
#define VAR_FREES_OLD __CPROVER_frees(self->dtype == DataType_String: self->v_string)
#define VAR_OLD_FREED (__CPROVER_old(self->dtype) == DataType_String ==> __CPROVER_was_freed(__CPROVER_old(self->v_string)))

void Variant_maybe_deallocte_string(Variant *self)
__CPROVER_requires(VAR_IN(Variant_maybe_deallocte_string, self))
__CPROVER_ensures(/*string-released-exactly-when-held*/ VAR_OLD_FREED)
__CPROVER_ensures(/*tag-reset*/ __CPROVER_old(self->dtype) == DataType_String ==> self->dtype == DataType_Nothing)
__CPROVER_ensures(/*other-values-untouched*/ __CPROVER_old(self->dtype) != DataType_String ==> self->dtype == __CPROVER_old(self->dtype))
NIX_CANARY(Variant_maybe_deallocte_string) __CPROVER_assigns(self->dtype) VAR_FREES_OLD
;

#define VAR_SET_CONTRACT(fn, TAG, FIELD) \
__CPROVER_requires(VAR_IN(fn, self)) \
__CPROVER_ensures(/*type-is-set*/ self->dtype == TAG) \
__CPROVER_ensures(/*value-is-stored*/ self->FIELD == value) \
__CPROVER_ensures(/*previous-string-released*/ NIX_SEL(fn, VAR_OLD_FREED, 1)) \
NIX_CANARY(fn) __CPROVER_assigns(self->dtype, self->FIELD) VAR_FREES_OLD

void Variant_set_bool(Variant *self, bool value)
VAR_SET_CONTRACT(Variant_set_bool, DataType_Bool, v_bool)
;
void Variant_set_int32(Variant *self, int32_t value)
VAR_SET_CONTRACT(Variant_set_int32, DataType_Int32, v_int32)
;
void Variant_set_uint32(Variant *self, uint32_t value)
VAR_SET_CONTRACT(Variant_set_uint32, DataType_UInt32, v_uint32)
;
void Variant_set_int64(Variant *self, int64_t value)
VAR_SET_CONTRACT(Variant_set_int64, DataType_Int64, v_int64)
;
void Variant_set_uint64(Variant *self, uint64_t value)
VAR_SET_CONTRACT(Variant_set_uint64, DataType_UInt64, v_uint64)
;
void Variant_set_double(Variant *self, double value)
__CPROVER_requires(VAR_IN(Variant_set_double, self))
__CPROVER_ensures(/*type-is-set*/ self->dtype == DataType_Double)
__CPROVER_ensures(/*value-is-stored*/ self->v_double == value || (isnan(self->v_double) && isnan(value)))
__CPROVER_ensures(/*previous-string-released*/ NIX_SEL(Variant_set_double, VAR_OLD_FREED, 1))
NIX_CANARY(Variant_set_double) __CPROVER_assigns(self->dtype, self->v_double) VAR_FREES_OLD
;
void Variant_set_none(Variant *self, none_t _unnamed1)
__CPROVER_requires(VAR_IN(Variant_set_none, self))
__CPROVER_ensures(/*type-is-nothing*/ self->dtype == DataType_Nothing && self->v_bool == false)
__CPROVER_ensures(/*previous-string-released*/ NIX_SEL(Variant_set_none, VAR_OLD_FREED, 1))
NIX_CANARY(Variant_set_none) __CPROVER_assigns(self->dtype, self->v_bool) VAR_FREES_OLD
;

/* getters: "values whose type differs ... are rejected": wrong type => invalid_argument and the output untouched */
NIX_THROWS void Variant_check_argument_type(const Variant *self, DataType check)
__CPROVER_requires(NIX_SEL(Variant_check_argument_type, VAR_FRESH(self), __CPROVER_r_ok(self, sizeof(Variant))) && nix_exc == EXC_NONE)
__CPROVER_ensures(/*mismatch-throws*/ self->dtype != check <==> nix_exc == EXC_invalid_argument)
__CPROVER_ensures(/*no-other-exception*/ nix_exc == EXC_NONE || nix_exc == EXC_invalid_argument)
NIX_CANARY(Variant_check_argument_type) __CPROVER_assigns(nix_exc)
;
#define VAR_GET_CONTRACT(fn, TAG, FIELD, T) \
__CPROVER_requires(NIX_SEL(fn, VAR_FRESH(self) && __CPROVER_is_fresh(value, sizeof(T)), __CPROVER_r_ok(self, sizeof(Variant)) && __CPROVER_w_ok(value, sizeof(T))) && nix_exc == EXC_NONE) \
__CPROVER_ensures(/*wrong-type-rejected*/ self->dtype != TAG <==> nix_exc == EXC_invalid_argument) \
__CPROVER_ensures(/*no-other-exception*/ nix_exc == EXC_NONE || nix_exc == EXC_invalid_argument) \
__CPROVER_ensures(/*value-returned*/ nix_exc == EXC_NONE ==> *value == self->FIELD) \
__CPROVER_ensures(/*output-untouched-on-rejection*/ nix_exc != EXC_NONE ==> *value == __CPROVER_old(*value)) \
NIX_CANARY(fn) __CPROVER_assigns(nix_exc, *value)

NIX_THROWS void Variant_get_bool(const Variant *self, bool *value)
VAR_GET_CONTRACT(Variant_get_bool, DataType_Bool, v_bool, bool)
;
NIX_THROWS void Variant_get_int32(const Variant *self, int32_t *value)
VAR_GET_CONTRACT(Variant_get_int32, DataType_Int32, v_int32, int32_t)
;
NIX_THROWS void Variant_get_uint32(const Variant *self, uint32_t *value)
VAR_GET_CONTRACT(Variant_get_uint32, DataType_UInt32, v_uint32, uint32_t)
;
NIX_THROWS void Variant_get_int64(const Variant *self, int64_t *value)
VAR_GET_CONTRACT(Variant_get_int64, DataType_Int64, v_int64, int64_t)
;
NIX_THROWS void Variant_get_uint64(const Variant *self, uint64_t *value)
VAR_GET_CONTRACT(Variant_get_uint64, DataType_UInt64, v_uint64, uint64_t)
;
NIX_THROWS void Variant_get_double(const Variant *self, double *value)
__CPROVER_requires(NIX_SEL(Variant_get_double, VAR_FRESH(self) && __CPROVER_is_fresh(value, sizeof(double)), __CPROVER_r_ok(self, sizeof(Variant)) && __CPROVER_w_ok(value, sizeof(double))) && nix_exc == EXC_NONE)
__CPROVER_ensures(/*wrong-type-rejected*/ self->dtype != DataType_Double <==> nix_exc == EXC_invalid_argument)
__CPROVER_ensures(/*no-other-exception*/ nix_exc == EXC_NONE || nix_exc == EXC_invalid_argument)
__CPROVER_ensures(/*value-returned*/ nix_exc == EXC_NONE ==> (*value == self->v_double || (isnan(*value) && isnan(self->v_double))))
__CPROVER_ensures(/*output-untouched-on-rejection*/ nix_exc != EXC_NONE ==> (*value == __CPROVER_old(*value) || (isnan(*value) && isnan(__CPROVER_old(*value)))))
NIX_CANARY(Variant_get_double) __CPROVER_assigns(nix_exc, *value)
;

bool Variant_supports_type(DataType dtype)
__CPROVER_ensures(/*supported-set*/ RV <==> (dtype == DataType_Bool || dtype == DataType_Int32 || dtype == DataType_UInt32 || dtype == DataType_Int64 ||
                  dtype == DataType_UInt64 || dtype == DataType_Double || dtype == DataType_String || dtype == DataType_Nothing))
NIX_CANARY(Variant_supports_type) __CPROVER_assigns()
;

/* set(const char *value, size_t len): owns a NUL-terminated copy of value[0..len); an allocation failure throws
   std::bad_alloc and leaves the Variant as it was */
NIX_THROWS void Variant_set_cstr_len(Variant *self, const char *value, const size_t len)
__CPROVER_requires(VAR_IN(Variant_set_cstr_len, self) && nix_exc == EXC_NONE)
__CPROVER_requires(len < VAR_STRMAX && NIX_SEL(Variant_set_cstr_len, __CPROVER_is_fresh(value, len ? len : 1), __CPROVER_r_ok(value, len ? len : 1)))
__CPROVER_ensures(/*only-allocation-failure-throws*/ nix_exc == EXC_NONE || nix_exc == EXC_bad_alloc)
__CPROVER_ensures(/*type-is-string*/ nix_exc == EXC_NONE ==> self->dtype == DataType_String)
__CPROVER_ensures(/*terminated*/ nix_exc == EXC_NONE ==> self->v_string[len] == 0)
__CPROVER_ensures(/*bytes-copied*/ (nix_exc == EXC_NONE && ghost_k < len) ==> self->v_string[ghost_k] == value[ghost_k])
__CPROVER_ensures(/*unchanged-on-allocation-failure*/ nix_exc == EXC_bad_alloc ==> (self->dtype == __CPROVER_old(self->dtype) && self->v_string == __CPROVER_old(self->v_string)))
NIX_CANARY(Variant_set_cstr_len) __CPROVER_assigns(nix_exc, self->dtype, self->v_string) VAR_FREES_OLD
;
/* set(const char *value): strlen + set(value, len).  ASSUMED contract (the strlen loop is not verified): owns a copy */
NIX_THROWS void Variant_set_cstr(Variant *self, const char *value)
__CPROVER_requires(VAR_VALID(self) && nix_exc == EXC_NONE)
__CPROVER_ensures(nix_exc == EXC_NONE || nix_exc == EXC_bad_alloc)
__CPROVER_ensures(nix_exc == EXC_NONE ==> (self->dtype == DataType_String && self->v_string != NULL && self->v_string != value))
__CPROVER_ensures(nix_exc == EXC_bad_alloc ==> (self->dtype == __CPROVER_old(self->dtype) && self->v_string == __CPROVER_old(self->v_string)))
__CPROVER_assigns(nix_exc, self->dtype, self->v_string) VAR_FREES_OLD
;
#define DATATYPE_SUPPORT_NOT_IMPLEMENTED 0
#define VAR_SUPPORTED(d) ((d) == DataType_Bool || (d) == DataType_Int32 || (d) == DataType_UInt32 || (d) == DataType_Int64 || (d) == DataType_UInt64 || \
                          (d) == DataType_Double || (d) == DataType_String || (d) == DataType_Nothing)
/* void assign_variant_from(const Variant &other): the copy path (copy constructor, operator=, swap) */
NIX_THROWS void Variant_assign_variant_from(Variant *self, const Variant *other)
__CPROVER_requires(VAR_FRESH(self) && __CPROVER_is_fresh(other, sizeof(Variant)) && VAR_SUPPORTED(other->dtype) && nix_exc == EXC_NONE)
__CPROVER_requires(other->dtype != DataType_String || __CPROVER_is_fresh(other->v_string, VAR_STRMAX))
__CPROVER_ensures(/*only-allocation-failure-throws*/ nix_exc == EXC_NONE || nix_exc == EXC_bad_alloc)
__CPROVER_ensures(/*type-copied*/ nix_exc == EXC_NONE ==> self->dtype == other->dtype)
__CPROVER_ensures(/*value-copied*/ nix_exc == EXC_NONE ==> (
    (other->dtype == DataType_Bool ==> self->v_bool == other->v_bool) && (other->dtype == DataType_Int32 ==> self->v_int32 == other->v_int32) &&
    (other->dtype == DataType_UInt32 ==> self->v_uint32 == other->v_uint32) && (other->dtype == DataType_Int64 ==> self->v_int64 == other->v_int64) &&
    (other->dtype == DataType_UInt64 ==> self->v_uint64 == other->v_uint64) &&
    (other->dtype == DataType_Double ==> (self->v_double == other->v_double || (isnan(self->v_double) && isnan(other->v_double))))))
__CPROVER_ensures(/*string-is-an-own-copy-not-shared*/ (nix_exc == EXC_NONE && other->dtype == DataType_String) ==> (self->v_string != NULL && self->v_string != other->v_string))
__CPROVER_ensures(/*source-untouched*/ other->dtype == __CPROVER_old(other->dtype) && other->v_string == __CPROVER_old(other->v_string))
NIX_CANARY(Variant_assign_variant_from) __CPROVER_assigns(nix_exc, self->dtype, self->v_bool, self->v_double, self->v_uint32, self->v_int32, self->v_uint64, self->v_int64, self->v_string) VAR_FREES_OLD
;
#undef RV
#endif
