/* include/nix/NDSize.hpp: NDSizeBase<ndsize_t> = NDSize.  Shared by C05, C06, C16, C17.
   Type invariant ND_OK: rank <= 32 (H5S_MAX_RANK, the largest rank libhdf5 hands to nix) and dims
   points to exactly rank elements (NULL when rank == 0), as NDSizeBase::allocate() establishes. */
#ifndef ND_H
#define ND_H
typedef struct { size_t rank; ndsize_t *dims; } NDSize;     /* data members of NDSizeBase<T> */
#define ND_MAXRANK 32
#ifndef ND_FULL_ALLOC
#define ND_OK(p) (__CPROVER_is_fresh(p, sizeof(NDSize)) && (p)->rank <= ND_MAXRANK && \
                  ((p)->rank == 0 ? (p)->dims == NULL : __CPROVER_is_fresh((p)->dims, (p)->rank * sizeof(ndsize_t))))
#define ND_OLD_CLAUSE(x)
#else
/* second job per mutating unit: __CPROVER_old(a[ghost_k]) is snapshotted unconditionally on entry, so the
   arrays are allocated at the full type-invariant bound here; the exact-size allocation (which is what
   catches reads/writes past rank) is the first job */
#define ND_OK(p) (__CPROVER_is_fresh(p, sizeof(NDSize)) && (p)->rank <= ND_MAXRANK && ghost_k < ND_MAXRANK && \
                  __CPROVER_is_fresh((p)->dims, ND_MAXRANK * sizeof(ndsize_t)))
#define ND_OLD_CLAUSE(x) x
#endif
/* complete case split on the rank of the first operand (-DND_RANK_CASE=r, r = 0..32): with a constant rank the
   loops over the rank unwind concretely; the 33 cases together are the whole type invariant */
#ifdef ND_RANK_CASE
#define ND_CASE(p) ((p)->rank == ND_RANK_CASE)
#else
#define ND_CASE(p) 1
#endif
/* validity without freshness: what a call site has to establish */
#define ND_VALID(p) (__CPROVER_r_ok(p, sizeof(NDSize)) && (p)->rank <= ND_MAXRANK && \
                     ((p)->rank == 0 || __CPROVER_r_ok((p)->dims, (p)->rank * sizeof(ndsize_t))))
#define ND_VALID_W(p) (__CPROVER_r_ok(p, sizeof(NDSize)) && (p)->rank <= ND_MAXRANK && \
                     ((p)->rank == 0 || __CPROVER_w_ok((p)->dims, (p)->rank * sizeof(ndsize_t))))
#define ND_IN(f, p) NIX_SEL(f, ND_OK(p), ND_VALID(p))
#define ND_INW(f, p) NIX_SEL(f, ND_OK(p), ND_VALID_W(p))
/* second operand may alias the first */
#define ND_IN2(f, a, b) NIX_SEL(f, (ND_OK(a) && ((b) == (a) || ND_OK(b))), (ND_VALID(a) && ND_VALID(b)))
#define ND_INW2(f, a, b) NIX_SEL(f, (ND_OK(a) && ((b) == (a) || ND_OK(b))), (ND_VALID_W(a) && ND_VALID(b)))
#define RV __CPROVER_return_value
#define ND_FORALL(i, n, body) __CPROVER_forall { size_t i; (i < ND_MAXRANK) ==> ((i < (n)) ==> (body)) }
#define ND_EXISTS(i, n, body) __CPROVER_exists { size_t i; (i < ND_MAXRANK) && ((i < (n)) && (body)) }

/* nested may-throw call in expression position: proved not to throw there (DESIGN 4) */
static inline ndsize_t *NIX_NT_p(ndsize_t *p) { __CPROVER_assert(nix_exc == EXC_NONE, "nested call does not throw"); return p; }

size_t NDSize_size(const NDSize *self)
__CPROVER_requires(ND_IN(NDSize_size, self)) __CPROVER_ensures(/*size-is-rank*/ RV == self->rank) NIX_CANARY(NDSize_size) __CPROVER_assigns()
;
bool NDSize_bool(const NDSize *self)
__CPROVER_requires(ND_IN(NDSize_bool, self)) __CPROVER_ensures(/*true-iff-nonempty*/ RV <==> self->rank > 0) NIX_CANARY(NDSize_bool) __CPROVER_assigns()
;

/* const T& operator[](size_t) const -- for EVERY size_t index */
NIX_THROWS ndsize_t *NDSize_at(const NDSize *self, const size_t index)
__CPROVER_requires(ND_IN(NDSize_at, self) && nix_exc == EXC_NONE)
__CPROVER_ensures(/*in-range-returns-element*/ index < self->rank ==> (nix_exc == EXC_NONE && RV == &self->dims[index]))
__CPROVER_ensures(/*out-of-range-throws*/ index >= self->rank <==> nix_exc == EXC_out_of_range)
__CPROVER_ensures(/*no-other-exception*/ nix_exc == EXC_NONE || nix_exc == EXC_out_of_range)
NIX_CANARY(NDSize_at) __CPROVER_assigns(nix_exc)
;

/* comparisons: element-wise, ranks must agree */
#define ND_CMP_CONTRACT(fn, REL) \
__CPROVER_requires(ND_IN2(fn, lhs, rhs) && nix_exc == EXC_NONE) \
__CPROVER_ensures(/*rank-mismatch-throws*/ lhs->rank != rhs->rank <==> nix_exc == EXC_IncompatibleDimensions) \
__CPROVER_ensures(/*elementwise*/ lhs->rank == rhs->rank ==> (RV <==> REL)) \
__CPROVER_ensures(/*no-other-exception*/ nix_exc == EXC_NONE || nix_exc == EXC_IncompatibleDimensions) \
NIX_CANARY(fn) __CPROVER_assigns(nix_exc)

NIX_THROWS bool NDSize_lt(const NDSize *lhs, const NDSize *rhs)
ND_CMP_CONTRACT(NDSize_lt, ND_FORALL(i1, lhs->rank, lhs->dims[i1] < rhs->dims[i1]))
;
NIX_THROWS bool NDSize_le(const NDSize *lhs, const NDSize *rhs)
ND_CMP_CONTRACT(NDSize_le, ND_FORALL(i2, lhs->rank, lhs->dims[i2] <= rhs->dims[i2]))
;
/* a > b is !(a <= b): some element is larger */
NIX_THROWS bool NDSize_gt(const NDSize *lhs, const NDSize *rhs)
ND_CMP_CONTRACT(NDSize_gt, ND_EXISTS(i3, lhs->rank, lhs->dims[i3] > rhs->dims[i3]))
;
NIX_THROWS bool NDSize_ge(const NDSize *lhs, const NDSize *rhs)
ND_CMP_CONTRACT(NDSize_ge, ND_EXISTS(i4, lhs->rank, lhs->dims[i4] >= rhs->dims[i4]))
;
bool NDSize_eq(const NDSize *lhs, const NDSize *rhs)
__CPROVER_requires(ND_IN2(NDSize_eq, lhs, rhs) && nix_exc == EXC_NONE)
__CPROVER_ensures(/*equal-iff-same-rank-and-elements*/ RV <==> (lhs->rank == rhs->rank && ND_FORALL(i5, lhs->rank, lhs->dims[i5] == rhs->dims[i5])))
__CPROVER_ensures(/*no-exception*/ nix_exc == EXC_NONE)
NIX_CANARY(NDSize_eq) __CPROVER_assigns(nix_exc)
;

/* in-place arithmetic: element k (every k, via the ghost index) becomes old +/- operand, modulo 2^64;
   rank mismatch throws and changes nothing */
#define ND_OLD_AT(p, k) __CPROVER_old((p)->dims[k])
NIX_THROWS NDSize *NDSize_iadd(NDSize *self, const NDSize *rhs)
__CPROVER_requires(ND_INW2(NDSize_iadd, self, rhs) && nix_exc == EXC_NONE)
__CPROVER_ensures(/*rank-mismatch-throws*/ __CPROVER_old(self->rank) != __CPROVER_old(rhs->rank) <==> nix_exc == EXC_out_of_range)
__CPROVER_ensures(/*rank-unchanged*/ self->rank == __CPROVER_old(self->rank) && self->dims == __CPROVER_old(self->dims))
ND_OLD_CLAUSE(__CPROVER_ensures(/*elementwise-sum*/ (nix_exc == EXC_NONE && ghost_k < self->rank) ==> self->dims[ghost_k] == ND_OLD_AT(self, ghost_k) + ND_OLD_AT(rhs, ghost_k)))
ND_OLD_CLAUSE(__CPROVER_ensures(/*untouched-on-throw*/ (nix_exc != EXC_NONE && ghost_k < self->rank) ==> self->dims[ghost_k] == ND_OLD_AT(self, ghost_k)))
__CPROVER_ensures(/*returns-self*/ nix_exc == EXC_NONE ==> RV == self)
__CPROVER_ensures(/*no-other-exception*/ nix_exc == EXC_NONE || nix_exc == EXC_out_of_range)
NIX_CANARY(NDSize_iadd) __CPROVER_assigns(nix_exc; self->rank > 0: __CPROVER_object_whole(self->dims))
;
NIX_THROWS NDSize *NDSize_isub(NDSize *self, const NDSize *rhs)
__CPROVER_requires(ND_INW2(NDSize_isub, self, rhs) && nix_exc == EXC_NONE)
__CPROVER_ensures(/*rank-mismatch-throws*/ __CPROVER_old(self->rank) != __CPROVER_old(rhs->rank) <==> nix_exc == EXC_out_of_range)
__CPROVER_ensures(/*rank-unchanged*/ self->rank == __CPROVER_old(self->rank) && self->dims == __CPROVER_old(self->dims))
ND_OLD_CLAUSE(__CPROVER_ensures(/*elementwise-difference*/ (nix_exc == EXC_NONE && ghost_k < self->rank) ==> self->dims[ghost_k] == ND_OLD_AT(self, ghost_k) - ND_OLD_AT(rhs, ghost_k)))
ND_OLD_CLAUSE(__CPROVER_ensures(/*untouched-on-throw*/ (nix_exc != EXC_NONE && ghost_k < self->rank) ==> self->dims[ghost_k] == ND_OLD_AT(self, ghost_k)))
__CPROVER_ensures(/*returns-self*/ nix_exc == EXC_NONE ==> RV == self)
__CPROVER_ensures(/*no-other-exception*/ nix_exc == EXC_NONE || nix_exc == EXC_out_of_range)
NIX_CANARY(NDSize_isub) __CPROVER_assigns(nix_exc; self->rank > 0: __CPROVER_object_whole(self->dims))
;
NDSize *NDSize_iadd_scalar(NDSize *self, ndsize_t val)
__CPROVER_requires(ND_INW(NDSize_iadd_scalar, self))
__CPROVER_ensures(/*rank-unchanged*/ self->rank == __CPROVER_old(self->rank) && self->dims == __CPROVER_old(self->dims))
ND_OLD_CLAUSE(__CPROVER_ensures(/*elementwise-sum*/ ghost_k < self->rank ==> self->dims[ghost_k] == ND_OLD_AT(self, ghost_k) + val))
__CPROVER_ensures(/*returns-self*/ RV == self)
NIX_CANARY(NDSize_iadd_scalar) __CPROVER_assigns(self->rank > 0: __CPROVER_object_whole(self->dims))
;
NDSize *NDSize_isub_scalar(NDSize *self, ndsize_t val)
__CPROVER_requires(ND_INW(NDSize_isub_scalar, self))
__CPROVER_ensures(/*rank-unchanged*/ self->rank == __CPROVER_old(self->rank) && self->dims == __CPROVER_old(self->dims))
ND_OLD_CLAUSE(__CPROVER_ensures(/*elementwise-difference*/ ghost_k < self->rank ==> self->dims[ghost_k] == ND_OLD_AT(self, ghost_k) - val))
__CPROVER_ensures(/*returns-self*/ RV == self)
NIX_CANARY(NDSize_isub_scalar) __CPROVER_assigns(self->rank > 0: __CPROVER_object_whole(self->dims))
;

/* ---- value semantics helpers (definitional adapters, not contracts) ---------------------------- */
/* address of a temporary: C++ binds 'const NDSize&' to a temporary; C needs an object */
#ifdef NIX_TMP_LITERAL     /* address of a temporary without malloc (dynamic allocation is not allowed inside a loop under a loop contract) */
#define TMP_NDSize(v) ((NDSize[1]){(v)})
#else
static inline NDSize *TMP_NDSize(NDSize v) { NDSize *p = malloc(sizeof(NDSize)); __CPROVER_assume(p != NULL); *p = v; return p; }
#endif
static inline NDSize NDSize_default(void)
{ NDSize r; r.rank = 0; r.dims = NULL; return r; }   /* NDSizeBase(): rank(0), dims(nullptr) */

/* NDSizeBase(const NDSizeBase &other): copy constructor (extracted unit NDSize_copy_ctor) as a value */
void NDSize_copy_ctor(NDSize *self, const NDSize *other)
__CPROVER_requires(NIX_SEL(NDSize_copy_ctor, __CPROVER_is_fresh(self, sizeof(NDSize)) && ND_OK(other), __CPROVER_w_ok(self, sizeof(NDSize)) && ND_VALID(other)) && ND_CASE(other))
__CPROVER_ensures(/*same-rank*/ self->rank == other->rank)
__CPROVER_ensures(/*own-storage*/ self->rank == 0 ? self->dims == NULL : (__CPROVER_is_fresh(self->dims, self->rank * sizeof(ndsize_t))))
__CPROVER_ensures(/*same-elements*/ ND_FORALL(i10, self->rank, self->dims[i10] == other->dims[i10]))
NIX_CANARY(NDSize_copy_ctor) __CPROVER_assigns(*self)
;
static inline NDSize NDSize_copy(const NDSize *o) { NDSize r; NDSize_copy_ctor(&r, o); return r; }
void NDSize_allocate(NDSize *self)
__CPROVER_requires(NIX_SEL(NDSize_allocate, __CPROVER_is_fresh(self, sizeof(NDSize)), __CPROVER_w_ok(self, sizeof(NDSize))) && self->rank <= ND_MAXRANK && self->dims == NULL)
__CPROVER_ensures(/*rank-unchanged*/ self->rank == __CPROVER_old(self->rank))
__CPROVER_ensures(/*storage*/ self->rank == 0 ? self->dims == NULL : __CPROVER_is_fresh(self->dims, self->rank * sizeof(ndsize_t)))
NIX_CANARY(NDSize_allocate) __CPROVER_assigns(self->dims)
;
/* std::copy_n on ndsize_t (nd_copy): libstdc++, modelled by memcpy semantics */
static inline void copy_n(const ndsize_t *src, size_t n, ndsize_t *dst) { for (size_t i_ = 0; i_ < n; i_++) dst[i_] = src[i_]; }

/* free operator+(NDSizeBase<T> lhs, const NDSizeBase<T> &rhs): lhs by value.  Body-only unit (a two-line wrapper
   around operator+=); its behaviour is specified through the by-value call adapter below. */
NIX_THROWS NDSize NDSize_plus(NDSize lhs, const NDSize *rhs)
;
/* Calling operator+(a, b) with an lvalue a copy-constructs the by-value parameter and then runs the body.  This
   adapter IS that call sequence (copy constructor unit + operator+ unit); the contract is about the sequence:
   the operands are unchanged, the result is a new NDSize holding the element-wise sum (modulo 2^64). */
static inline NDSize NDSize_plus_cc_impl(const NDSize *a, const NDSize *b) { return NDSize_plus(NDSize_copy(a), b); }
NIX_THROWS NDSize NDSize_plus_cc(const NDSize *a, const NDSize *b)
__CPROVER_requires(ND_IN2(NDSize_plus_cc, a, b) && ND_CASE(a) && nix_exc == EXC_NONE)
__CPROVER_ensures(/*rank-mismatch-throws*/ a->rank != b->rank <==> nix_exc == EXC_out_of_range)
__CPROVER_ensures(/*no-other-exception*/ nix_exc == EXC_NONE || nix_exc == EXC_out_of_range)
__CPROVER_ensures(/*new-storage*/ nix_exc == EXC_NONE ==> (RV.rank == a->rank && (RV.rank == 0 ? RV.dims == NULL : __CPROVER_is_fresh(RV.dims, RV.rank * sizeof(ndsize_t)))))
__CPROVER_ensures(/*elementwise-sum*/ nix_exc == EXC_NONE ==> ND_FORALL(i8, a->rank, RV.dims[i8] == a->dims[i8] + b->dims[i8]))
NIX_CANARY(NDSize_plus_cc) __CPROVER_assigns(nix_exc)
;
/* NDSize(size_t rank, T fill_value): constructor units NDSize_ctor_fill / NDSize_fill, as a value */
void NDSize_fill(NDSize *self, ndsize_t value)
;
void NDSize_ctor_fill(NDSize *self, size_t rank, ndsize_t fill_value)
;
static inline void fill_n(ndsize_t *dst, size_t n, ndsize_t v) { for (size_t i_ = 0; i_ < n; i_++) dst[i_] = v; }
static inline NDSize mk_NDSize_2(size_t rank, ndsize_t fill)
{ NDSize r; NDSize_ctor_fill(&r, rank, fill); return r; }


/* free operator-(NDSizeBase<T> lhs, const NDSizeBase<T> &rhs): same scheme as operator+ */
NIX_THROWS NDSize NDSize_minus(NDSize lhs, const NDSize *rhs)
;
static inline NDSize NDSize_minus_cc_impl(const NDSize *a, const NDSize *b) { return NDSize_minus(NDSize_copy(a), b); }
NIX_THROWS NDSize NDSize_minus_cc(const NDSize *a, const NDSize *b)
__CPROVER_requires(ND_IN2(NDSize_minus_cc, a, b) && ND_CASE(a) && nix_exc == EXC_NONE)
__CPROVER_ensures(/*rank-mismatch-throws*/ a->rank != b->rank <==> nix_exc == EXC_out_of_range)
__CPROVER_ensures(/*no-other-exception*/ nix_exc == EXC_NONE || nix_exc == EXC_out_of_range)
__CPROVER_ensures(/*new-storage*/ nix_exc == EXC_NONE ==> (RV.rank == a->rank && (RV.rank == 0 ? RV.dims == NULL : __CPROVER_is_fresh(RV.dims, RV.rank * sizeof(ndsize_t)))))
__CPROVER_ensures(/*elementwise-difference*/ nix_exc == EXC_NONE ==> ND_FORALL(i9, a->rank, RV.dims[i9] == a->dims[i9] - b->dims[i9]))
NIX_CANARY(NDSize_minus_cc) __CPROVER_assigns(nix_exc)
;
#undef RV
#endif
