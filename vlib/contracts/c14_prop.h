/* C14 / C08: PropertyHDF5::values(const std::vector<Variant>&) (backend/hdf5/PropertyHDF5.cpp) - the setter every value assignment ends in.
   C14: "values whose type differs from the property's type are rejected";  C08: "A rejected operation leaves no trace ... nothing is ... resized"
   (the statement names this function: "value type check happens after the dataset was resized").
   The HDF5 dataset is a ghost record: its element type, the setExtent calls and the write calls it received.  The write primitive
   do_write_value<T> converts every element with Variant::get<T>, which throws for an element of another type - AFTER the resize; so
   "only a vector whose elements all have type T reaches do_write_value<T>" is its precondition here (checked at the call site). */
#ifndef C14_PROP_H
#define C14_PROP_H
#define RV __CPROVER_return_value
#ifdef PROP_BOUNDED
#define PROP_NMAX PROP_BOUNDED
#else
#define PROP_NMAX VEC_MAX
#endif
#define assert(e) __CPROVER_assert(e, "assert")    /* <cassert> */
typedef struct { DataType dtype; } Variant;                  /* the type tag is all this unit reads of a value */
typedef struct { Variant *data; size_t n; } vec_Variant;
typedef struct { int _p; } PropertyHDF5;
typedef struct { int _d; } DataSet;
typedef struct { int _t; } H5DataType;
typedef struct { ndsize_t d0; } NDSize;
#define DATATYPE_SUPPORT_NOT_IMPLEMENTED 0
extern DataType gh_dset_type;                                /* element type of the property's dataset */
extern int gh_extent_calls, gh_writes, gh_delete_calls; extern ndsize_t gh_extent_n; extern DataType gh_write_type;
#define PROP_TYPE(t) ((t) == DataType_Bool || (t) == DataType_Int32 || (t) == DataType_UInt32 || (t) == DataType_Int64 || (t) == DataType_UInt64 || (t) == DataType_String || (t) == DataType_Double)
static inline DataType Variant_type(const Variant *v)
{ return v->dtype; }
static inline DataSet PropertyHDF5_dataset(const PropertyHDF5 *self)
{ DataSet d; d._d = 1; return d; }
static inline void PropertyHDF5_deleteValues_rec(PropertyHDF5 *self)
{ gh_delete_calls++; }
static inline H5DataType DataSet_dataType(const DataSet *d)
{ H5DataType t; t._t = 0; return t; }
static inline DataType data_type_from_h5(H5DataType t)
{ return gh_dset_type; }
static inline NDSize mk_NDSize_brace_1(ndsize_t n)
{ NDSize s; s.d0 = n; return s; }
static inline void DataSet_setExtent(DataSet *d, NDSize dims)
{ gh_extent_calls++; gh_extent_n = dims.d0; }
static inline void do_write_value_bool(DataSet *h5ds, const vec_Variant *values)
{ __CPROVER_assert(/*only-values-of-its-own-type-reach-the-write-primitive*/ ghost_k < values->n ==> values->data[ghost_k].dtype == DataType_Bool, "only a vector whose elements all have the written type reaches do_write_value (it converts every element AFTER the resize)");
  __CPROVER_assert(gh_extent_calls == 1 && gh_extent_n == values->n && gh_dset_type == DataType_Bool, "written after the dataset was resized to the number of values, with the dataset's own type"); gh_writes++; gh_write_type = DataType_Bool; }
static inline void do_write_value_int32(DataSet *h5ds, const vec_Variant *values)
{ __CPROVER_assert(/*only-values-of-its-own-type-reach-the-write-primitive*/ ghost_k < values->n ==> values->data[ghost_k].dtype == DataType_Int32, "only a vector whose elements all have the written type reaches do_write_value (it converts every element AFTER the resize)");
  __CPROVER_assert(gh_extent_calls == 1 && gh_extent_n == values->n && gh_dset_type == DataType_Int32, "written after the dataset was resized to the number of values, with the dataset's own type"); gh_writes++; gh_write_type = DataType_Int32; }
static inline void do_write_value_uint32(DataSet *h5ds, const vec_Variant *values)
{ __CPROVER_assert(/*only-values-of-its-own-type-reach-the-write-primitive*/ ghost_k < values->n ==> values->data[ghost_k].dtype == DataType_UInt32, "only a vector whose elements all have the written type reaches do_write_value (it converts every element AFTER the resize)");
  __CPROVER_assert(gh_extent_calls == 1 && gh_extent_n == values->n && gh_dset_type == DataType_UInt32, "written after the dataset was resized to the number of values, with the dataset's own type"); gh_writes++; gh_write_type = DataType_UInt32; }
static inline void do_write_value_int64(DataSet *h5ds, const vec_Variant *values)
{ __CPROVER_assert(/*only-values-of-its-own-type-reach-the-write-primitive*/ ghost_k < values->n ==> values->data[ghost_k].dtype == DataType_Int64, "only a vector whose elements all have the written type reaches do_write_value (it converts every element AFTER the resize)");
  __CPROVER_assert(gh_extent_calls == 1 && gh_extent_n == values->n && gh_dset_type == DataType_Int64, "written after the dataset was resized to the number of values, with the dataset's own type"); gh_writes++; gh_write_type = DataType_Int64; }
static inline void do_write_value_uint64(DataSet *h5ds, const vec_Variant *values)
{ __CPROVER_assert(/*only-values-of-its-own-type-reach-the-write-primitive*/ ghost_k < values->n ==> values->data[ghost_k].dtype == DataType_UInt64, "only a vector whose elements all have the written type reaches do_write_value (it converts every element AFTER the resize)");
  __CPROVER_assert(gh_extent_calls == 1 && gh_extent_n == values->n && gh_dset_type == DataType_UInt64, "written after the dataset was resized to the number of values, with the dataset's own type"); gh_writes++; gh_write_type = DataType_UInt64; }
static inline void do_write_value_cstr(DataSet *h5ds, const vec_Variant *values)
{ __CPROVER_assert(/*only-values-of-its-own-type-reach-the-write-primitive*/ ghost_k < values->n ==> values->data[ghost_k].dtype == DataType_String, "only a vector whose elements all have the written type reaches do_write_value (it converts every element AFTER the resize)");
  __CPROVER_assert(gh_extent_calls == 1 && gh_extent_n == values->n && gh_dset_type == DataType_String, "written after the dataset was resized to the number of values, with the dataset's own type"); gh_writes++; gh_write_type = DataType_String; }
static inline void do_write_value_double(DataSet *h5ds, const vec_Variant *values)
{ __CPROVER_assert(/*only-values-of-its-own-type-reach-the-write-primitive*/ ghost_k < values->n ==> values->data[ghost_k].dtype == DataType_Double, "only a vector whose elements all have the written type reaches do_write_value (it converts every element AFTER the resize)");
  __CPROVER_assert(gh_extent_calls == 1 && gh_extent_n == values->n && gh_dset_type == DataType_Double, "written after the dataset was resized to the number of values, with the dataset's own type"); gh_writes++; gh_write_type = DataType_Double; }
#define VT(k) (values->data[k].dtype)
#define ALL8_MATCH ((values->n <= 0 || VT(0) == gh_dset_type) && (values->n <= 1 || VT(1) == gh_dset_type) && (values->n <= 2 || VT(2) == gh_dset_type) && (values->n <= 3 || VT(3) == gh_dset_type) && \
                    (values->n <= 4 || VT(4) == gh_dset_type) && (values->n <= 5 || VT(5) == gh_dset_type) && (values->n <= 6 || VT(6) == gh_dset_type) && (values->n <= 7 || VT(7) == gh_dset_type))
NIX_THROWS void PropertyHDF5_values_set(PropertyHDF5 *self, const vec_Variant *values)
__CPROVER_requires(__CPROVER_is_fresh(self, sizeof(PropertyHDF5)) && __CPROVER_is_fresh(values, sizeof(vec_Variant)) && values->n <= PROP_NMAX && __CPROVER_is_fresh(values->data, values->n * sizeof(Variant)))
__CPROVER_requires(PROP_TYPE(gh_dset_type) && gh_extent_calls == 0 && gh_writes == 0 && gh_delete_calls == 0 && nix_exc == EXC_NONE)
__CPROVER_ensures(/*empty-list-clears-the-values*/ values->n == 0 ==> (gh_delete_calls == 1 && gh_extent_calls == 0 && gh_writes == 0 && nix_exc == EXC_NONE))
__CPROVER_ensures(/*a-value-of-another-type-is-rejected*/ (ghost_k < values->n && VT(ghost_k) != gh_dset_type) ==> nix_exc == EXC_invalid_argument)
__CPROVER_ensures(/*rejected-assignment-leaves-the-dataset-untouched*/ nix_exc != EXC_NONE ==> (gh_extent_calls == 0 && gh_writes == 0 && gh_delete_calls == 0))
__CPROVER_ensures(/*accepted-assignment-resizes-then-writes-once*/ (values->n >= 1 && nix_exc == EXC_NONE) ==> (gh_extent_calls == 1 && gh_extent_n == values->n && gh_writes == 1 && gh_write_type == gh_dset_type && gh_delete_calls == 0))
__CPROVER_ensures(/*values-of-the-property-type-are-accepted (lists of up to 8)*/ (values->n >= 1 && values->n <= 8 && ALL8_MATCH) ==> nix_exc == EXC_NONE)
__CPROVER_ensures(/*no-other-exception*/ nix_exc == EXC_NONE || nix_exc == EXC_invalid_argument)
NIX_CANARY(PropertyHDF5_values_set) __CPROVER_assigns(nix_exc, gh_extent_calls, gh_extent_n, gh_writes, gh_write_type, gh_delete_calls)
;
#undef RV
#endif
