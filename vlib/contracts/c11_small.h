/* C11: the remaining functions on the close / flush path.
   "once close() or flush() has returned the file on disk is complete": flush must reach H5Fflush on every call, for every mode
   (File::flush -> FileHDF5::flush -> H5Fflush(file id, global scope)) and report its outcome; File::close closes the back end exactly
   once and drops the handle; the destructor closes; isOpen is exactly 'the file identifier is valid' (close() keys on it). */
#ifndef C11_SMALL_H
#define C11_SMALL_H
#define RV __CPROVER_return_value
typedef long hid_t;
typedef struct { int is_none; FileMode mode; } FileF;                /* front-end handle (and what fileMode() reports) */
typedef struct { int valid; } H5GroupR;
typedef struct { hid_t hid; int valid; H5GroupR root, data, metadata; FileMode mode; } FileHDF5f;   /* back end: file identifier, H5Object::isValid(), root groups */
static inline FileMode FileF_fileMode(const FileF *f)
{ return f->mode; }
static inline bool FileF_isOpen(const FileF *f)
{ return f->is_none == 0; }
static inline bool H5GroupR_isValid(const H5GroupR *g)
{ return g->valid != 0; }
static inline FileMode FileHDF5f_fileMode(const FileHDF5f *f)
{ return f->mode; }
typedef struct { int err; } HErr;
#define H5F_SCOPE_GLOBAL 1
extern int gh_be_flushes, gh_be_flush_result, gh_be_closes, gh_nullified, gh_closes_at_nullify;
extern int gh_h5_flushes, gh_h5_flush_err, gh_h5_flush_scope, gh_close_calls; extern hid_t gh_h5_flush_id;
static inline bool FileF_isNone(const FileF *f)
{ return f->is_none != 0; }
static inline bool FileF_backend_flush(FileF *f)
{ gh_be_flushes++; return gh_be_flush_result != 0; }
static inline void FileF_backend_close(FileF *f)
{ gh_be_closes++; }
static inline void FileF_nullify(FileF *f)
{ gh_nullified++; gh_closes_at_nullify = gh_be_closes; f->is_none = 1; }
static inline HErr H5Fflush(hid_t id, int scope)
{ gh_h5_flushes++; gh_h5_flush_id = id; gh_h5_flush_scope = scope; HErr e; e.err = gh_h5_flush_err; return e; }
static inline bool HErr_isError(const HErr *e)
{ return e->err < 0; }
static inline bool FileHDF5f_isValid(const FileHDF5f *f)
{ return f->valid != 0; }
static inline void FileHDF5f_close(FileHDF5f *f)
{ gh_close_calls++; }
bool File_flush(FileF *self)
__CPROVER_requires(__CPROVER_is_fresh(self, sizeof(FileF)) && self->is_none == 0 && gh_be_flushes == 0 && nix_exc == EXC_NONE)
__CPROVER_ensures(/*every-flush-reaches-the-back-end-exactly-once*/ gh_be_flushes == 1)
__CPROVER_ensures(/*reports-the-back-ends-outcome*/ RV == (gh_be_flush_result != 0))
NIX_CANARY(File_flush) __CPROVER_assigns(gh_be_flushes)
;
void File_close(FileF *self)
__CPROVER_requires(__CPROVER_is_fresh(self, sizeof(FileF)) && (self->is_none == 0 || self->is_none == 1) && gh_be_closes == 0 && gh_nullified == 0 && nix_exc == EXC_NONE)
__CPROVER_ensures(/*open-handle:back-end-closed-once-then-handle-dropped*/ __CPROVER_old(self->is_none) == 0 ==> (gh_be_closes == 1 && gh_nullified == 1 && gh_closes_at_nullify == 1 && self->is_none == 1))
__CPROVER_ensures(/*none-handle:nothing-happens*/ __CPROVER_old(self->is_none) != 0 ==> (gh_be_closes == 0 && gh_nullified == 0))
NIX_CANARY(File_close) __CPROVER_assigns(gh_be_closes, gh_nullified, gh_closes_at_nullify, self->is_none)
;
bool FileHDF5_flush(FileHDF5f *self)
__CPROVER_requires(__CPROVER_is_fresh(self, sizeof(FileHDF5f)) && gh_h5_flushes == 0 && nix_exc == EXC_NONE)
__CPROVER_ensures(/*H5Fflush-of-the-whole-file-exactly-once*/ gh_h5_flushes == 1 && gh_h5_flush_id == self->hid && gh_h5_flush_scope == H5F_SCOPE_GLOBAL)
__CPROVER_ensures(/*true-iff-libhdf5-reported-no-error*/ RV == !(gh_h5_flush_err < 0))
NIX_CANARY(FileHDF5_flush) __CPROVER_assigns(gh_h5_flushes, gh_h5_flush_id, gh_h5_flush_scope)
;
bool FileHDF5_isOpen(const FileHDF5f *self)
__CPROVER_requires(__CPROVER_is_fresh(self, sizeof(FileHDF5f)) && (self->valid == 0 || self->valid == 1))
__CPROVER_ensures(/*open-iff-the-file-identifier-is-valid*/ RV == (self->valid != 0))
NIX_CANARY(FileHDF5_isOpen) __CPROVER_assigns()
;
void FileHDF5_dtor(FileHDF5f *self)
__CPROVER_requires(__CPROVER_is_fresh(self, sizeof(FileHDF5f)) && gh_close_calls == 0)
__CPROVER_ensures(/*destruction-closes-the-file*/ gh_close_calls == 1)
NIX_CANARY(FileHDF5_dtor) __CPROVER_assigns(gh_close_calls)
;
#undef RV
#endif
