/* C05 / C06 / C17 / C18: util::positionToIndex(start_positions, end_positions, units, match, const SampledDimension& / const RangeDimension&)
   (src/util/dataAccess.cpp) - the converters the dispatcher hands a unit-carrying dimension to.
   "Expressing a tag's positions and extents ... in a scaled unit ... selects the same elements": lists of different length are refused (runtime_error) before
   anything is converted; otherwise the positions are first brought to the DIMENSION'S OWN unit (util::scalePositions, asked once with these lists, these
   units and the dimension's unit - the word none when it has none - writing into two fresh vectors of one entry per position), and the axis is then asked
   once for the SCALED lists in the REQUESTED range mode; its answer is returned unchanged.
   scalePositions (its own unit: c18_scale.h) and the axis' list conversion (c07_vec.h) are ghost records of their arguments. */
#ifndef C05_LISTCONV_H
#define C05_LISTCONV_H
#define RV __CPROVER_return_value
typedef struct { int id; } nstring;
typedef struct { int has; nstring val; } opt_nstr;
typedef struct { size_t n; int id; } vec_ustr;
typedef struct { int has_unit; nstring unit; int tag; } AxisU;
typedef AxisU SampledDimension; typedef AxisU RangeDimension;
typedef struct { int serial; size_t n; } vec_double_s;          /* a vector created here: its serial number and length */
typedef struct { int serial; } vec_opt_pair_v;
extern int gh_lc_vectors, gh_lc_scale_calls, gh_lc_scale_units, gh_lc_scale_dim_unit, gh_lc_scale_out_s, gh_lc_scale_out_e, gh_lc_axis_calls, gh_lc_axis_s, gh_lc_axis_e, gh_lc_axis_tag, gh_lc_axis_after_scale;
extern const double *gh_lc_scale_starts, *gh_lc_scale_ends; extern size_t gh_lc_len_s, gh_lc_len_e; extern RangeMatch gh_lc_axis_match;
#define LC_SERIAL 55
static inline vec_double_s mk_vec_double_s(size_t n)
{ vec_double_s v; v.serial = ++gh_lc_vectors; v.n = n; return v; }
static inline opt_nstr AxisU_unit(const AxisU *a)
{ opt_nstr o; o.has = a->has_unit != 0; o.val = a->unit; return o; }
static inline opt_nstr SampledDimension_unit(const AxisU *a)
{ return AxisU_unit(a); }
static inline opt_nstr RangeDimension_unit(const AxisU *a)
{ return AxisU_unit(a); }
static inline nstring nstring_lit(const char *lit)
{ __CPROVER_assert(lit[0] == 'n' && lit[1] == 'o' && lit[2] == 'n' && lit[3] == 'e' && lit[4] == 0, "only the literal \"none\" is modelled"); nstring s; s.id = 1; return s; }
static inline nstring opt_nstr_or(opt_nstr o, nstring dflt)
{ return o.has ? o.val : dflt; }
static inline void scalePositions_rec(const vec_double *starts, const vec_double *ends, const vec_ustr *units, const nstring *dim_unit, vec_double_s *out_s, vec_double_s *out_e)
{ gh_lc_scale_calls++; gh_lc_scale_starts = starts->data; gh_lc_scale_ends = ends->data; gh_lc_scale_units = units->id; gh_lc_scale_dim_unit = dim_unit->id; gh_lc_scale_out_s = out_s->serial; gh_lc_scale_out_e = out_e->serial;
  gh_lc_len_s = out_s->n; gh_lc_len_e = out_e->n; }
static inline vec_opt_pair_v lc_axis(const AxisU *a, const vec_double_s *s, const vec_double_s *e, RangeMatch m)
{ gh_lc_axis_calls++; gh_lc_axis_s = s->serial; gh_lc_axis_e = e->serial; gh_lc_axis_match = m; gh_lc_axis_tag = a->tag; gh_lc_axis_after_scale = gh_lc_scale_calls; vec_opt_pair_v r; r.serial = LC_SERIAL; return r; }
static inline vec_opt_pair_v SampledDimension_indexOf_lists(const AxisU *a, const vec_double_s *s, const vec_double_s *e, RangeMatch m)
{ return lc_axis(a, s, e, m); }
static inline vec_opt_pair_v RangeDimension_indexOf_lists(const AxisU *a, const vec_double_s *s, const vec_double_s *e, RangeMatch m)
{ return lc_axis(a, s, e, m); }
#define LC_PRE (__CPROVER_is_fresh(start_positions, sizeof(vec_double)) && __CPROVER_is_fresh(end_positions, sizeof(vec_double)) && __CPROVER_is_fresh(units, sizeof(vec_ustr)) && \
    __CPROVER_is_fresh(dimension, sizeof(AxisU)) && (dimension->has_unit == 0 || dimension->has_unit == 1) && dimension->unit.id >= 2 && \
    gh_lc_vectors == 0 && gh_lc_scale_calls == 0 && gh_lc_axis_calls == 0 && nix_exc == EXC_NONE)
#define LC_SAME_LEN (start_positions->n == end_positions->n && start_positions->n == units->n)
#define LC_POST \
__CPROVER_ensures(/*lists-of-different-length-are-refused-before-anything-is-converted*/ !LC_SAME_LEN <==> (nix_exc == EXC_runtime_error && gh_lc_scale_calls == 0 && gh_lc_axis_calls == 0)) \
__CPROVER_ensures(/*the-positions-are-first-brought-to-the-dimension-s-own-unit*/ LC_SAME_LEN ==> (gh_lc_scale_calls == 1 && gh_lc_scale_starts == start_positions->data && gh_lc_scale_ends == end_positions->data && \
                  gh_lc_scale_units == units->id && gh_lc_scale_dim_unit == (dimension->has_unit ? dimension->unit.id : 1) && gh_lc_scale_out_s != gh_lc_scale_out_e && gh_lc_len_s == end_positions->n && gh_lc_len_e == end_positions->n)) \
__CPROVER_ensures(/*then-the-axis-is-asked-once-for-the-SCALED-lists-in-the-requested-mode*/ LC_SAME_LEN ==> (gh_lc_axis_calls == 1 && gh_lc_axis_after_scale == 1 && gh_lc_axis_s == gh_lc_scale_out_s && gh_lc_axis_e == gh_lc_scale_out_e && \
                  gh_lc_axis_match == range_matching && gh_lc_axis_tag == dimension->tag)) \
__CPROVER_ensures(/*its-answer-is-returned-unchanged*/ LC_SAME_LEN ==> (RV.serial == LC_SERIAL && nix_exc == EXC_NONE))
#define LC_ASSIGNS nix_exc, gh_lc_vectors, gh_lc_scale_calls, gh_lc_scale_starts, gh_lc_scale_ends, gh_lc_scale_units, gh_lc_scale_dim_unit, gh_lc_scale_out_s, gh_lc_scale_out_e, gh_lc_len_s, gh_lc_len_e, \
                   gh_lc_axis_calls, gh_lc_axis_s, gh_lc_axis_e, gh_lc_axis_match, gh_lc_axis_tag, gh_lc_axis_after_scale
NIX_THROWS vec_opt_pair_v positionToIndex_list_sampled(const vec_double *start_positions, const vec_double *end_positions, const vec_ustr *units, RangeMatch range_matching, const SampledDimension *dimension)
__CPROVER_requires(LC_PRE)
LC_POST
NIX_CANARY(positionToIndex_list_sampled) __CPROVER_assigns(LC_ASSIGNS)
;
NIX_THROWS vec_opt_pair_v positionToIndex_list_range(const vec_double *start_positions, const vec_double *end_positions, const vec_ustr *units, RangeMatch range_matching, const RangeDimension *dimension)
__CPROVER_requires(LC_PRE)
LC_POST
NIX_CANARY(positionToIndex_list_range) __CPROVER_assigns(LC_ASSIGNS)
;
#undef RV
#endif
