/* C05 / C06 / C17 / C18: util::positionToIndex(position, unit, match, const SampledDimension&) (src/util/dataAccess.cpp) - the single-position converter
   behind the point fallback ("a zero or absent extent selects the single first element at or after the position").
   Decided: a position given with a unit on a dimension without unit is refused (IncompatibleDimensions), and so is an inconvertible unit, in both cases
   without asking the axis; otherwise the axis is asked exactly once, with the matching rule requested, for position x factor, where the factor is the
   SI factor from the position's unit to the dimension's unit and exactly 1 when the position has no unit; the answer is returned unchanged.
   getSIScaling is a ghost answering the CONSTANT 0.5 (or InvalidUnit when gh_sc_bad) - a symbolic factor makes the product symbolic x symbolic, which
   does not terminate (DESIGN 2); the position is any double.  Strings are abstract ids (1 = "none"). */
#ifndef C05_SCALARCONV_H
#define C05_SCALARCONV_H
#define RV __CPROVER_return_value
typedef struct { int id; } nstring;
typedef struct { int has; nstring val; } opt_string;
typedef struct { int has_unit; nstring unit; int tag; } AxisS;
typedef AxisS SampledDimension;
extern int gh_sc_bad, gh_sc_factor_calls, gh_sc_axis_calls, gh_sc_axis_tag; extern double gh_sc_asked; extern PositionMatch gh_sc_match;
#define SC1_FACTOR 0.5
#define SC1_SERIAL 321
static inline opt_string SampledDimension_unit(const AxisS *a)
{ opt_string o; o.has = a->has_unit != 0; o.val = a->unit; return o; }
static inline bool nstring_ne_cstr(const nstring *a, const char *lit)
{ __CPROVER_assert(lit[0] == 'n' && lit[1] == 'o' && lit[2] == 'n' && lit[3] == 'e' && lit[4] == 0, "only the literal \"none\" is modelled"); return a->id != 1; }
static inline double getSIScaling_caught(const nstring *origin, nstring destination)
{ gh_sc_factor_calls++; if (gh_sc_bad) { nix_exc = EXC_InvalidUnit; return 0.0; } return SC1_FACTOR; }
#define NIX_CATCH_ALL_RETHROW(E) if (nix_exc) { nix_exc = EXC_##E; return NIX_RET_DEFAULT; }
static inline opt_ndsize SampledDimension_indexOf_scalar(const AxisS *a, double position, PositionMatch match)
{ gh_sc_axis_calls++; gh_sc_asked = position; gh_sc_match = match; gh_sc_axis_tag = a->tag; opt_ndsize r; r.has = 1; r.val = SC1_SERIAL; return r; }
#define SAME_D(a, b) ((a) == (b) || (isnan(a) && isnan(b)))
#define SC1_HAS_UNIT (unit->id != 1)
NIX_THROWS opt_ndsize positionToIndex_scalar_sampled(double position, const nstring *unit, PositionMatch match, const SampledDimension *dimension)
__CPROVER_requires(__CPROVER_is_fresh(unit, sizeof(nstring)) && __CPROVER_is_fresh(dimension, sizeof(AxisS)) && (dimension->has_unit == 0 || dimension->has_unit == 1) && (gh_sc_bad == 0 || gh_sc_bad == 1) &&
                   gh_sc_factor_calls == 0 && gh_sc_axis_calls == 0 && nix_exc == EXC_NONE)
__CPROVER_ensures(/*a-unit-on-a-dimension-without-unit-or-an-inconvertible-unit-is-refused-without-asking-the-axis*/
                  (SC1_HAS_UNIT && (!dimension->has_unit || gh_sc_bad)) <==> (nix_exc == EXC_IncompatibleDimensions && gh_sc_axis_calls == 0))
__CPROVER_ensures(/*a-position-without-unit-is-asked-as-it-is*/ !SC1_HAS_UNIT ==> (nix_exc == EXC_NONE && gh_sc_axis_calls == 1 && SAME_D(gh_sc_asked, position) && gh_sc_factor_calls == 0))
__CPROVER_ensures(/*a-position-with-unit-is-asked-times-its-SI-factor*/ (SC1_HAS_UNIT && dimension->has_unit && !gh_sc_bad) ==> (nix_exc == EXC_NONE && gh_sc_axis_calls == 1 && gh_sc_factor_calls == 1 && SAME_D(gh_sc_asked, position * SC1_FACTOR)))
__CPROVER_ensures(/*with-the-requested-rule-on-this-axis-and-the-answer-returned*/ nix_exc == EXC_NONE ==> (gh_sc_match == match && gh_sc_axis_tag == dimension->tag && RV.has && RV.val == SC1_SERIAL))
NIX_CANARY(positionToIndex_scalar_sampled) __CPROVER_assigns(nix_exc, gh_sc_factor_calls, gh_sc_axis_calls, gh_sc_asked, gh_sc_match, gh_sc_axis_tag)
;
#undef RV
#endif
