/* C16 (also C04): BaseTagHDF5::getFeature(name_or_id) and getFeature(index) (backend/hdf5/BaseTagHDF5.cpp).
   "No sequence of public API calls ... including ... empty containers, uninitialised or deleted entity handles - causes undefined behaviour
   (... null dereference ...)".  After the DataArray a feature points to has been deleted (C04: every link to it is removed, also the feature's),
   FeatureHDF5::data() returns a NULL shared_ptr; a tag that never had a feature has no feature group (feature_group(false) is an empty optional).
   Decided here: the lookup never dereferences a null shared_ptr and never reads through an empty optional; and which feature it answers:
   none without a feature group; the feature whose own name / id is the key if there is one; otherwise the FIRST feature whose data array exists
   and has the key as name or id; none if there is no such feature.
   The feature group is a ghost table (number of features; per feature: does its data array still exist, that array's name and id). */
#ifndef C16_FEATURE_H
#define C16_FEATURE_H
#define RV __CPROVER_return_value
#ifdef C16_BOUNDED
#define FT_NMAX C16_BOUNDED
#else
#define FT_NMAX VEC_MAX
#endif
typedef struct { int id; } nstring;
typedef struct { long grp; } H5Group;                      /* grp >= 0: feature number; -1: the feature group itself; -2: NOT A GROUP (payload of an empty optional) */
typedef struct { int has; H5Group val; } opt_H5Group;
typedef struct { int null; long grp; } FeatureP;           /* std::shared_ptr<FeatureHDF5> / <IFeature> */
typedef struct { int null; nstring name; nstring id; } DataArrayP;   /* std::shared_ptr<base::IDataArray> */
typedef struct { int _t; } BaseTagHDF5;
extern int gh_has_group, gh_direct_has; extern long gh_direct_grp; extern size_t gh_nfeat;
extern int *gh_da_null; extern int *gh_da_name; extern int *gh_da_id;      /* per feature: data array gone?, its name, its id */
#define NAME_BASE 1000
static inline opt_H5Group BaseTagHDF5_feature_group(const BaseTagHDF5 *self, bool create)
{ __CPROVER_assert(!create, "a lookup does not create the feature group"); opt_H5Group g; g.has = gh_has_group != 0; g.val.grp = gh_has_group ? -1 : -2; return g; }
static inline opt_H5Group H5Group_findGroupByNameOrAttribute(const H5Group *g, const char *attr, const nstring *key)
{ __CPROVER_assert(g->grp == -1, "the feature group is searched (not the payload of an empty optional)"); opt_H5Group r; r.has = gh_direct_has != 0; r.val.grp = gh_direct_has ? gh_direct_grp : -2; return r; }
static inline ndsize_t H5Group_objectCount(const H5Group *g)
{ __CPROVER_assert(g->grp == -1, "objectCount of the feature group (not of the payload of an empty optional)"); return gh_nfeat; }
static inline nstring H5Group_objectName(const H5Group *g, ndsize_t index)
{ __CPROVER_assert(/*no-read-through-an-empty-optional*/ g->grp == -1, "objectName of the feature group (not of the payload of an empty optional)"); nstring s; s.id = index < gh_nfeat ? (int)(NAME_BASE + index) : 0; return s; }
static inline H5Group H5Group_openGroup(const H5Group *g, nstring name, bool create)
{ __CPROVER_assert(g->grp == -1 && !create && name.id >= NAME_BASE && (size_t)(name.id - NAME_BASE) < gh_nfeat, "an existing feature is opened"); H5Group r; r.grp = name.id - NAME_BASE; return r; }
static inline FeatureP FeatureP_default(void)
{ FeatureP p; p.null = 1; p.grp = -2; return p; }
static inline FeatureP mk_FeatureP(H5Group g)
{ __CPROVER_assert(g.grp >= 0, "a feature object is made for an existing feature group"); FeatureP p; p.null = 0; p.grp = g.grp; return p; }
static inline DataArrayP FeatureP_data(const FeatureP *f)
{ __CPROVER_assert(!f->null && f->grp >= 0 && (size_t)f->grp < gh_nfeat, "data() of an existing feature");
  DataArrayP d; d.null = gh_da_null[f->grp] != 0; d.name.id = gh_da_name[f->grp]; d.id.id = gh_da_id[f->grp]; return d; }
static inline bool DataArrayP_name_is(const DataArrayP *d, const nstring *key)
{ __CPROVER_assert(/*no-null-shared_ptr-is-dereferenced*/ !d->null, "the data array of a feature is dereferenced only if it still exists (null shared_ptr)"); return d->name.id == key->id; }
static inline bool DataArrayP_id_is(const DataArrayP *d, const nstring *key)
{ __CPROVER_assert(/*no-null-shared_ptr-is-dereferenced*/ !d->null, "the data array of a feature is dereferenced only if it still exists (null shared_ptr)"); return d->id.id == key->id; }
static inline bool DataArrayP_bool(const DataArrayP *d)
{ return !d->null; }
#define FT_MATCH(k) (!gh_da_null[k] && (gh_da_name[k] == name_or_id->id || gh_da_id[k] == name_or_id->id))
#define FT_PRE (__CPROVER_is_fresh(self, sizeof(BaseTagHDF5)) && (gh_has_group == 0 || gh_has_group == 1) && (gh_direct_has == 0 || gh_direct_has == 1) && gh_nfeat <= FT_NMAX && \
                (gh_direct_has ==> (gh_direct_grp >= 0 && (size_t)gh_direct_grp < gh_nfeat)) && \
                __CPROVER_is_fresh(gh_da_null, (gh_nfeat ? gh_nfeat : 1) * sizeof(int)) && __CPROVER_is_fresh(gh_da_name, (gh_nfeat ? gh_nfeat : 1) * sizeof(int)) && \
                __CPROVER_is_fresh(gh_da_id, (gh_nfeat ? gh_nfeat : 1) * sizeof(int)) && nix_exc == EXC_NONE)
FeatureP BaseTagHDF5_getFeature_key(const BaseTagHDF5 *self, const nstring *name_or_id)
__CPROVER_requires(NIX_SEL(BaseTagHDF5_getFeature_key, FT_PRE && __CPROVER_is_fresh(name_or_id, sizeof(nstring)), (gh_has_group == 0 || gh_has_group == 1) && nix_exc == EXC_NONE))
__CPROVER_ensures(/*a-tag-without-feature-group-has-no-feature*/ !gh_has_group ==> RV.null)
__CPROVER_ensures(/*the-feature-named-or-identified-by-the-key-first*/ (gh_has_group && gh_direct_has) ==> (!RV.null && RV.grp == gh_direct_grp))
__CPROVER_ensures(/*else-the-first-feature-whose-existing-data-array-has-the-key*/ (gh_has_group && !gh_direct_has && ghost_k < gh_nfeat && FT_MATCH(ghost_k)) ==> (!RV.null && RV.grp >= 0 && (size_t)RV.grp <= ghost_k))
__CPROVER_ensures(/*a-feature-answered-by-its-data-array-does-match*/ (gh_has_group && !gh_direct_has && !RV.null) ==> (RV.grp >= 0 && (size_t)RV.grp < gh_nfeat && FT_MATCH(RV.grp)))
__CPROVER_ensures(/*never-throws*/ nix_exc == EXC_NONE)
NIX_CANARY(BaseTagHDF5_getFeature_key) __CPROVER_assigns(nix_exc)
;
/* in getFeature(index) the lookup by key is an opaque answer (its own contract: above) */
FeatureP nondet_FeatureP(void);
static inline FeatureP BaseTagHDF5_getFeature_bykey(const BaseTagHDF5 *self, const nstring *key)
{ return nondet_FeatureP(); }
/* getFeature(index): the feature with that position in the group; a tag without feature group has none (OutOfBounds) */
NIX_THROWS FeatureP BaseTagHDF5_getFeature_index(const BaseTagHDF5 *self, ndsize_t index)
__CPROVER_requires(__CPROVER_is_fresh(self, sizeof(BaseTagHDF5)) && (gh_has_group == 0 || gh_has_group == 1) && gh_nfeat <= FT_NMAX && nix_exc == EXC_NONE)
__CPROVER_ensures(/*a-tag-without-feature-group-has-no-feature-at-any-index*/ !gh_has_group ==> nix_exc == EXC_OutOfBounds)
__CPROVER_ensures(nix_exc == EXC_NONE || nix_exc == EXC_OutOfBounds)
NIX_CANARY(BaseTagHDF5_getFeature_index) __CPROVER_assigns(nix_exc)
;
#undef RV
#endif
