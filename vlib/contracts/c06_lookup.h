/* C06: getOffsetAndCount(MultiTag, array, indices, ...) - the body of the per-dimension LOOKUP loop (region unit):
       vector<string> temp_units(start_positions[d].size(), units[d]);
       ranges = positionToIndex(start_positions[d], end_positions[d], temp_units, match, dimensions[d]);   data_indices.push_back(ranges);
   "... under the same inclusive / exclusive and unspecified-dimension rules as for a Tag": for dimension d the axis is asked ONCE for the regions
   [start, end] of all requested positions along d (the start list and the end list of THIS dimension, not swapped), with one unit entry per position,
   each the unit of dimension d, in the REQUESTED range mode; the answer becomes the row of dimension d.
   An unspecified dimension was padded with [first coordinate, last coordinate] (getMaxExtent), so its region must be closed at the end whatever
   the mode - the clause that states this FAILS on the pinned tree (known finding KF-C06-exclusive-padding, same mechanism as KF-C05-exclusive-padding).
   The vectors and the axis lookup are ghost records. */
#ifndef C06_LOOKUP_H
#define C06_LOOKUP_H
#define RV __CPROVER_return_value
typedef struct { int id; } nstring;
typedef struct { int which; size_t n; } vec_double_g;            /* which: 1 = start positions of dimension d, 2 = end positions of dimension d */
typedef struct { size_t n; int unit; } vec_string_g;
typedef struct { int serial; } vec_opt_pair_g;
typedef struct { int _r; } vec_rows_g;
typedef struct { int _d; } Dimension;
extern int gh_lk_calls, gh_lk_starts, gh_lk_ends, gh_lk_unit, gh_lk_rows_pushed, gh_lk_row_serial; extern size_t gh_lk_units_n; extern RangeMatch gh_lk_match;
extern int gh_unspecified;     /* ghost, chosen by the harness, invisible to the code: dimension d is one the positions array does NOT specify (it was padded) */
#define LK_SERIAL 42
static inline size_t vec_double_g_size(const vec_double_g *v)
{ return v->n; }
static inline vec_string_g mk_vec_string_g_fill(size_t n, const nstring *s)
{ vec_string_g v; v.n = n; v.unit = s->id; return v; }
static inline vec_opt_pair_g positionToIndex_vec(const vec_double_g *starts, const vec_double_g *ends, const vec_string_g *units, RangeMatch match, const Dimension *dimension)
{ gh_lk_calls++; gh_lk_starts = starts->which; gh_lk_ends = ends->which; gh_lk_units_n = units->n; gh_lk_unit = units->unit; gh_lk_match = match; vec_opt_pair_g r; r.serial = LK_SERIAL; return r; }
static inline void vec_rows_g_push_back(vec_rows_g *rows, vec_opt_pair_g row)
{ gh_lk_rows_pushed++; gh_lk_row_serial = row.serial; }
void mtag_lookup_dim(vec_double_g *starts_d, vec_double_g *ends_d, const nstring *unit_d, RangeMatch match, const Dimension *dimension_d, vec_rows_g *data_indices)
__CPROVER_requires(__CPROVER_is_fresh(starts_d, sizeof(vec_double_g)) && __CPROVER_is_fresh(ends_d, sizeof(vec_double_g)) && starts_d->which == 1 && ends_d->which == 2 && starts_d->n == ends_d->n &&
                   __CPROVER_is_fresh(unit_d, sizeof(nstring)) && __CPROVER_is_fresh(dimension_d, sizeof(Dimension)) && __CPROVER_is_fresh(data_indices, sizeof(vec_rows_g)) &&
                   (match == RangeMatch_Inclusive || match == RangeMatch_Exclusive) && gh_lk_calls == 0 && gh_lk_rows_pushed == 0 && nix_exc == EXC_NONE)
__CPROVER_ensures(/*the-axis-is-asked-once-for-the-start-and-end-lists-of-this-dimension*/ gh_lk_calls == 1 && gh_lk_starts == 1 && gh_lk_ends == 2)
__CPROVER_ensures(/*one-unit-entry-per-position-each-the-unit-of-this-dimension*/ gh_lk_units_n == starts_d->n && gh_lk_unit == unit_d->id)
__CPROVER_ensures(/*in-the-requested-range-mode*/ !gh_unspecified ==> gh_lk_match == match)
__CPROVER_ensures(/*unspecified-dimension-keeps-its-last-element*/ gh_unspecified ==> gh_lk_match == RangeMatch_Inclusive)
__CPROVER_ensures(/*the-answer-becomes-the-row-of-this-dimension*/ gh_lk_rows_pushed == 1 && gh_lk_row_serial == LK_SERIAL && nix_exc == EXC_NONE)
NIX_CANARY(mtag_lookup_dim) __CPROVER_assigns(nix_exc, gh_lk_calls, gh_lk_starts, gh_lk_ends, gh_lk_units_n, gh_lk_unit, gh_lk_match, gh_lk_rows_pushed, gh_lk_row_serial)
;
#undef RV
#endif
