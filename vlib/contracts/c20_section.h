/* C20: Section::findSections (src/Section.cpp) - the work-list traversal behind findSections / findRelated.
   "Searching sections ... with a filter and a depth limit returns exactly the entities - each once - that a brute-force traversal of the tree finds
   within that depth (a search started at a single section ... lists them in breadth-first order ...)".
   Two units: (1) addChildrenIfNotMaxDepth(current, todo, max_depth): the children of the current node are appended to the BACK of the list, in child
   order, one level deeper, iff the node's depth is below the limit - nothing else is appended, nothing is reported;  (2) the body of the while loop:
   the node at the FRONT is removed, filtered exactly once, reported iff accepted, and then expanded by (1) (checked against (1)'s contract).
   std::list (front / pop_front / emplace_back = FIFO), the result vector, the filter and Section::sections() are ghost records (ASSUMED). */
#ifndef C20_SECTION_H
#define C20_SECTION_H
#define RV __CPROVER_return_value
#ifdef C20_BOUNDED
#define C20_NMAX C20_BOUNDED
#else
#define C20_NMAX VEC_MAX
#endif
typedef struct { int node; } Section;
typedef struct { Section _0; size_t _1; } SectionCont;          /* std::tuple<Section, size_t>: (entity, depth) */
typedef struct { Section *data; size_t n; } vec_Section;
typedef struct { int _q; } list_SectionCont;
typedef struct { int _f; } SectionFilterFn;
extern SectionCont gh_front;               /* front of the list */
extern int gh_pops, gh_filter_calls, gh_filter_node, gh_filter_ok, gh_res_pushes, gh_res_node, gh_expand_calls, gh_expand_node; extern size_t gh_expand_depth;
extern size_t gh_enq;                      /* elements appended to the list */
extern Section *gh_children; extern size_t gh_nchildren; extern int gh_children_of; extern size_t gh_parent_depth;
static inline SectionCont mk_SectionCont(Section e, size_t depth)
{ SectionCont c; c._0 = e; c._1 = depth; return c; }
static inline SectionCont list_SectionCont_front(const list_SectionCont *q)
{ __CPROVER_assert(gh_pops == 0, "front() before pop_front()"); return gh_front; }
static inline void list_SectionCont_pop_front(list_SectionCont *q)
{ gh_pops++; }
static inline void list_SectionCont_emplace_back(list_SectionCont *q, const Section *s, size_t depth)
{ __CPROVER_assert(/*only-children-of-the-current-node-in-order-one-level-deeper-are-appended*/ gh_enq < gh_nchildren && s->node == gh_children[gh_enq].node && depth == gh_parent_depth + 1,
                   "only the children of the current node are appended, in child order, one level deeper");
  gh_enq++; }
static inline bool SectionFilterFn_call(const SectionFilterFn *f, Section s)
{ gh_filter_calls++; gh_filter_node = s.node; return gh_filter_ok != 0; }
static inline void vec_Section_push_back(vec_Section *v, Section s)
{ gh_res_pushes++; gh_res_node = s.node; }
static inline vec_Section Section_sections(const Section *s)
{ gh_children_of = s->node; vec_Section v; v.data = gh_children; v.n = gh_nchildren; return v; }
void addChildrenIfNotMaxDepth(SectionCont *current, list_SectionCont *todo, size_t max_depth)
__CPROVER_requires(NIX_SEL(addChildrenIfNotMaxDepth, __CPROVER_is_fresh(current, sizeof(SectionCont)) && __CPROVER_is_fresh(todo, sizeof(list_SectionCont)) &&
                                                     gh_nchildren <= C20_NMAX && __CPROVER_is_fresh(gh_children, gh_nchildren * sizeof(Section)) && gh_enq == 0 && gh_children_of == -1 && current->_0.node >= 0 &&
                                                     gh_parent_depth == current->_1 && nix_exc == EXC_NONE,
                                                     __CPROVER_r_ok(current, sizeof(SectionCont)) && gh_enq == 0 && gh_children_of == -1 && gh_parent_depth == current->_1 && nix_exc == EXC_NONE))
__CPROVER_ensures(/*children-appended-iff-depth-below-the-limit*/ gh_enq == (current->_1 < max_depth ? gh_nchildren : 0))
__CPROVER_ensures(/*the-children-are-those-of-the-current-node*/ current->_1 < max_depth ==> gh_children_of == current->_0.node)
__CPROVER_ensures(/*never-throws*/ nix_exc == EXC_NONE)
NIX_CANARY(addChildrenIfNotMaxDepth) __CPROVER_assigns(nix_exc, gh_enq, gh_children_of)
;
void section_bfs_step(const SectionFilterFn *filter, size_t max_depth, list_SectionCont *todo, vec_Section *results, SectionCont *current)
__CPROVER_requires(__CPROVER_is_fresh(filter, sizeof(SectionFilterFn)) && __CPROVER_is_fresh(todo, sizeof(list_SectionCont)) && __CPROVER_is_fresh(results, sizeof(vec_Section)) && __CPROVER_is_fresh(current, sizeof(SectionCont)))
__CPROVER_requires(gh_pops == 0 && gh_filter_calls == 0 && gh_res_pushes == 0 && gh_enq == 0 && (gh_filter_ok == 0 || gh_filter_ok == 1) && gh_children_of == -1 && gh_front._0.node >= 0 &&
                   gh_parent_depth == gh_front._1 && gh_nchildren <= C20_NMAX && nix_exc == EXC_NONE)
__CPROVER_ensures(/*the-front-node-is-removed-and-filtered-exactly-once*/ gh_pops == 1 && gh_filter_calls == 1 && gh_filter_node == gh_front._0.node)
__CPROVER_ensures(/*reported-iff-the-filter-accepts-it*/ gh_res_pushes == (gh_filter_ok ? 1 : 0) && (gh_filter_ok ==> gh_res_node == gh_front._0.node))
__CPROVER_ensures(/*the-front-node-is-the-one-expanded*/ current->_0.node == gh_front._0.node && current->_1 == gh_front._1)
__CPROVER_ensures(/*children-appended-iff-depth-below-the-limit*/ gh_enq == (gh_front._1 < max_depth ? gh_nchildren : 0) && (gh_front._1 < max_depth ==> gh_children_of == gh_front._0.node))
__CPROVER_ensures(/*never-throws*/ nix_exc == EXC_NONE)
NIX_CANARY(section_bfs_step) __CPROVER_assigns(nix_exc, gh_pops, gh_filter_calls, gh_filter_node, gh_res_pushes, gh_res_node, gh_enq, gh_children_of; *current)
;
/* Section::inheritedProperties(): WHERE the candidate properties come from (region unit: everything before the merge).
   "The inherited properties of a section are its own plus those properties of its linked section that are not shadowed by name": the section's
   own properties are taken from the section itself; the candidates to inherit are the OWN properties of the section it links to (one level -
   not that section's inherited properties); a section without link has just its own.  The merge itself (copy_if / find_if over lambdas:
   "not shadowed by name") is outside the idiom map and NOT covered. */
#define TMP_Section(v) ((Section[1]){(v)})
typedef struct { int _p; } Property;
typedef struct { Property *data; size_t n; int of_node; } vec_Property;
extern int gh_link_none, gh_prop_calls_self, gh_prop_calls_link, gh_inh_calls;
#define SELF_NODE 3
#define LINK_NODE 8
static inline bool Section_linkIsNone(const Section *self)
{ return gh_link_none != 0; }
static inline Section Section_link(const Section *self)
{ __CPROVER_assert(self->node == SELF_NODE, "the link of THIS section"); Section l; l.node = gh_link_none ? -1 : LINK_NODE; return l; }
static inline vec_Property Section_properties(const Section *s)
{ vec_Property v; v.data = 0; v.n = 0; v.of_node = s->node; if (s->node == SELF_NODE) gh_prop_calls_self++; else gh_prop_calls_link++; return v; }
static inline vec_Property Section_inheritedProperties(const Section *s)
{ vec_Property v; v.data = 0; v.n = 0; v.of_node = -2; gh_inh_calls++; return v; }
vec_Property section_inherit_sources(Section *self)
__CPROVER_requires(__CPROVER_is_fresh(self, sizeof(Section)) && self->node == SELF_NODE && (gh_link_none == 0 || gh_link_none == 1) && gh_prop_calls_self == 0 && gh_prop_calls_link == 0 && gh_inh_calls == 0 && nix_exc == EXC_NONE)
__CPROVER_ensures(/*a-section-without-link-has-just-its-own-properties*/ gh_link_none ==> (RV.of_node == SELF_NODE && gh_prop_calls_link == 0 && gh_inh_calls == 0))
__CPROVER_ensures(/*candidates-are-the-OWN-properties-of-the-linked-section*/ !gh_link_none ==> (RV.of_node == LINK_NODE && gh_prop_calls_link == 1 && gh_inh_calls == 0))
__CPROVER_ensures(/*own-properties-are-read-from-the-section-itself*/ gh_prop_calls_self == 1 && nix_exc == EXC_NONE)
NIX_CANARY(section_inherit_sources) __CPROVER_assigns(nix_exc, gh_prop_calls_self, gh_prop_calls_link, gh_inh_calls)
;
/* File::findSections (src/File.cpp) and Block::findSources (src/Block.cpp): the searches started at the file / the block - the bodies of their loops
   over the root sections / the top-level sources (region units).
   File: a root section is filtered exactly once and reported iff accepted, BEFORE its subtree; its subtree is searched once, from that root, with the
   same filter and one level less (roots are level 1), and that answer is appended after it.  Block: each top-level source's own search (which reports
   the source itself at level 0) is asked once with the same filter and the same depth limit, and its answer is appended.
   NOT decided: the loop headers, the early return of File::findSections for depth 0 (it is what makes "max_depth - 1" safe: a precondition here). */
typedef struct { int serial; size_t n; } vec_SectionA;            /* a search answer as a value */
extern int gh_fs_calls, gh_fs_node, gh_fs_filter, gh_fs_after_report, gh_fs_appends, gh_fs_append_serial, gh_fs_append_after_report; extern size_t gh_fs_depth;
#define FS_FILTER_ID 5
#define FS_SERIAL 31
static inline vec_SectionA Section_findSections_a(const Section *s, const SectionFilterFn *f, size_t depth)
{ gh_fs_calls++; gh_fs_node = s->node; gh_fs_filter = f->_f; gh_fs_depth = depth; gh_fs_after_report = gh_res_pushes + gh_filter_calls; vec_SectionA v; v.serial = FS_SERIAL; v.n = 0; return v; }
static inline void vec_Section_append(vec_Section *dst, const vec_SectionA *src)
{ gh_fs_appends++; gh_fs_append_serial = src->serial; gh_fs_append_after_report = gh_res_pushes; }
void file_find_root(const SectionFilterFn *filter, size_t max_depth, vec_Section *results, Section *root)
__CPROVER_requires(__CPROVER_is_fresh(filter, sizeof(SectionFilterFn)) && filter->_f == FS_FILTER_ID && __CPROVER_is_fresh(results, sizeof(vec_Section)) && __CPROVER_is_fresh(root, sizeof(Section)) && root->node >= 0 &&
                   max_depth >= 1 && gh_filter_calls == 0 && gh_res_pushes == 0 && gh_fs_calls == 0 && gh_fs_appends == 0 && (gh_filter_ok == 0 || gh_filter_ok == 1) && nix_exc == EXC_NONE)
__CPROVER_ensures(/*the-root-is-filtered-once-and-reported-iff-accepted*/ gh_filter_calls == 1 && gh_filter_node == root->node && gh_res_pushes == (gh_filter_ok ? 1 : 0) && (gh_filter_ok ==> gh_res_node == root->node))
__CPROVER_ensures(/*its-subtree-is-searched-once-from-that-root-with-the-same-filter-one-level-less*/ gh_fs_calls == 1 && gh_fs_node == root->node && gh_fs_filter == FS_FILTER_ID && gh_fs_depth == max_depth - 1)
__CPROVER_ensures(/*the-subtree-answer-is-appended-after-the-root*/ gh_fs_appends == 1 && gh_fs_append_serial == FS_SERIAL && gh_fs_append_after_report == gh_res_pushes && nix_exc == EXC_NONE)
NIX_CANARY(file_find_root) __CPROVER_assigns(nix_exc, gh_filter_calls, gh_filter_node, gh_res_pushes, gh_res_node, gh_fs_calls, gh_fs_node, gh_fs_filter, gh_fs_depth, gh_fs_after_report, gh_fs_appends, gh_fs_append_serial, gh_fs_append_after_report)
;
#undef RV
#endif
