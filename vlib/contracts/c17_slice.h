/* C17: position-based slicing, dataSlice (src/util/dataAccess.cpp) - the per-dimension body of its assembly loop (region unit).
   "A position-based slice returns, per dimension, exactly the indices whose coordinate lies in [start, end] (inclusive) or
   [start, end) (exclusive), raises an out-of-bounds error when that set is empty and rejects start > end."
   The two index lookups are ghost inputs (their rules are C07's contracts): the pair lookup must be asked for
   [my_start[i], my_end[i]] - the padded vectors - in the given mode; the point fallback asks GreaterOrEqual(my_start[i]).
   start / end (the caller's vectors) may be SHORTER than the number of dimensions; my_start / my_end / my_units are the
   padded copies (one entry per dimension). */
#ifndef C17_SLICE_H
#define C17_SLICE_H
#define RV __CPROVER_return_value
typedef struct { int id; } nstring;
typedef struct { nstring *data; size_t n; } vec_nstr;
typedef struct { ndsize_t index; } Dimension;
extern opt_pair gh_pair; extern opt_ndsize gh_ge;
extern double gh_pair_start, gh_pair_end; extern RangeMatch gh_pair_match; extern int gh_pair_calls; extern ndsize_t gh_pair_dim, gh_ge_dim; extern int gh_pair_unit, gh_ge_unit;
static inline Dimension DataArray_getDimension(const DataArray *self, ndsize_t index)
{ Dimension d; d.index = index; return d; }
static inline opt_pair positionToIndex_pair1v(double start, double end, nstring unit, RangeMatch match, Dimension dimension)
{ gh_pair_calls++; gh_pair_start = start; gh_pair_end = end; gh_pair_match = match; gh_pair_dim = dimension.index; gh_pair_unit = unit.id; return gh_pair; }
NIX_THROWS opt_ndsize positionToIndex_scalarv(double position, nstring unit, PositionMatch match, Dimension dimension)
__CPROVER_requires(/*point-fallback-asks-first-element-at-or-after-the-padded-start-of-this-dimension*/ nix_exc == EXC_NONE && match == PositionMatch_GreaterOrEqual &&
                   (position == gh_pair_start || (isnan(position) && isnan(gh_pair_start))) && dimension.index == gh_pair_dim && unit.id == gh_pair_unit)
__CPROVER_ensures(nix_exc == EXC_NONE || nix_exc == EXC_IncompatibleDimensions)
__CPROVER_ensures(nix_exc == EXC_NONE ==> ((RV.has != 0) == (gh_ge.has != 0) && RV.val == gh_ge.val))
__CPROVER_assigns(nix_exc)
;
#define S_GIVEN_(i) ((i) < start->n && (i) < end->n)
#define S_OLD(p, k) __CPROVER_old((p)->dims[k])
#define VD_OK(v, len) (__CPROVER_is_fresh(v, sizeof(vec_double)) && (v)->n == (len) && __CPROVER_is_fresh((v)->data, (len) * sizeof(double)))
NIX_THROWS void slice_assemble_dim(const DataArray *array, const vec_double *start, const vec_double *end, const vec_double *my_start, const vec_double *my_end, const vec_nstr *my_units, RangeMatch match, NDSize *count, NDSize *offset, size_t i)
__CPROVER_requires(ND_OK(offset) && ND_OK(count) && offset->rank == count->rank && i < offset->rank && __CPROVER_is_fresh(array, sizeof(DataArray)))
__CPROVER_requires(VD_OK(my_start, offset->rank) && VD_OK(my_end, offset->rank) && __CPROVER_is_fresh(my_units, sizeof(vec_nstr)) && my_units->n == offset->rank && __CPROVER_is_fresh(my_units->data, offset->rank * sizeof(nstring)))
__CPROVER_requires(/*the caller's vectors may be shorter than the number of dimensions*/ __CPROVER_is_fresh(start, sizeof(vec_double)) && start->n <= offset->rank && __CPROVER_is_fresh(start->data, start->n * sizeof(double)) &&
                   __CPROVER_is_fresh(end, sizeof(vec_double)) && end->n <= offset->rank && __CPROVER_is_fresh(end->data, end->n * sizeof(double)))
__CPROVER_requires(/*my_start / my_end are copies of start / end where those have entries*/ (i < start->n ==> start->data[i] == my_start->data[i]) && (i < end->n ==> end->data[i] == my_end->data[i]))
__CPROVER_requires(nix_exc == EXC_NONE && gh_pair_calls == 0 && (match == RangeMatch_Inclusive || match == RangeMatch_Exclusive))
__CPROVER_ensures(/*start-after-end-rejected*/ (my_start->data[i] > my_end->data[i]) <==> nix_exc == EXC_invalid_argument)
__CPROVER_ensures(/*region-asked-is-padded-start-to-padded-end-of-dimension-i-in-the-given-mode*/ !(my_start->data[i] > my_end->data[i]) ==> (gh_pair_calls == 1 && (S_GIVEN_(i) ==> gh_pair_match == match) && gh_pair_dim == i + 1 &&
                  gh_pair_unit == my_units->data[i].id && (gh_pair_start == my_start->data[i] || isnan(my_start->data[i])) && (gh_pair_end == my_end->data[i] || isnan(my_end->data[i]))))
/* "with dimensions that are not specified included in full": a dimension the caller left out (i beyond the caller's start / end vectors) is padded with
   [first coordinate, last coordinate] (fill_pad_dim), so its region is closed at the end whatever the requested mode */
#define S_GIVEN(i) ((i) < start->n && (i) < end->n)
__CPROVER_ensures(/*unspecified-dimension-is-included-in-full-in-either-mode*/ (!S_GIVEN(i) && !(my_start->data[i] > my_end->data[i])) ==> gh_pair_match == RangeMatch_Inclusive)
__CPROVER_ensures(/*region-with-elements:offset-is-first-index*/ (gh_pair.has && !(my_start->data[i] > my_end->data[i])) ==> (nix_exc == EXC_NONE && offset->dims[i] == gh_pair.val.first))
__CPROVER_ensures(/*region-with-elements:count-spans-to-last-index*/ (gh_pair.has && !(my_start->data[i] > my_end->data[i])) ==> count->dims[i] == S_OLD(count, i) + (gh_pair.val.second - gh_pair.val.first))
__CPROVER_ensures(/*point:first-element-at-or-after-the-start*/ (!gh_pair.has && nix_exc == EXC_NONE && !isnan(my_end->data[i] - my_start->data[i])) ==>   /* NaN and equal infinities excluded */ (my_end->data[i] - my_start->data[i] <= DBL_EPSILON && gh_ge.has && offset->dims[i] == gh_ge.val && count->dims[i] == S_OLD(count, i)))
__CPROVER_ensures(/*empty-region-throws*/ (!gh_pair.has && !(my_start->data[i] > my_end->data[i]) && (my_end->data[i] - my_start->data[i] > DBL_EPSILON || !gh_ge.has)) ==> (nix_exc == EXC_OutOfBounds || nix_exc == EXC_IncompatibleDimensions))
__CPROVER_ensures(/*other-dimensions-untouched*/ (ghost_k < offset->rank && ghost_k != i) ==> (offset->dims[ghost_k] == S_OLD(offset, ghost_k) && count->dims[ghost_k] == S_OLD(count, ghost_k)))
NIX_CANARY(slice_assemble_dim) __CPROVER_assigns(nix_exc, gh_pair_calls, gh_pair_start, gh_pair_end, gh_pair_match, gh_pair_dim, gh_pair_unit; offset->dims[i]; count->dims[i])
;
#undef RV
#endif
