/* C09: H5Group::removeGroup / renameGroup (backend/hdf5/h5x/H5Group.cpp) - the primitives behind removeReference, deleteFeature, removeSource,
   Group::remove*, deleteDimensions, ... and behind renaming.
   "Opening a file in ReadOnly mode never changes a single byte of it and every mutating call fails with an exception": libhdf5 refuses the
   unlink / move on a read-only file by returning an error code; the call must turn that into an exception instead of reporting success.
   Decided: an existing child group is unlinked (moved) by exactly one libhdf5 call on this group's id with the given name(s), and a refusal
   (negative return) raises H5Exception; a missing child costs nothing.  libhdf5 is a ghost (refuses or not: arbitrary). */
#ifndef C09_MUTATORS_H
#define C09_MUTATORS_H
#define RV __CPROVER_return_value
typedef struct { int id; int has_slash; } nstring;
typedef struct { long hid; } H5Group;
typedef struct { int err; } HErr;
typedef long hid_t_;
extern int gh_child_exists, gh_refuse, gh_unlinks, gh_moves, gh_arg_old, gh_arg_new; extern long gh_arg_hid;
static inline bool H5Group_hasGroup(const H5Group *self, const nstring *name)
{ return gh_child_exists != 0; }
static inline const nstring *nstring_c_str(const nstring *s)
{ return s; }
static inline HErr H5Gunlink(long hid, const nstring *name)
{ gh_unlinks++; gh_arg_hid = hid; gh_arg_old = name->id; HErr e; e.err = gh_refuse ? -1 : 0; return e; }
static inline HErr H5Gmove(long hid, const nstring *old_name, const nstring *new_name)
{ gh_moves++; gh_arg_hid = hid; gh_arg_old = old_name->id; gh_arg_new = new_name->id; HErr e; e.err = gh_refuse ? -1 : 0; return e; }
NIX_THROWS static inline void HErr_check(const HErr *e, const char *msg)
{ if (e->err < 0) nix_exc = EXC_H5Error; }
NIX_THROWS static inline void check_h5_arg_name(const nstring *name)
{ if (name->has_slash) nix_exc = EXC_InvalidName; }
#define MU_PRE(self) (__CPROVER_is_fresh(self, sizeof(H5Group)) && (gh_child_exists == 0 || gh_child_exists == 1) && (gh_refuse == 0 || gh_refuse == 1) && gh_unlinks == 0 && gh_moves == 0 && nix_exc == EXC_NONE)
NIX_THROWS void H5Group_removeGroup(H5Group *self, const nstring *name)
__CPROVER_requires(MU_PRE(self) && __CPROVER_is_fresh(name, sizeof(nstring)))
__CPROVER_ensures(/*an-existing-child-is-unlinked-by-one-call-on-this-group*/ gh_child_exists ==> (gh_unlinks == 1 && gh_arg_hid == self->hid && gh_arg_old == name->id))
__CPROVER_ensures(/*a-refused-unlink-raises-instead-of-reporting-success*/ (gh_child_exists && gh_refuse) <==> nix_exc == EXC_H5Error)
__CPROVER_ensures(/*a-missing-child-costs-nothing*/ !gh_child_exists ==> (gh_unlinks == 0 && nix_exc == EXC_NONE))
NIX_CANARY(H5Group_removeGroup) __CPROVER_assigns(nix_exc, gh_unlinks, gh_arg_hid, gh_arg_old)
;
NIX_THROWS void H5Group_renameGroup(H5Group *self, const nstring *old_name, const nstring *new_name)
__CPROVER_requires(MU_PRE(self) && __CPROVER_is_fresh(old_name, sizeof(nstring)) && __CPROVER_is_fresh(new_name, sizeof(nstring)) && (new_name->has_slash == 0 || new_name->has_slash == 1))
__CPROVER_ensures(/*an-illegal-new-name-is-refused-before-anything-moves*/ new_name->has_slash ==> (nix_exc == EXC_InvalidName && gh_moves == 0))
__CPROVER_ensures(/*an-existing-child-is-moved-by-one-call-on-this-group*/ (!new_name->has_slash && gh_child_exists) ==> (gh_moves == 1 && gh_arg_hid == self->hid && gh_arg_old == old_name->id && gh_arg_new == new_name->id))
__CPROVER_ensures(/*a-refused-move-raises-instead-of-reporting-success*/ (!new_name->has_slash && gh_child_exists && gh_refuse) <==> nix_exc == EXC_H5Error)
__CPROVER_ensures(/*a-missing-child-costs-nothing*/ (!new_name->has_slash && !gh_child_exists) ==> (gh_moves == 0 && nix_exc == EXC_NONE))
NIX_CANARY(H5Group_renameGroup) __CPROVER_assigns(nix_exc, gh_moves, gh_arg_hid, gh_arg_old, gh_arg_new)
;
#undef RV
#endif
