/* C01: DataArray::ioRead (src/DataArray.cpp) - which path a read takes and what it does to the caller's buffer.
   "When a calibration polynomial and/or expansion origin is set, calibrated reads return the polynomial evaluated at (stored - origin) in
   double precision converted to the requested type, while raw reads and the stored values are unaffected."
   The back end transfer, the polynomial routine, the type conversion and memcpy are ghost records of their arguments (the VALUE of the
   polynomial is not decided: symbolic double products do not terminate in CBMC).  Decided is the plumbing: no calibration -> one direct
   read of the requested type into the caller's buffer and nothing else; calibration -> one read as Double into a buffer that is the
   caller's buffer iff an element of the requested type is at least as wide as a double (else a temporary of nelms doubles), the
   polynomial applied in place over exactly nelms elements with the stored origin (0 when none), ALWAYS followed by the conversion
   Double -> requested type over nelms elements, and a copy of nelms * element-size bytes into the caller's buffer iff the temporary
   was used. */
#ifndef C01_READ_H
#define C01_READ_H
#define RV __CPROVER_return_value
typedef struct { size_t poly_n; int has_origin; double origin; } DataArrayR;
extern double gh_tmp_store[4];           /* storage of the temporary vector (its address is all that matters) */
extern int gh_reads, gh_polys, gh_convs, gh_copies, gh_resizes;
extern DataType gh_read_type; extern const void *gh_read_buf; extern const NDSize *gh_read_count, *gh_read_offset;
extern const void *gh_poly_in, *gh_poly_out; extern size_t gh_poly_n; extern double gh_poly_origin; extern int gh_poly_after_reads;
extern DataType gh_conv_from, gh_conv_to; extern const void *gh_conv_buf; extern size_t gh_conv_n; extern int gh_conv_after_polys;
extern const void *gh_copy_dst, *gh_copy_src; extern size_t gh_copy_bytes; extern int gh_copy_after_convs; extern size_t gh_resize_n;
extern size_t gh_esize, gh_nelms;
static inline vec_double DataArrayR_polynomCoefficients(const DataArrayR *self)
{ vec_double v; v.data = NULL; v.n = self->poly_n; return v; }
static inline opt_double DataArrayR_expansionOrigin(const DataArrayR *self)
{ opt_double o; o.has = self->has_origin; o.val = self->origin; return o; }
static inline size_t data_type_to_size(DataType dtype)
{ return gh_esize; }
static inline ndsize_t NDSize_nelms(const NDSize *n)
{ return gh_nelms; }
static inline size_t fits_in_size_t(ndsize_t size, const char *msg_if_fail)
{ return (size_t)size; }
static inline void vec_double_resize(vec_double *v, size_t n)
{ gh_resizes++; gh_resize_n = n; v->data = gh_tmp_store; v->n = n; }
static inline void DataArrayR_getDataDirect(const DataArrayR *self, DataType dtype, void *data, const NDSize *count, const NDSize *offset)
{ gh_reads++; gh_read_type = dtype; gh_read_buf = data; gh_read_count = count; gh_read_offset = offset; }
static inline void applyPolynomial(const vec_double *coefficients, double origin, const double *input, double *output, size_t n)
{ gh_polys++; gh_poly_in = input; gh_poly_out = output; gh_poly_n = n; gh_poly_origin = origin; gh_poly_after_reads = gh_reads; }
static inline void DataArrayR_convertData(const DataArrayR *self, DataType source, DataType destination, void *data, size_t nelms)
{ gh_convs++; gh_conv_from = source; gh_conv_to = destination; gh_conv_buf = data; gh_conv_n = nelms; gh_conv_after_polys = gh_polys; }
static inline void memcpy_rec(void *dst, const void *src, size_t bytes)
{ gh_copies++; gh_copy_dst = dst; gh_copy_src = src; gh_copy_bytes = bytes; gh_copy_after_convs = gh_convs; }
#define CALIBRATED (self->poly_n > 0 || self->has_origin != 0)
#define USES_TMP (gh_esize < sizeof(double) && gh_nelms > 0)
void DataArray_ioRead(const DataArrayR *self, DataType dtype, void *data, const NDSize *count, const NDSize *offset)
__CPROVER_requires(__CPROVER_is_fresh(self, sizeof(DataArrayR)) && __CPROVER_is_fresh(data, 8) && __CPROVER_is_fresh(count, sizeof(NDSize)) && __CPROVER_is_fresh(offset, sizeof(NDSize)) &&
                   (self->has_origin == 0 || self->has_origin == 1) && self->poly_n <= VEC_MAX && gh_esize >= 1 && gh_esize <= 16 && gh_nelms <= VEC_MAX && nix_exc == EXC_NONE &&
                   gh_reads == 0 && gh_polys == 0 && gh_convs == 0 && gh_copies == 0 && gh_resizes == 0)
__CPROVER_ensures(/*raw-read-is-one-direct-transfer-of-the-requested-type-and-nothing-else*/ !CALIBRATED ==> (gh_reads == 1 && gh_read_type == dtype && gh_read_buf == data && gh_read_count == count && gh_read_offset == offset &&
                  gh_polys == 0 && gh_convs == 0 && gh_copies == 0 && gh_resizes == 0))
__CPROVER_ensures(/*calibrated-read-fetches-doubles-once*/ CALIBRATED ==> (gh_reads == 1 && gh_read_type == DataType_Double && gh_read_count == count && gh_read_offset == offset))
__CPROVER_ensures(/*temporary-buffer-iff-the-requested-element-is-narrower-than-a-double*/ CALIBRATED ==> ((gh_esize < sizeof(double)) ? (gh_resizes == 1 && gh_resize_n == gh_nelms && (gh_nelms > 0 ==> gh_read_buf == gh_tmp_store)) : (gh_resizes == 0 && gh_read_buf == data)))
__CPROVER_ensures(/*polynomial-applied-in-place-over-all-elements-with-the-stored-origin*/ CALIBRATED ==> (gh_polys == 1 && gh_poly_after_reads == 1 && gh_poly_in == gh_read_buf && gh_poly_out == gh_read_buf && gh_poly_n == gh_nelms &&
                  (self->has_origin ? (gh_poly_origin == self->origin || isnan(self->origin)) : gh_poly_origin == 0.0)))
__CPROVER_ensures(/*always-converted-from-double-to-the-requested-type*/ CALIBRATED ==> (gh_convs == 1 && gh_conv_after_polys == 1 && gh_conv_from == DataType_Double && gh_conv_to == dtype && gh_conv_buf == gh_read_buf && gh_conv_n == gh_nelms))
__CPROVER_ensures(/*copied-into-the-callers-buffer-iff-the-temporary-was-used*/ CALIBRATED ==> (USES_TMP ? (gh_copies == 1 && gh_copy_after_convs == 1 && gh_copy_dst == data && gh_copy_src == gh_tmp_store && gh_copy_bytes == gh_nelms * gh_esize) : gh_copies == 0))
__CPROVER_ensures(/*never-throws*/ nix_exc == EXC_NONE)
NIX_CANARY(DataArray_ioRead) __CPROVER_assigns(nix_exc, gh_reads, gh_polys, gh_convs, gh_copies, gh_resizes, gh_read_type, gh_read_buf, gh_read_count, gh_read_offset, gh_poly_in, gh_poly_out, gh_poly_n, gh_poly_origin, gh_poly_after_reads,
                  gh_conv_from, gh_conv_to, gh_conv_buf, gh_conv_n, gh_conv_after_polys, gh_copy_dst, gh_copy_src, gh_copy_bytes, gh_copy_after_convs, gh_resize_n)
;
#undef RV
#endif
