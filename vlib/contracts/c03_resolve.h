/* C03: name-or-id resolution inside the back end - BlockHDF5::findEntityGroup (backend/hdf5/BlockHDF5.cpp).
   "for every entity the lookup by name, the lookup by id ..., the has-queries (by name, id or handle) ... all agree", "for all
   legal names (... including names that look like UUIDs ...)".  nix::Identity files a UUID-shaped string under 'id' even when it
   is a NAME, so an id-only identity must be tried as a link name first and as an entity_id attribute second.
   The container (an HDF5 group with any number of links) is described exactly, restricted to the strings in play: for each string
   s, which child (if any) has the LINK NAME s, which child (the first, if any) has the ENTITY_ID s, and each child's entity_id.
   Strings are abstract ids (0 = empty). */
#ifndef C03_RESOLVE_H
#define C03_RESOLVE_H
#define RV __CPROVER_return_value
#define RS_IDS 4
#define RS_GRPS 8
typedef struct { int id; } nstring;
typedef struct { int grp; } H5Group;                       /* a child group of the container: index into the ghost tables */
typedef struct { int has; H5Group val; } opt_H5Group;
typedef struct { ObjectType type; nstring name; nstring id; } Identity;
typedef struct { int _b; } BlockHDF5;
#define OPT_NONE_H5Group ((opt_H5Group){0, {-1}})
static inline opt_H5Group opt_some_H5Group(H5Group g)
{ opt_H5Group o; o.has = 1; o.val = g; return o; }
extern int gh_container_present;                           /* does the block have a container group for this entity kind */
extern int gh_name2grp[RS_IDS], gh_eid2grp[RS_IDS], gh_geid[RS_GRPS], gh_gname[RS_GRPS];
#define RS_CONTAINER 100
/* the tables describe one consistent container */
#define RS_WF_S(s) (gh_name2grp[s] >= -1 && gh_name2grp[s] < RS_GRPS && gh_eid2grp[s] >= -1 && gh_eid2grp[s] < RS_GRPS && \
                    (gh_name2grp[s] >= 0 ==> gh_gname[gh_name2grp[s]] == (s)) && (gh_eid2grp[s] >= 0 ==> gh_geid[gh_eid2grp[s]] == (s)))
#define RS_WF (RS_WF_S(1) && RS_WF_S(2) && RS_WF_S(3) && gh_name2grp[0] == -1 && gh_eid2grp[0] == -1 && (gh_container_present == 0 || gh_container_present == 1))
static inline nstring nstring_default(void)
{ nstring s; s.id = 0; return s; }
static inline bool nstring_empty(const nstring *s)
{ return s->id == 0; }
static inline bool nstring_ne(const nstring *a, const nstring *b)
{ return a->id != b->id; }
static inline bool nstring_eq(const nstring *a, const nstring *b)
{ return a->id == b->id; }
static inline nstring Identity_name(const Identity *i)
{ return i->name; }
static inline nstring Identity_id(const Identity *i)
{ return i->id; }
static inline ObjectType Identity_type(const Identity *i)
{ return i->type; }
static inline opt_H5Group BlockHDF5_groupForObjectType_1(const BlockHDF5 *self, ObjectType type)
{ opt_H5Group o; o.has = gh_container_present; o.val.grp = RS_CONTAINER; return o; }
static inline bool H5Group_hasObject(const H5Group *g, const nstring *path)
{ __CPROVER_assert(g->grp == RS_CONTAINER && path->id >= 0 && path->id < RS_IDS, "hasObject asked of the container"); return gh_name2grp[path->id] >= 0; }
static inline H5Group H5Group_openGroup(const H5Group *g, const nstring *name, bool create)
{ __CPROVER_assert(g->grp == RS_CONTAINER && !create && name->id >= 0 && name->id < RS_IDS && gh_name2grp[name->id] >= 0, "openGroup(name, false) of an existing child of the container (a lookup must not create)");
  H5Group r; r.grp = gh_name2grp[name->id]; return r; }
static inline opt_H5Group H5Group_findGroupByAttribute(const H5Group *g, const char *attribute, const nstring *value)
{ __CPROVER_assert(g->grp == RS_CONTAINER && attribute[0] == 'e' && attribute[6] == '_' && attribute[7] == 'i' && attribute[8] == 'd' && attribute[9] == 0 && value->id >= 0 && value->id < RS_IDS, "scan of the container by entity_id");
  opt_H5Group o; o.has = gh_eid2grp[value->id] >= 0; o.val.grp = gh_eid2grp[value->id]; return o; }
static inline void H5Group_getAttr(const H5Group *g, const char *name, nstring *value)
{ __CPROVER_assert(g->grp >= 0 && g->grp < RS_GRPS && name[0] == 'e' && name[6] == '_' && name[7] == 'i' && name[8] == 'd' && name[9] == 0, "entity_id of a child"); value->id = gh_geid[g->grp]; }
#define IN (ident->name.id)
#define II (ident->id.id)
#define FOUND(g) (RV.has != 0 && RV.val.grp == (g))
opt_H5Group BlockHDF5_findEntityGroup(const BlockHDF5 *self, const Identity *ident)
__CPROVER_requires(__CPROVER_is_fresh(self, sizeof(BlockHDF5)) && __CPROVER_is_fresh(ident, sizeof(Identity)) && IN >= 0 && IN < RS_IDS && II >= 0 && II < RS_IDS && RS_WF && nix_exc == EXC_NONE)
__CPROVER_ensures(/*no-container-or-empty-key-finds-nothing*/ (!gh_container_present || (IN == 0 && II == 0)) ==> RV.has == 0)
__CPROVER_ensures(/*by-name:the-child-with-that-link-name*/ (gh_container_present && IN != 0 && II == 0) ==> (gh_name2grp[IN] >= 0 ? FOUND(gh_name2grp[IN]) : RV.has == 0))
__CPROVER_ensures(/*by-id:a-child-NAMED-like-the-key-first*/ (gh_container_present && IN == 0 && II != 0 && gh_name2grp[II] >= 0) ==> FOUND(gh_name2grp[II]))
__CPROVER_ensures(/*by-id:else-the-child-with-that-entity-id*/ (gh_container_present && IN == 0 && II != 0 && gh_name2grp[II] < 0) ==> (gh_eid2grp[II] >= 0 ? FOUND(gh_eid2grp[II]) : RV.has == 0))
__CPROVER_ensures(/*by-name-and-id:the-named-child-only-if-its-id-matches*/ (gh_container_present && IN != 0 && II != 0 && gh_name2grp[IN] >= 0) ==>
                  (gh_geid[gh_name2grp[IN]] == II ? FOUND(gh_name2grp[IN]) : RV.has == 0))
__CPROVER_ensures(/*by-name-and-id:unknown-name-falls-back-to-the-id*/ (gh_container_present && IN != 0 && II != 0 && gh_name2grp[IN] < 0) ==> (gh_eid2grp[II] >= 0 ? FOUND(gh_eid2grp[II]) : RV.has == 0))
__CPROVER_ensures(/*a-lookup-never-throws*/ nix_exc == EXC_NONE)
NIX_CANARY(BlockHDF5_findEntityGroup) __CPROVER_assigns(nix_exc)
;

/* ---- GroupHDF5::findEntityGroup (backend/hdf5/GroupHDF5.cpp): members of a nix Group are links named by the member's ID; the member's
   name is its "name" attribute.  Same ghost description, roles swapped: gh_name2grp[s] = the member whose LINK NAME is s (i.e. whose id is s),
   gh_attr2grp[s] = the (first) member whose NAME ATTRIBUTE is s, gh_gattr[g] = name attribute of member g, gh_geid[g] = entity_id of g
   (equal to its link name). ---- */
typedef struct { int _g; } GroupHDF5;
extern int gh_attr2grp[RS_IDS], gh_gattr[RS_GRPS];
#define GS_WF_S(s) (gh_name2grp[s] >= -1 && gh_name2grp[s] < RS_GRPS && gh_attr2grp[s] >= -1 && gh_attr2grp[s] < RS_GRPS && \
                    (gh_name2grp[s] >= 0 ==> gh_geid[gh_name2grp[s]] == (s)) && (gh_attr2grp[s] >= 0 ==> gh_gattr[gh_attr2grp[s]] == (s)))
#define GS_WF (GS_WF_S(1) && GS_WF_S(2) && GS_WF_S(3) && gh_name2grp[0] == -1 && gh_attr2grp[0] == -1 && (gh_container_present == 0 || gh_container_present == 1))
static inline opt_H5Group GroupHDF5_groupForObjectType_1(const GroupHDF5 *self, ObjectType type)
{ opt_H5Group o; o.has = gh_container_present; o.val.grp = RS_CONTAINER; return o; }
/* the stubs of H5Group dispatch on the attribute asked for */
static inline opt_H5Group H5Group_findGroupByAttribute_g(const H5Group *g, const char *attribute, const nstring *value)
{ __CPROVER_assert(g->grp == RS_CONTAINER && value->id >= 0 && value->id < RS_IDS && attribute[0] == 'n' && attribute[1] == 'a' && attribute[2] == 'm' && attribute[3] == 'e' && attribute[4] == 0, "scan of the container by the name attribute");
  opt_H5Group o; o.has = gh_attr2grp[value->id] >= 0; o.val.grp = gh_attr2grp[value->id]; return o; }
static inline void H5Group_getAttr_g(const H5Group *g, const char *name, nstring *value)
{ __CPROVER_assert(g->grp >= 0 && g->grp < RS_GRPS, "attribute of a member");
  if (name[0] == 'n' && name[1] == 'a' && name[2] == 'm' && name[3] == 'e' && name[4] == 0) value->id = gh_gattr[g->grp];
  else { __CPROVER_assert(name[0] == 'e' && name[6] == '_' && name[7] == 'i' && name[8] == 'd' && name[9] == 0, "name or entity_id"); value->id = gh_geid[g->grp]; } }
opt_H5Group GroupHDF5_findEntityGroup(const GroupHDF5 *self, const Identity *ident)
__CPROVER_requires(__CPROVER_is_fresh(self, sizeof(GroupHDF5)) && __CPROVER_is_fresh(ident, sizeof(Identity)) && IN >= 0 && IN < RS_IDS && II >= 0 && II < RS_IDS && GS_WF && nix_exc == EXC_NONE)
__CPROVER_requires(/*a key filed under 'name' alone is not id-shaped (nix::Identity files id-shaped strings under 'id'), so it is no member's link name*/ (IN != 0 && II == 0) ==> gh_name2grp[IN] < 0)
__CPROVER_ensures(/*no-container-or-empty-key-finds-nothing*/ (!gh_container_present || (IN == 0 && II == 0)) ==> RV.has == 0)
__CPROVER_ensures(/*by-name:the-member-with-that-name*/ (gh_container_present && IN != 0 && II == 0) ==> (gh_attr2grp[IN] >= 0 ? FOUND(gh_attr2grp[IN]) : RV.has == 0))
__CPROVER_ensures(/*by-id:the-member-linked-under-that-id*/ (gh_container_present && IN == 0 && II != 0 && gh_name2grp[II] >= 0) ==> FOUND(gh_name2grp[II]))
__CPROVER_ensures(/*by-id:else-a-member-NAMED-like-the-key*/ (gh_container_present && IN == 0 && II != 0 && gh_name2grp[II] < 0) ==> (gh_attr2grp[II] >= 0 ? FOUND(gh_attr2grp[II]) : RV.has == 0))
__CPROVER_ensures(/*by-handle:a-member-only-if-id-AND-name-match*/ (gh_container_present && IN != 0 && II != 0 && RV.has != 0) ==> (RV.val.grp >= 0 && RV.val.grp < RS_GRPS && gh_geid[RV.val.grp] == II && gh_gattr[RV.val.grp] == IN))
__CPROVER_ensures(/*by-handle:the-member-linked-under-the-id-is-found*/ (gh_container_present && IN != 0 && II != 0 && gh_name2grp[II] >= 0 && gh_gattr[gh_name2grp[II]] == IN) ==> FOUND(gh_name2grp[II]))
__CPROVER_ensures(/*a-lookup-never-throws*/ nix_exc == EXC_NONE)
NIX_CANARY(GroupHDF5_findEntityGroup) __CPROVER_assigns(nix_exc)
;

/* ---- H5Group::findGroupByNameOrAttribute (backend/hdf5/h5x/H5Group.cpp): the name-or-id resolution used for blocks, sections, sources:
   a child with that LINK NAME first; otherwise, if the key looks like a UUID, the child whose attribute (entity_id) has that value ---- */
extern int gh_uuid_shaped[RS_IDS]; extern int gh_scan_attr;
static inline bool looksLikeUUID(const nstring *s)
{ __CPROVER_assert(s->id >= 0 && s->id < RS_IDS, "string id in range"); return gh_uuid_shaped[s->id] != 0; }
static inline bool H5Group_hasObject_m(const H5Group *g, const nstring *path)
{ return H5Group_hasObject(g, path); }
static inline opt_H5Group H5Group_findGroupByAttribute_m(const H5Group *g, const nstring *attribute, const nstring *value)
{ __CPROVER_assert(g->grp == RS_CONTAINER && value->id >= 0 && value->id < RS_IDS, "scan of the container");
  gh_scan_attr = attribute->id; opt_H5Group o; o.has = gh_eid2grp[value->id] >= 0; o.val.grp = gh_eid2grp[value->id]; return o; }
#define VS (value->id)
opt_H5Group H5Group_findGroupByNameOrAttribute(const H5Group *self, const nstring *attr, const nstring *value)
__CPROVER_requires(__CPROVER_is_fresh(self, sizeof(H5Group)) && self->grp == RS_CONTAINER && __CPROVER_is_fresh(attr, sizeof(nstring)) && __CPROVER_is_fresh(value, sizeof(nstring)) && VS >= 0 && VS < RS_IDS && RS_WF && nix_exc == EXC_NONE)
__CPROVER_requires(/*entity ids are UUIDs: a key that does not look like one is nobody's id*/ (gh_uuid_shaped[VS] == 0) ==> gh_eid2grp[VS] < 0)
__CPROVER_ensures(/*a-child-with-that-link-name-first*/ gh_name2grp[VS] >= 0 ==> FOUND(gh_name2grp[VS]))
__CPROVER_ensures(/*else-the-child-whose-attribute-has-that-value*/ gh_name2grp[VS] < 0 ==> (gh_eid2grp[VS] >= 0 ? (FOUND(gh_eid2grp[VS]) && gh_scan_attr == attr->id) : RV.has == 0))
__CPROVER_ensures(/*a-lookup-never-throws*/ nix_exc == EXC_NONE)
NIX_CANARY(H5Group_findGroupByNameOrAttribute) __CPROVER_assigns(nix_exc, gh_scan_attr)
;
#undef RV
#endif
