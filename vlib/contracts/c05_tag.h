/* C05: Tag retrieval (src/util/dataAccess.cpp, src/Tag.cpp) - the gates and the feature dispatch.
   "If that block is empty or reaches outside the stored data an out-of-bounds error is raised instead of data being
   returned.  Feature data of a Tag follows its link type: tagged features are cut by the same rule, untagged and indexed
   features are returned whole."  Handles (Tag, Feature, DataArray) are abstracted to the state these functions read;
   the index computation getOffsetAndCount is behind a contract that says nothing about the values it produces
   (that part of C05 is decided per axis by C07 and is NOT connected to these units yet). */
#ifndef C05_TAG_H
#define C05_TAG_H
#define RV __CPROVER_return_value
typedef struct { ndsize_t feature_count, reference_count; } Tag;                 /* state of the back end */
typedef struct { LinkType link; DataArray data; } Feature;
typedef struct { DataArray *data; size_t n; } vec_DataArray;
typedef struct { int _v; } vec_double_u;
/* ghost record of the DataView that is constructed (its arguments), and of calls made */
extern int gh_views; extern size_t gh_view_count_rank, gh_view_offset_rank; extern ndsize_t gh_view_count_k, gh_view_offset_k; extern const ndsize_t *gh_view_extent_dims;
extern int gh_tagged_calls, gh_backend_feature_gets, gh_backend_reference_gets; extern ndsize_t gh_backend_get_index;
extern RangeMatch gh_goc_match, gh_tagged_match, gh_fd_match;   /* ghost records of the range mode handed down the call chain */
/* DataView(array, count, offset) as a value: the constructor's contract (proved for the constructor in C17: DataView_ctor)
   restated on the construction expression, plus the ghost record.  ASSUMED here. */
NIX_THROWS DataView mk_DataView_3(DataArray da, NDSize count, NDSize offset)
__CPROVER_requires(NDV_VALID(da.extent) && NDV_VALID(count) && NDV_VALID(offset) && nix_exc == EXC_NONE)
__CPROVER_ensures((offset.rank != da.extent.rank || count.rank != da.extent.rank) <==> nix_exc == EXC_IncompatibleDimensions)
__CPROVER_ensures((offset.rank == da.extent.rank && count.rank == da.extent.rank) ==> (nix_exc == EXC_OutOfBounds <==> !ND_FORALL(im, offset.rank, FITS(offset.dims[im], count.dims[im], da.extent.dims[im]))))
__CPROVER_ensures(nix_exc == EXC_NONE || nix_exc == EXC_IncompatibleDimensions || nix_exc == EXC_OutOfBounds)
__CPROVER_ensures(nix_exc == EXC_NONE ==> (gh_views == __CPROVER_old(gh_views) + 1 && gh_view_count_rank == count.rank && gh_view_offset_rank == offset.rank && gh_view_extent_dims == da.extent.dims &&
                  (ghost_k < count.rank ==> gh_view_count_k == count.dims[ghost_k]) && (ghost_k < offset.rank ==> gh_view_offset_k == offset.dims[ghost_k])))
__CPROVER_ensures(nix_exc != EXC_NONE ==> gh_views == __CPROVER_old(gh_views))
__CPROVER_assigns(nix_exc, gh_views, gh_view_count_rank, gh_view_offset_rank, gh_view_count_k, gh_view_offset_k, gh_view_extent_dims)
;
/* getOffsetAndCount(tag, array, offset, count, match): index computation, values unconstrained here */
NIX_THROWS void getOffsetAndCount_tag(const Tag *tag, const DataArray *array, NDSize *offset, NDSize *count, RangeMatch match)
__CPROVER_requires(__CPROVER_w_ok(offset, sizeof(NDSize)) && __CPROVER_w_ok(count, sizeof(NDSize)) && nix_exc == EXC_NONE)
__CPROVER_ensures(nix_exc == EXC_NONE ==> (NDV_FRESH(*offset) && NDV_FRESH(*count)))
__CPROVER_ensures(gh_goc_match == match)          /* ghost record: the range mode the index computation is asked for */
__CPROVER_assigns(nix_exc, gh_goc_match; *offset; *count)
;
static inline ndsize_t Tag_featureCount(const Tag *t)
{ return t->feature_count; }
static inline ndsize_t Tag_referenceCount(const Tag *t)
{ return t->reference_count; }
static inline ndsize_t Tag_backend_featureCount(const Tag *t)
{ return t->feature_count; }
static inline ndsize_t Tag_backend_referenceCount(const Tag *t)
{ return t->reference_count; }
static inline vec_double_u Tag_position(const Tag *t)
{ vec_double_u v; v._v = 0; return v; }
static inline vec_double_u Tag_extent(const Tag *t)
{ vec_double_u v; v._v = 0; return v; }
Feature Tag_backend_getFeature(const Tag *t, ndsize_t index)
__CPROVER_requires(index < t->feature_count)                       /* the back end is only asked for existing features */
__CPROVER_ensures(gh_backend_feature_gets == __CPROVER_old(gh_backend_feature_gets) + 1 && gh_backend_get_index == index)
__CPROVER_ensures(NDV_FRESH(RV.data.extent) && (RV.link == LinkType_Tagged || RV.link == LinkType_Untagged || RV.link == LinkType_Indexed))
__CPROVER_assigns(gh_backend_feature_gets, gh_backend_get_index)
;
DataArray Tag_backend_getReference(const Tag *t, size_t index)
__CPROVER_requires(index < t->reference_count)
__CPROVER_ensures(gh_backend_reference_gets == __CPROVER_old(gh_backend_reference_gets) + 1 && gh_backend_get_index == index)
__CPROVER_ensures(NDV_FRESH(RV.extent))
__CPROVER_assigns(gh_backend_reference_gets, gh_backend_get_index)
;
static inline DataArray Feature_data(const Feature *f)
{ return f->data; }
static inline LinkType Feature_linkType(const Feature *f)
{ return f->link; }
/* ---- units ---- */
NIX_THROWS Feature Tag_getFeature(const Tag *self, ndsize_t index)
__CPROVER_requires(NIX_SEL(Tag_getFeature, __CPROVER_is_fresh(self, sizeof(Tag)), __CPROVER_r_ok(self, sizeof(Tag))) && nix_exc == EXC_NONE && gh_backend_feature_gets == 0)
__CPROVER_ensures(/*index-past-the-end-throws*/ index >= self->feature_count <==> nix_exc == EXC_OutOfBounds)
__CPROVER_ensures(/*valid-index-forwarded*/ index < self->feature_count ==> (gh_backend_feature_gets == 1 && gh_backend_get_index == index))
__CPROVER_ensures(/*backend-untouched-on-error*/ nix_exc != EXC_NONE ==> gh_backend_feature_gets == 0)
__CPROVER_ensures(/*returns-the-back-end-feature*/ nix_exc == EXC_NONE ==> (NDV_FRESH(RV.data.extent) && (RV.link == LinkType_Tagged || RV.link == LinkType_Untagged || RV.link == LinkType_Indexed)))
NIX_CANARY(Tag_getFeature) __CPROVER_assigns(nix_exc, gh_backend_feature_gets, gh_backend_get_index)
;
NIX_THROWS DataArray Tag_getReference(const Tag *self, size_t index)
__CPROVER_requires(__CPROVER_is_fresh(self, sizeof(Tag)) && nix_exc == EXC_NONE && gh_backend_reference_gets == 0)
__CPROVER_ensures(/*index-past-the-end-throws*/ index >= self->reference_count <==> nix_exc == EXC_OutOfBounds)
__CPROVER_ensures(/*valid-index-forwarded*/ index < self->reference_count ==> (gh_backend_reference_gets == 1 && gh_backend_get_index == index))
NIX_CANARY(Tag_getReference) __CPROVER_assigns(nix_exc, gh_backend_reference_gets, gh_backend_get_index)
;
/* DataView taggedData(const Tag &tag, const DataArray &array, RangeMatch match) */
NIX_THROWS DataView taggedData_tag(const Tag *tag, const DataArray *array, RangeMatch match)
__CPROVER_requires(NIX_SEL(taggedData_tag, __CPROVER_is_fresh(tag, sizeof(Tag)) && __CPROVER_is_fresh(array, sizeof(DataArray)) && NDV_FRESH(array->extent),
                                         __CPROVER_r_ok(tag, sizeof(Tag)) && __CPROVER_r_ok(array, sizeof(DataArray)) && NDV_VALID(array->extent)))
__CPROVER_requires(nix_exc == EXC_NONE && gh_views < 1000)
__CPROVER_ensures(/*data-returned-only-for-a-block-inside-the-array*/ nix_exc == EXC_NONE ==> (gh_views == __CPROVER_old(gh_views) + 1 && gh_view_extent_dims == array->extent.dims &&
                  gh_view_count_rank == array->extent.rank && gh_view_offset_rank == array->extent.rank &&
                  (ghost_k < array->extent.rank ==> FITS(gh_view_offset_k, gh_view_count_k, array->extent.dims[ghost_k]))))
__CPROVER_ensures(/*no-view-on-error*/ nix_exc != EXC_NONE ==> gh_views == __CPROVER_old(gh_views))
__CPROVER_ensures(/*the-requested-range-mode-is-the-one-the-indices-are-computed-with*/ gh_goc_match == match)
NIX_CANARY(taggedData_tag) __CPROVER_assigns(nix_exc, gh_views, gh_view_count_rank, gh_view_offset_rank, gh_view_count_k, gh_view_offset_k, gh_view_extent_dims, gh_goc_match)
;
/* the call taggedData(tag, data, match) made by featureData, counted (ghost) so that the dispatch is observable */
static inline DataView taggedData_tag_counted(const Tag *tag, const DataArray *array, RangeMatch match)
{ gh_tagged_calls++; gh_tagged_match = match; return taggedData_tag(tag, array, match); }
/* DataView featureData(const Tag &tag, const Feature &feature, RangeMatch match) */
NIX_THROWS DataView featureData_tag(const Tag *tag, const Feature *feature, RangeMatch match)
__CPROVER_requires(NIX_SEL(featureData_tag, __CPROVER_is_fresh(tag, sizeof(Tag)) && __CPROVER_is_fresh(feature, sizeof(Feature)) && NDV_FRESH(feature->data.extent),
                                          __CPROVER_r_ok(tag, sizeof(Tag)) && __CPROVER_r_ok(feature, sizeof(Feature)) && NDV_VALID(feature->data.extent)))
__CPROVER_requires(ND_CASE(&feature->data.extent))
__CPROVER_requires(nix_exc == EXC_NONE && gh_views < 1000 && gh_tagged_calls < 1000 &&
                   (feature->link == LinkType_Tagged || feature->link == LinkType_Untagged || feature->link == LinkType_Indexed))
__CPROVER_ensures(/*missing-feature-data-refused*/ feature->data.is_none ==> nix_exc == EXC_UninitializedEntity)
__CPROVER_ensures(/*tagged-feature-cut-like-a-reference*/ (!feature->data.is_none && feature->link == LinkType_Tagged) ==> gh_tagged_calls == __CPROVER_old(gh_tagged_calls) + 1)
__CPROVER_ensures(/*untagged-and-indexed-not-cut*/ (feature->link != LinkType_Tagged || feature->data.is_none) ==> gh_tagged_calls == __CPROVER_old(gh_tagged_calls))
__CPROVER_ensures(/*untagged-and-indexed-returned-whole*/ (!feature->data.is_none && feature->link != LinkType_Tagged) ==> (nix_exc == EXC_NONE && gh_views == __CPROVER_old(gh_views) + 1 &&
                  gh_view_extent_dims == feature->data.extent.dims && gh_view_count_rank == feature->data.extent.rank && gh_view_offset_rank == feature->data.extent.rank &&
                  (ghost_k < feature->data.extent.rank ==> (gh_view_offset_k == 0 && gh_view_count_k == feature->data.extent.dims[ghost_k]))))
__CPROVER_ensures(/*tagged-feature-cut-in-the-requested-range-mode*/ (!feature->data.is_none && feature->link == LinkType_Tagged) ==> gh_tagged_match == match)
__CPROVER_ensures(NIX_SEL(featureData_tag, 1, gh_fd_match == match))      /* as a callee: ghost record of the mode it was asked for */
NIX_CANARY(featureData_tag) __CPROVER_assigns(nix_exc, gh_views, gh_view_count_rank, gh_view_offset_rank, gh_view_count_k, gh_view_offset_k, gh_view_extent_dims, gh_tagged_calls, gh_tagged_match, gh_fd_match, gh_goc_match)
;
/* DataView featureData(const Tag &tag, ndsize_t feature_index, RangeMatch match) */
NIX_THROWS DataView featureData_tag_index(const Tag *tag, ndsize_t feature_index, RangeMatch match)
__CPROVER_requires(__CPROVER_is_fresh(tag, sizeof(Tag)) && nix_exc == EXC_NONE && gh_views < 1000 && gh_tagged_calls < 1000 && gh_backend_feature_gets == 0)
__CPROVER_ensures(/*index-past-the-end-throws*/ feature_index >= tag->feature_count ==> nix_exc == EXC_OutOfBounds)
__CPROVER_ensures(/*valid-index-selects-that-feature*/ feature_index < tag->feature_count ==> (gh_backend_feature_gets == 1 && gh_backend_get_index == feature_index))
__CPROVER_ensures(/*the-feature-is-retrieved-in-the-requested-range-mode*/ feature_index < tag->feature_count ==> gh_fd_match == match)
NIX_CANARY(featureData_tag_index) __CPROVER_assigns(nix_exc, gh_views, gh_view_count_rank, gh_view_offset_rank, gh_view_count_k, gh_view_offset_k, gh_view_extent_dims, gh_tagged_calls, gh_backend_feature_gets, gh_backend_get_index, gh_tagged_match, gh_fd_match, gh_goc_match)
;

/* ---- getOffsetAndCount(const Tag&, ...): the per-dimension body of the assembly loop (region unit) ----
   "the block of elements whose axis coordinate c satisfies p_d <= c <= p_d+e_d (inclusive) or p_d <= c < p_d+e_d
   (exclusive) ...; a zero or absent extent selects the single first element at or after the position."
   The two index lookups are ghost inputs with their C07 contracts assumed: the pair lookup is asked for
   [position, position + extent] in the given mode; the point fallback asks for GreaterOrEqual(position). */
typedef struct { size_t len; } nstring;
typedef struct { DimensionType type; double x0; ndsize_t q; double xq; ndsize_t n_ticks; } Dimension;   /* x0 = coordinate of index 0, xq = coordinate of index q (any q) */
typedef Dimension SampledDimension;
typedef Dimension RangeDimension;
extern opt_pair gh_pair; extern opt_ndsize gh_ge;
extern double gh_pair_start, gh_pair_end; extern RangeMatch gh_pair_match; extern int gh_pair_calls;
extern int gh_unspecified;     /* ghost, chosen by the harness, invisible to the code: dimension i is one the tag does NOT specify (it was padded) */
static inline opt_pair positionToIndex_pair1(double start, double end, const nstring *unit, RangeMatch match, const Dimension *dimension)
{ gh_pair_calls++; gh_pair_start = start; gh_pair_end = end; gh_pair_match = match; return gh_pair; }
NIX_THROWS opt_ndsize positionToIndex_scalar(double position, const nstring *unit, PositionMatch match, const Dimension *dimension)
__CPROVER_requires(nix_exc == EXC_NONE && match == PositionMatch_GreaterOrEqual && (position == gh_pair_start || (isnan(position) && isnan(gh_pair_start))))   /* the point fallback asks for the first element AT OR AFTER the tag's position */
__CPROVER_ensures(nix_exc == EXC_NONE || nix_exc == EXC_IncompatibleDimensions)
__CPROVER_ensures(nix_exc == EXC_NONE ==> ((RV.has != 0) == (gh_ge.has != 0) && RV.val == gh_ge.val))
__CPROVER_assigns(nix_exc)
;
#define T_OLD(p, k) __CPROVER_old((p)->dims[k])
NIX_THROWS void tag_assemble_dim(NDSize *temp_offset, NDSize *temp_count, size_t i, double position_i, double extent_i, const nstring *unit_i, RangeMatch match, const Dimension *dimension_i)
__CPROVER_requires(ND_OK(temp_offset) && ND_OK(temp_count) && temp_offset->rank == temp_count->rank && i < temp_offset->rank)
__CPROVER_requires(__CPROVER_is_fresh(unit_i, sizeof(nstring)) && __CPROVER_is_fresh(dimension_i, sizeof(Dimension)) && nix_exc == EXC_NONE && gh_pair_calls == 0 &&
                   (match == RangeMatch_Inclusive || match == RangeMatch_Exclusive))
__CPROVER_ensures(/*region-asked-is-position-to-position-plus-extent-in-the-given-mode*/ gh_pair_calls == 1 && gh_pair_match == match &&
                  (gh_pair_start == position_i || isnan(position_i)) && (gh_pair_end == position_i + extent_i || isnan(position_i + extent_i)))
__CPROVER_ensures(/*region-with-elements:offset-is-first-index*/ gh_pair.has ==> (nix_exc == EXC_NONE && temp_offset->dims[i] == gh_pair.val.first))
__CPROVER_ensures(/*region-with-elements:count-spans-to-last-index*/ gh_pair.has ==> temp_count->dims[i] == T_OLD(temp_count, i) + (gh_pair.val.second - gh_pair.val.first))
__CPROVER_ensures(/*point:first-element-at-or-after-the-position*/ (!gh_pair.has && extent_i == 0.0 && gh_ge.has && nix_exc == EXC_NONE) ==>
                  (temp_offset->dims[i] == gh_ge.val && temp_count->dims[i] == T_OLD(temp_count, i)))
__CPROVER_ensures(/*point:no-element-at-or-after-throws*/ (!gh_pair.has && extent_i == 0.0 && !gh_ge.has) ==> nix_exc != EXC_NONE)
__CPROVER_ensures(/*empty-region-throws*/ (!gh_pair.has && !(extent_i == 0.0)) ==> (nix_exc == EXC_OutOfBounds || nix_exc == EXC_IncompatibleDimensions))
__CPROVER_ensures(/*other-dimensions-untouched*/ (ghost_k < temp_offset->rank && ghost_k != i) ==>
                  (temp_offset->dims[ghost_k] == T_OLD(temp_offset, ghost_k) && temp_count->dims[ghost_k] == T_OLD(temp_count, ghost_k)))
/* "... and all elements along dimensions it does not specify": an unspecified dimension is padded with (first coordinate, distance to the last
   coordinate) - getMaxExtent below - so the region asked for it ends AT the last coordinate and must be closed there whatever the mode. */
__CPROVER_ensures(/*unspecified-dimension-keeps-its-last-element*/ gh_unspecified ==> gh_pair_match == RangeMatch_Inclusive)
NIX_CANARY(tag_assemble_dim) __CPROVER_assigns(nix_exc, gh_pair_calls, gh_pair_start, gh_pair_end, gh_pair_match; temp_offset->dims[i]; temp_count->dims[i])
;

/* ---- getMaxExtent(dim, max_index, pos, ext): the (position, extent) pair a dimension the tag does NOT specify is padded with ----
   "... and all elements along dimensions it does not specify".  The assembly loop (tag_assemble_dim / mtag_assemble_dim, proved) asks the axis
   for the region [position, position + extent]; an unspecified dimension is padded with the pair computed here, so the pair must be
   (coordinate of the first element, distance from it to the coordinate of the last element max_index).
   The axis is abstracted to the two coordinates this function reads: x0 = x_0 and xq = x_q for the index q = max_index
   (any other index: arbitrary value).  Set / data-frame axes: x_i = i.  Range axis: tickAt raises OutOfBounds past the last tick.
   The value clause "extent == xq - x0" for ALL doubles is a miter of two floating-point subtractors and does not terminate on the SAT back ends
   (cadical: 85 s, minisat / z3 / cvc5: > 300 s), so it is stated (a) for all doubles in the forms that need no subtraction in the contract
   (x0 == 0, x0 == xq, sign) and (b) exactly on an enumerated set of (x0, xq) pairs.
   NOT decided: that x0 + (xq - x0) == xq in double arithmetic (treated as mathematical); Exclusive mode (known finding KF-C05-exclusive-padding). */
static inline DimensionType Dimension_dimensionType(const Dimension *d)
{ return d->type; }
static inline SampledDimension Dimension_asSampledDimension(const Dimension *d)
{ return *d; }
static inline RangeDimension Dimension_asRangeDimension(const Dimension *d)
{ return *d; }
double nondet_double(void);
static inline double SampledDimension_positionAt(const SampledDimension *sd, ndsize_t index)
{ return index == 0 ? sd->x0 : (index == sd->q ? sd->xq : nondet_double()); }
NIX_THROWS static inline double RangeDimension_tickAt(const RangeDimension *rd, ndsize_t index)
{ if (index >= rd->n_ticks) { nix_exc = EXC_OutOfBounds; return 0.0; }
  return index == 0 ? rd->x0 : (index == rd->q ? rd->xq : nondet_double()); }
/* check::converts_to_double<ndsize_t> (include/nix/Exception.hpp): the value if it survives the round trip, else OutOfBounds */
NIX_THROWS static inline double converts_to_double(ndsize_t num, const char *msg_if_fail)
{ double dbl = (double)num;
  if (dbl >= 18446744073709551616.0 || (ndsize_t)dbl != num) { nix_exc = EXC_OutOfBounds; return 0.0; }
  return dbl; }
#define DIM_INTEGER_AXIS(d) ((d)->type == DimensionType_Set || (d)->type == DimensionType_DataFrame)
#define PAD_PAIR(a, b) ((dim->x0 == (a) && dim->xq == (b)) ==> *ext == (b) - (a))      /* constants: folded by the front end, no symbolic subtraction in the contract */
#define SAME_D(a, b) ((a) == (b) || (isnan(a) && isnan(b)))
NIX_THROWS void getMaxExtent(const Dimension *dim, ndsize_t max_index, double *pos, double *ext)
__CPROVER_requires(__CPROVER_is_fresh(dim, sizeof(Dimension)) && __CPROVER_is_fresh(pos, sizeof(double)) && __CPROVER_is_fresh(ext, sizeof(double)) && nix_exc == EXC_NONE)
__CPROVER_requires((dim->type == DimensionType_Sample || dim->type == DimensionType_Set || dim->type == DimensionType_Range || dim->type == DimensionType_DataFrame) &&
                   dim->q == max_index && (max_index == 0 ==> SAME_D(dim->xq, dim->x0)) &&
                   (DIM_INTEGER_AXIS(dim) ==> (dim->x0 == 0.0 && max_index < 9007199254740992ull && dim->xq == (double)max_index)))
__CPROVER_ensures(/*padded-position-is-the-first-coordinate*/ nix_exc == EXC_NONE ==> SAME_D(*pos, dim->x0))
__CPROVER_ensures(/*padded-extent:first-coordinate-zero-gives-the-last-coordinate*/ (nix_exc == EXC_NONE && dim->x0 == 0.0) ==> SAME_D(*ext, dim->xq))
__CPROVER_ensures(/*padded-extent:single-coordinate-gives-zero*/ (nix_exc == EXC_NONE && dim->x0 == dim->xq && !isinf(dim->x0)) ==> *ext == 0.0)
__CPROVER_ensures(/*padded-extent:has-the-sign-of-last-minus-first*/ nix_exc == EXC_NONE ==> ((dim->xq > dim->x0 ==> *ext > 0.0) && (dim->xq < dim->x0 ==> *ext < 0.0)))
__CPROVER_ensures(/*padded-extent:is-last-minus-first-on-the-enumerated-axes*/ nix_exc == EXC_NONE ==> (PAD_PAIR(100.0, 110.0) && PAD_PAIR(-5.0, 5.0) && PAD_PAIR(-8.0, 2.0) && PAD_PAIR(0.1, 0.7) &&
                  PAD_PAIR(0.001, 2.5) && PAD_PAIR(-1e300, 1e300) && PAD_PAIR(3.0, 1.0) && PAD_PAIR(1e16, 1e16 + 2.0) && PAD_PAIR(-0.25, 1023.75)))
__CPROVER_ensures(/*raises-only-for-a-range-axis-with-too-few-ticks*/ nix_exc != EXC_NONE <==> (dim->type == DimensionType_Range && dim->n_ticks <= max_index))
__CPROVER_ensures(nix_exc == EXC_NONE || nix_exc == EXC_OutOfBounds)
NIX_CANARY(getMaxExtent) __CPROVER_assigns(nix_exc; *pos; *ext)
;
#undef RV
#endif
