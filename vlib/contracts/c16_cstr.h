/* C16: Variant::set(const char *value) (src/Variant.cpp) - the entry every C-string value passes through; libhdf5 hands the back end a NULL char* for a
   variable-length string that was never written ("reading data that was never written"), and the DataFrame / Property read paths pass it on.
   Decided: strlen is never applied to a null pointer (the C library's precondition); the value is stored through set(value, length) exactly once,
   with length 0 for a null pointer and strlen(value) otherwise.  strlen itself is a ghost (its result is gh_strlen_result). */
#ifndef C16_CSTR_H
#define C16_CSTR_H
#define RV __CPROVER_return_value
typedef struct { int _v; } Variant;
extern size_t gh_strlen_result, gh_set_len; extern int gh_set_calls, gh_strlen_calls; extern const char *gh_set_value;
static inline size_t c_strlen(const char *s)
{ __CPROVER_assert(/*strlen-is-never-applied-to-a-null-pointer*/ s != NULL, "strlen is never applied to a null pointer"); gh_strlen_calls++; return gh_strlen_result; }
static inline void Variant_set_len(Variant *self, const char *value, size_t len)
{ gh_set_calls++; gh_set_value = value; gh_set_len = len; }
void Variant_set_cstr_front(Variant *self, const char *value)
__CPROVER_requires(__CPROVER_is_fresh(self, sizeof(Variant)) && (value == NULL || __CPROVER_is_fresh(value, 1)) && gh_set_calls == 0 && gh_strlen_calls == 0 && nix_exc == EXC_NONE)
__CPROVER_ensures(/*stored-once-with-its-length-and-a-null-pointer-as-the-empty-string*/ gh_set_calls == 1 && gh_set_value == value && gh_set_len == (value == NULL ? 0 : gh_strlen_result))
__CPROVER_ensures(/*never-throws-by-itself*/ nix_exc == EXC_NONE)
NIX_CANARY(Variant_set_cstr_front) __CPROVER_assigns(nix_exc, gh_set_calls, gh_set_value, gh_set_len, gh_strlen_calls)
;
#undef RV
#endif
