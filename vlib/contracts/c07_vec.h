/* C07: the LIST forms of the start/end pair conversion - SampledDimension / SetDimension / RangeDimension / DataFrameDimension
   ::indexOf(start_positions, end_positions, match) (src/Dimensions.cpp) - the functions tagged-data retrieval and slicing actually call.
   "a start/end pair converts to (GreaterOrEqual(start), LessOrEqual(end)) in inclusive and (GreaterOrEqual(start), Less(end)) in exclusive mode":
   the list form is the pair conversion (c07_pair.h, proved there) applied to every (start_k, end_k), in order, on THIS axis (its own interval and
   offset-or-0 / labels / ticks / row count) and in the REQUESTED mode; lists of different length are refused before anything is converted.
   The pair conversion is a ghost here: it checks the arguments of its k-th call and returns a value that names k. */
#ifndef C07_VEC_H
#define C07_VEC_H
#define RV __CPROVER_return_value
#ifdef C07V_BOUNDED
#define CV_NMAX C07V_BOUNDED
#else
#define CV_NMAX VEC_MAX
#endif
typedef struct { double interval; int has_offset; double offset; size_t labels_n; ndsize_t rows; int ticks_id; } AxisV;
typedef AxisV SampledDimensionV; typedef AxisV SetDimensionV; typedef AxisV RangeDimensionV; typedef AxisV DataFrameDimensionV;
typedef struct { size_t n; } vec_string;
typedef struct { int id; size_t n; } vec_double_t;              /* the tick vector as a value: which one it is */
extern size_t gh_cv_calls, gh_cv_pushes; extern RangeMatch gh_cv_match; extern double gh_cv_seen_start, gh_cv_seen_end;   /* the arguments of call number ghost_k (any k) */
#define CV_ARGS_OK(start, end, match) (cv_record(start, end) && (match) == gh_cv_match)
#define SAME_DV(a, b) ((a) == (b) || (isnan(a) && isnan(b)))
static inline int cv_record(double start, double end)
{ if (gh_cv_calls == ghost_k) { gh_cv_seen_start = start; gh_cv_seen_end = end; } return 1; }
static inline opt_pair cv_answer(void)
{ opt_pair r; r.has = 1; r.val.first = (ndsize_t)gh_cv_calls; r.val.second = 0; gh_cv_calls++; return r; }
static inline opt_double SampledDimensionV_backend_offset(const AxisV *a)
{ opt_double o; o.has = a->has_offset != 0; o.val = a->offset; return o; }
static inline double SampledDimensionV_backend_samplingInterval(const AxisV *a)
{ return a->interval; }
static inline opt_pair SampledDimensionV_indexOf_pair5(const AxisV *a, double start, double end, double sampling_interval, double offset, RangeMatch match)
{ __CPROVER_assert(/*pair-k-is-converted-on-this-axis-in-the-requested-mode*/ CV_ARGS_OK(start, end, match) && SAME_DV(sampling_interval, a->interval) && SAME_DV(offset, a->has_offset ? a->offset : 0.0),
                   "the k-th pair (start_k, end_k) is converted with this axis' interval and offset (0 when it has none) in the requested mode");
  return cv_answer(); }
static inline vec_string SetDimensionV_labels(const AxisV *a)
{ vec_string v; v.n = a->labels_n; return v; }
static inline opt_pair SetDimensionV_indexOf_pair4(const AxisV *a, double start, double end, vec_string labels, RangeMatch match)
{ __CPROVER_assert(/*pair-k-is-converted-on-this-axis-in-the-requested-mode*/ CV_ARGS_OK(start, end, match) && labels.n == a->labels_n, "the k-th pair is converted with this axis' labels in the requested mode");
  return cv_answer(); }
static inline vec_double_t RangeDimensionV_ticks(const AxisV *a)
{ vec_double_t t; t.id = a->ticks_id; t.n = 0; return t; }
static inline opt_pair RangeDimensionV_indexOf_pair4(const AxisV *a, double start, double end, vec_double_t ticks, RangeMatch match)
{ __CPROVER_assert(/*pair-k-is-converted-on-this-axis-in-the-requested-mode*/ CV_ARGS_OK(start, end, match) && ticks.id == a->ticks_id, "the k-th pair is converted with this axis' ticks in the requested mode");
  return cv_answer(); }
static inline ndsize_t DataFrameDimensionV_size(const AxisV *a)
{ return a->rows; }
static inline opt_pair DataFrameDimensionV_indexOf_pair4(const AxisV *a, double start, double end, ndsize_t tick_count, RangeMatch match)
{ __CPROVER_assert(/*pair-k-is-converted-on-this-axis-in-the-requested-mode*/ CV_ARGS_OK(start, end, match) && tick_count == a->rows, "the k-th pair is converted with this axis' row count in the requested mode");
  return cv_answer(); }
static inline void vec_opt_pair_push_back(vec_opt_pair *v, opt_pair x)
{ __CPROVER_assert(/*entry-k-of-the-result-is-the-conversion-of-pair-k*/ v->n == gh_cv_pushes && x.has && x.val.first == (ndsize_t)gh_cv_pushes && gh_cv_calls == gh_cv_pushes + 1,
                   "entry k of the result is the conversion of pair k");
  gh_cv_pushes++; v->n++; }
#define CV_PRE(self) (__CPROVER_is_fresh(self, sizeof(AxisV)) && __CPROVER_is_fresh(start_positions, sizeof(vec_double)) && __CPROVER_is_fresh(end_positions, sizeof(vec_double)) && \
    start_positions->n <= CV_NMAX && end_positions->n <= CV_NMAX && __CPROVER_is_fresh(start_positions->data, (start_positions->n ? start_positions->n : 1) * sizeof(double)) && \
    __CPROVER_is_fresh(end_positions->data, (end_positions->n ? end_positions->n : 1) * sizeof(double)) && \
    gh_cv_calls == 0 && gh_cv_pushes == 0 && nix_exc == EXC_NONE)
#define CV_POST(m) \
__CPROVER_ensures(/*lists-of-different-length-are-refused-before-anything-is-converted*/ start_positions->n != end_positions->n <==> (nix_exc == EXC_runtime_error && gh_cv_calls == 0)) \
__CPROVER_ensures(/*one-entry-per-pair-in-order*/ start_positions->n == end_positions->n ==> (nix_exc == EXC_NONE && RV.n == start_positions->n && gh_cv_calls == start_positions->n && gh_cv_pushes == start_positions->n)) \
__CPROVER_ensures(/*conversion-k-is-asked-for-start-k-and-end-k*/ (start_positions->n == end_positions->n && ghost_k < start_positions->n) ==> \
                  (SAME_DV(gh_cv_seen_start, start_positions->data[ghost_k]) && SAME_DV(gh_cv_seen_end, end_positions->data[ghost_k])))
#define CV_ASSIGNS nix_exc, gh_cv_calls, gh_cv_pushes, gh_cv_seen_start, gh_cv_seen_end
NIX_THROWS vec_opt_pair SampledDimensionV_indexOf_list(const SampledDimensionV *self, const vec_double *start_positions, const vec_double *end_positions, RangeMatch range_matching)
__CPROVER_requires(CV_PRE(self) && gh_cv_match == range_matching && (self->has_offset == 0 || self->has_offset == 1))
CV_POST(range_matching)
NIX_CANARY(SampledDimensionV_indexOf_list) __CPROVER_assigns(CV_ASSIGNS)
;
NIX_THROWS vec_opt_pair SetDimensionV_indexOf_list(const SetDimensionV *self, const vec_double *start_positions, const vec_double *end_positions, RangeMatch match)
__CPROVER_requires(CV_PRE(self) && gh_cv_match == match)
CV_POST(match)
NIX_CANARY(SetDimensionV_indexOf_list) __CPROVER_assigns(CV_ASSIGNS)
;
NIX_THROWS vec_opt_pair RangeDimensionV_indexOf_list(const RangeDimensionV *self, const vec_double *start_positions, const vec_double *end_positions, RangeMatch match)
__CPROVER_requires(CV_PRE(self) && gh_cv_match == match)
CV_POST(match)
NIX_CANARY(RangeDimensionV_indexOf_list) __CPROVER_assigns(CV_ASSIGNS)
;
NIX_THROWS vec_opt_pair DataFrameDimensionV_indexOf_list(const DataFrameDimensionV *self, const vec_double *start_positions, const vec_double *end_positions, RangeMatch match)
__CPROVER_requires(CV_PRE(self) && gh_cv_match == match)
CV_POST(match)
NIX_CANARY(DataFrameDimensionV_indexOf_list) __CPROVER_assigns(CV_ASSIGNS)
;
#undef RV
#endif
