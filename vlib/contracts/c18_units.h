/* C18: unit scaling (src/util/util.cpp): the prefix table and the factor selection of getSIScaling.
   "For SI units that differ only by prefix the scaling factor from a to b is 10^(power * (exp_a - exp_b))".
   Strings are abstract: a prefix is its index in the SI list (0 = no prefix), a power string is the integer it
   spells (0 = no power).  splitUnit / isScalable (boost::regex grammar) are ghost inputs: the selection is proved for
   every split.  pow() for integer exponents -3..3 is repeated multiplication (libm rounding not modelled). */
#ifndef C18_UNITS_H
#define C18_UNITS_H
#define RV __CPROVER_return_value
typedef struct { int id; } nstring;
typedef struct { int _m; } prefix_map;
extern prefix_map PREFIX_FACTORS;
/* SI prefixes in list order: index 1..20 */
#define SI_PREFIX_COUNT 20
static const char *const SI_PREFIX_NAMES[SI_PREFIX_COUNT + 1] = {"", "y", "z", "a", "f", "p", "n", "u", "m", "c", "d", "da", "h", "k", "M", "G", "T", "P", "E", "Z", "Y"};
static const double SI_PREFIX_SPEC[SI_PREFIX_COUNT + 1] = {1.0, 1e-24, 1e-21, 1e-18, 1e-15, 1e-12, 1e-9, 1e-6, 1e-3, 1e-2, 1e-1, 1e1, 1e2, 1e3, 1e6, 1e9, 1e12, 1e15, 1e18, 1e21, 1e24};
/* PREFIX_TABLE[] is generated on every run from the initialiser of PREFIX_FACTORS in util.cpp (vlib/props/c18.py) */
#include "prefix_table.h"
static inline nstring nstring_default(void)
{ nstring s; s.id = 0; return s; }
static inline bool nstring_eq(const nstring *a, const nstring *b)
{ return a->id == b->id; }
static inline bool nstring_empty(const nstring *a)
{ return a->id == 0; }
static inline double prefix_map_at(const prefix_map *m, const nstring *key)
{ __CPROVER_assert(key->id >= 1 && key->id <= SI_PREFIX_COUNT, "map::at: key present (else std::out_of_range)"); return PREFIX_TABLE[key->id]; }
static inline int stoi(const nstring *s)
{ return s->id; }
static inline double nix_powi(double b, int e)
{ double r = 1.0; int n = e < 0 ? -e : e; if (n >= 1) r *= b; if (n >= 2) r *= b; if (n >= 3) r *= b; return e < 0 ? 1.0 / r : r; }
/* ghost: result of the regex-based helpers for the two arguments */
extern bool gh_scalable; extern int gh_org_prefix, gh_dest_prefix, gh_org_power, gh_dest_power;
static inline bool isScalable(const nstring *a, const nstring *b)
{ return gh_scalable; }
static inline void splitUnit(const nstring *combined, nstring *prefix, nstring *unit, nstring *power)
{ if (combined->id == 1) { prefix->id = gh_org_prefix; power->id = gh_org_power; } else { prefix->id = gh_dest_prefix; power->id = gh_dest_power; } unit->id = 7; }

#define F_(i) PREFIX_TABLE[i]
#if defined(C18_POWER) && (C18_ORG0 == 0) && (C18_DEST0 == 0)
#define C18_BASE (F_(gh_org_prefix) / F_(gh_dest_prefix))
#elif defined(C18_POWER) && (C18_ORG0 == 0) && (C18_DEST0 == 1)
#define C18_BASE F_(gh_org_prefix)
#elif defined(C18_POWER) && (C18_ORG0 == 1) && (C18_DEST0 == 0)
#define C18_BASE (1.0 / F_(gh_dest_prefix))
#elif defined(C18_POWER)
#define C18_BASE 1.0
#else
#define C18_BASE (gh_dest_prefix == 0 ? (gh_org_prefix == 0 ? 1.0 : F_(gh_org_prefix)) : (gh_org_prefix == 0 ? 1.0 / F_(gh_dest_prefix) : F_(gh_org_prefix) / F_(gh_dest_prefix)))
#endif
NIX_THROWS double getSIScaling(const nstring *originUnit, const nstring *destinationUnit)
__CPROVER_requires(__CPROVER_is_fresh(originUnit, sizeof(nstring)) && __CPROVER_is_fresh(destinationUnit, sizeof(nstring)) && originUnit->id == 1 && destinationUnit->id == 2 && nix_exc == EXC_NONE)
__CPROVER_requires(gh_org_prefix >= 0 && gh_org_prefix <= SI_PREFIX_COUNT && gh_dest_prefix >= 0 && gh_dest_prefix <= SI_PREFIX_COUNT && gh_org_power >= -3 && gh_org_power <= 3)
#ifdef C18_POWER   /* complete case split: power -3..3 (0 = no power), origin / destination prefix present or not */
__CPROVER_requires(gh_org_power == (C18_POWER) && (gh_org_prefix == 0) == (C18_ORG0) && (gh_dest_prefix == 0) == (C18_DEST0))
#endif
__CPROVER_requires(gh_scalable ==> gh_org_power == gh_dest_power)        /* isScalable: same base unit and same power */
__CPROVER_ensures(/*not-scalable-rejected*/ !gh_scalable <==> nix_exc == EXC_InvalidUnit)
__CPROVER_ensures(/*same-prefix-is-exactly-one*/ (gh_scalable && gh_org_prefix == gh_dest_prefix) ==> RV == 1.0)
__CPROVER_ensures(/*factor-is-origin-over-destination-to-the-power*/ (gh_scalable && gh_org_prefix != gh_dest_prefix) ==>
                  RV == (gh_org_power == 0 ? C18_BASE : nix_powi(C18_BASE, gh_org_power)))
NIX_CANARY(getSIScaling) __CPROVER_assigns(nix_exc)
;
#undef RV
#endif
