/* C19 (also C05 / C06 / C17): util::getDimensionUnit (src/util/dataAccess.cpp) and valid::getDimensionsUnits (src/valid/helper.cpp).
   "tag units that cannot be converted to the referenced dimension's unit" - the validator compares the tag's units with the per-dimension unit
   list of each referenced array; that list must have exactly one entry per dimension descriptor, in order, entry d being the unit of descriptor d
   and the word "none" for a descriptor without unit (a dropped or shifted entry pairs a tag unit with the wrong dimension: seed C19-m3).
   Strings are abstract ids (0 = empty, 1 = "none", 2.. = other); descriptors are records of what these functions read. */
#ifndef C19_DIMUNIT_H
#define C19_DIMUNIT_H
#define RV __CPROVER_return_value
#ifdef C19_BOUNDED
#define DU_NMAX C19_BOUNDED
#else
#define DU_NMAX VEC_MAX
#endif
typedef struct { int id; } nstring;
typedef struct { int has; nstring val; } opt_nstr;
typedef struct { DimensionType type; int has_unit; nstring unit; int has_column; } Dimension;
typedef Dimension SampledDimension; typedef Dimension RangeDimension; typedef Dimension DataFrameDimension;
typedef struct { Dimension *data; size_t n; } vec_Dimension;
typedef struct { size_t n; } vec_string;                 /* ghost vector of strings: its length; what is appended is recorded */
typedef struct { int _a; } DataArray;     /* its descriptors are the ghost array gh_dims[0..gh_ndims) (one pointer only: CBMC does not learn a points-to fact from an assumed pointer equality) */
static inline nstring nstring_default(void)
{ nstring s; s.id = 0; return s; }
static inline bool nstring_empty(const nstring *a)
{ return a->id == 0; }
static inline nstring nstring_lit(const char *lit)
{ __CPROVER_assert(lit[0] == 'n' && lit[1] == 'o' && lit[2] == 'n' && lit[3] == 'e' && lit[4] == 0, "only the literal \"none\" is modelled"); nstring s; s.id = 1; return s; }
static inline bool nstring_ne_cstr(const nstring *a, const char *lit)
{ return a->id != nstring_lit(lit).id; }
static inline bool nstring_eq_cstr(const nstring *a, const char *lit)
{ return a->id == nstring_lit(lit).id; }
static inline nstring opt_nstr_value_or(opt_nstr o, nstring dflt)
{ return o.has ? o.val : dflt; }
static inline DimensionType Dimension_dimensionType(const Dimension *d)
{ return d->type; }
static inline SampledDimension Dimension_asSampledDimension(const Dimension *d)
{ __CPROVER_assert(d->type == DimensionType_Sample, "asSampledDimension of a sampled descriptor"); return *d; }
static inline RangeDimension Dimension_asRangeDimension(const Dimension *d)
{ __CPROVER_assert(d->type == DimensionType_Range, "asRangeDimension of a range descriptor"); return *d; }
static inline DataFrameDimension Dimension_asDataFrameDimension(const Dimension *d)
{ __CPROVER_assert(d->type == DimensionType_DataFrame, "asDataFrameDimension of a data-frame descriptor"); return *d; }
static inline opt_nstr SampledDimension_unit(const Dimension *d)
{ opt_nstr o; o.has = d->has_unit != 0; o.val = d->unit; return o; }
static inline opt_nstr RangeDimension_unit(const Dimension *d)
{ opt_nstr o; o.has = d->has_unit != 0; o.val = d->unit; return o; }
static inline bool DataFrameDimension_columnIndex(const Dimension *d)
{ return d->has_column != 0; }                            /* boost::optional<unsigned> in a condition: is a column selected */
static inline nstring DataFrameDimension_unit(const Dimension *d)
{ __CPROVER_assert(d->has_column != 0, "the column unit is read only when a column is selected"); return d->unit; }   /* unit of the selected column, possibly "" */
#define DU_WF(d) (((d)->has_unit == 0 || (d)->has_unit == 1) && ((d)->has_column == 0 || (d)->has_column == 1) && (d)->unit.id >= 0 && (d)->unit.id < 1000)
/* the unit a descriptor contributes: its own unit, "none" (id 1) when it has none */
#define DU_EXPECT(d) ((d)->type == DimensionType_Set ? 1 : \
                      (d)->type == DimensionType_DataFrame ? (((d)->has_column && (d)->unit.id != 0) ? (d)->unit.id : 1) : \
                      ((d)->has_unit ? (d)->unit.id : 1))
#define DU_KNOWN(d) ((d)->type == DimensionType_Set || (d)->type == DimensionType_DataFrame || (d)->type == DimensionType_Sample || (d)->type == DimensionType_Range)
NIX_THROWS nstring getDimensionUnit(const Dimension *dim)
__CPROVER_requires(NIX_SEL(getDimensionUnit, __CPROVER_is_fresh(dim, sizeof(Dimension)), __CPROVER_r_ok(dim, sizeof(Dimension))) && nix_exc == EXC_NONE)
__CPROVER_ensures(/*the-descriptor-s-own-unit-or-the-word-none*/ DU_KNOWN(dim) ==> (nix_exc == EXC_NONE && RV.id == DU_EXPECT(dim)))
__CPROVER_ensures(/*unknown-descriptor-kind-is-refused*/ !DU_KNOWN(dim) <==> nix_exc == EXC_invalid_argument)
NIX_CANARY(getDimensionUnit) __CPROVER_assigns(nix_exc)
;
/* std::vector<std::string> getDimensionsUnits(DataArray darray)  (src/valid/helper.cpp) */
extern size_t gh_du_pushes; extern Dimension *gh_dims; extern size_t gh_ndims;
static inline vec_Dimension DataArray_dimensions(const DataArray *a)
{ vec_Dimension v; v.data = gh_dims; v.n = gh_ndims; return v; }
static inline vec_string vec_string_default(void)
{ vec_string v; v.n = 0; return v; }
static inline void vec_string_push_back(vec_string *v, nstring s)
{ __CPROVER_assert(/*no-more-entries-than-descriptors*/ gh_du_pushes < gh_ndims, "no more entries than descriptors");
  __CPROVER_assert(/*appended-at-the-end-in-descriptor-order*/ v->n == gh_du_pushes, "entries are appended in descriptor order");
  __CPROVER_assert(/*entry-d-is-the-unit-of-descriptor-d*/ s.id == DU_EXPECT(&gh_dims[gh_du_pushes]), "entry d of the list is the unit of descriptor d (the word none for a descriptor without unit)");
  gh_du_pushes++; v->n++; }
NIX_THROWS vec_string getDimensionsUnits(DataArray darray)
__CPROVER_requires(gh_ndims <= DU_NMAX && __CPROVER_is_fresh(gh_dims, (gh_ndims ? gh_ndims : 1) * sizeof(Dimension)) && gh_du_pushes == 0 && nix_exc == EXC_NONE)
__CPROVER_ensures(/*one-entry-per-descriptor*/ nix_exc == EXC_NONE ==> (RV.n == gh_ndims && gh_du_pushes == gh_ndims))
__CPROVER_ensures(/*raises-only-for-a-descriptor-of-unknown-kind*/ nix_exc == EXC_NONE || nix_exc == EXC_invalid_argument)
NIX_CANARY(getDimensionsUnits) __CPROVER_assigns(nix_exc, gh_du_pushes)
;
#undef RV
#endif
