/* C05 / C06 / C17: util::positionToIndex(start_positions, end_positions, units, match, const Dimension&) (src/util/dataAccess.cpp) - the dispatch every
   tagged-data and slice retrieval goes through for each dimension.
   "... a DataArray whose dimensions are described by sampled, range, set or data-frame descriptors": the conversion is done by the converter OF THE
   DIMENSION'S OWN KIND - sampled and range descriptors with the units (they carry a unit), set and data-frame descriptors without - asked exactly once,
   with the same start / end lists and the SAME range mode, and its answer is returned unchanged.
   The four converters (their list forms: C07, c07_vec.h) are ghost records of their arguments here. */
#ifndef C05_DISPATCH_H
#define C05_DISPATCH_H
#define RV __CPROVER_return_value
typedef struct { DimensionType type; int tag; } DimensionD;
typedef DimensionD Dimension; typedef DimensionD SampledDimension; typedef DimensionD SetDimension; typedef DimensionD RangeDimension; typedef DimensionD DataFrameDimension;
typedef struct { size_t n; int id; } vec_ustr;
typedef struct { int serial; } vec_opt_pair_v;
extern int gh_dp_calls, gh_dp_kind, gh_dp_with_units, gh_dp_units_id, gh_dp_dim_tag; extern const double *gh_dp_starts, *gh_dp_ends; extern RangeMatch gh_dp_match;
#define DP_SERIAL 77
static inline DimensionType Dimension_dimensionType(const Dimension *d)
{ return d->type; }
static inline vec_opt_pair_v dp_record(int kind, const vec_double *s, const vec_double *e, const vec_ustr *units, RangeMatch m, const DimensionD *d)
{ gh_dp_calls++; gh_dp_kind = kind; gh_dp_starts = s->data; gh_dp_ends = e->data; gh_dp_with_units = units != 0; gh_dp_units_id = units ? units->id : -1; gh_dp_match = m; gh_dp_dim_tag = d->tag;
  vec_opt_pair_v r; r.serial = DP_SERIAL; return r; }
static inline vec_opt_pair_v positionToIndex_sampled(const vec_double *s, const vec_double *e, const vec_ustr *units, RangeMatch m, const SampledDimension *d)
{ return dp_record(DimensionType_Sample, s, e, units, m, d); }
static inline vec_opt_pair_v positionToIndex_range(const vec_double *s, const vec_double *e, const vec_ustr *units, RangeMatch m, const RangeDimension *d)
{ return dp_record(DimensionType_Range, s, e, units, m, d); }
static inline vec_opt_pair_v positionToIndex_set(const vec_double *s, const vec_double *e, RangeMatch m, const SetDimension *d)
{ return dp_record(DimensionType_Set, s, e, 0, m, d); }
static inline vec_opt_pair_v positionToIndex_dataframe(const vec_double *s, const vec_double *e, RangeMatch m, const DataFrameDimension *d)
{ return dp_record(DimensionType_DataFrame, s, e, 0, m, d); }
/* T dim; dim = dimension;  (conversion of the generic descriptor handle to the handle of its kind) */
static inline DimensionD Dimension_as(const Dimension *d)
{ return *d; }
#define DP_KNOWN(d) ((d)->type == DimensionType_Sample || (d)->type == DimensionType_Set || (d)->type == DimensionType_Range || (d)->type == DimensionType_DataFrame)
vec_opt_pair_v positionToIndex_dispatch(const vec_double *start_positions, const vec_double *end_positions, const vec_ustr *units, RangeMatch range_matching, const Dimension *dimension)
__CPROVER_requires(__CPROVER_is_fresh(start_positions, sizeof(vec_double)) && __CPROVER_is_fresh(end_positions, sizeof(vec_double)) && __CPROVER_is_fresh(units, sizeof(vec_ustr)) &&
                   __CPROVER_is_fresh(dimension, sizeof(DimensionD)) && DP_KNOWN(dimension) && gh_dp_calls == 0 && nix_exc == EXC_NONE)
__CPROVER_ensures(/*the-converter-of-the-dimension-s-own-kind-is-asked-exactly-once*/ gh_dp_calls == 1 && gh_dp_kind == (int)dimension->type && gh_dp_dim_tag == dimension->tag)
__CPROVER_ensures(/*with-the-same-lists-and-the-same-range-mode*/ gh_dp_starts == start_positions->data && gh_dp_ends == end_positions->data && gh_dp_match == range_matching)
__CPROVER_ensures(/*sampled-and-range-descriptors-get-the-units-set-and-data-frame-descriptors-none*/ gh_dp_with_units == (dimension->type == DimensionType_Sample || dimension->type == DimensionType_Range) &&
                  (gh_dp_with_units ==> gh_dp_units_id == units->id))
__CPROVER_ensures(/*its-answer-is-returned-unchanged*/ RV.serial == DP_SERIAL && nix_exc == EXC_NONE)
NIX_CANARY(positionToIndex_dispatch) __CPROVER_assigns(nix_exc, gh_dp_calls, gh_dp_kind, gh_dp_starts, gh_dp_ends, gh_dp_with_units, gh_dp_units_id, gh_dp_match, gh_dp_dim_tag)
;
/* the scalar form positionToIndex(position, unit, match, const Dimension&): same dispatch for one position */
typedef struct { int id; } nstring;
extern double gh_dp1_position; extern int gh_dp1_unit; extern PositionMatch gh_dp1_match;
static inline opt_ndsize dp1_record(int kind, double position, const nstring *unit, PositionMatch m, const DimensionD *d)
{ gh_dp_calls++; gh_dp_kind = kind; gh_dp1_position = position; gh_dp_with_units = unit != 0; gh_dp1_unit = unit ? unit->id : -1; gh_dp1_match = m; gh_dp_dim_tag = d->tag; opt_ndsize r; r.has = 1; r.val = DP_SERIAL; return r; }
static inline opt_ndsize positionToIndex1_sampled(double position, const nstring *unit, PositionMatch m, const SampledDimension *d)
{ return dp1_record(DimensionType_Sample, position, unit, m, d); }
static inline opt_ndsize positionToIndex1_range(double position, const nstring *unit, PositionMatch m, const RangeDimension *d)
{ return dp1_record(DimensionType_Range, position, unit, m, d); }
static inline opt_ndsize positionToIndex1_set(double position, PositionMatch m, const SetDimension *d)
{ return dp1_record(DimensionType_Set, position, 0, m, d); }
static inline opt_ndsize positionToIndex1_dataframe(double position, PositionMatch m, const DataFrameDimension *d)
{ return dp1_record(DimensionType_DataFrame, position, 0, m, d); }
#define SAME_D1(a, b) ((a) == (b) || (isnan(a) && isnan(b)))
opt_ndsize positionToIndex_dispatch1(double position, const nstring *unit, PositionMatch match, const Dimension *dimension)
__CPROVER_requires(__CPROVER_is_fresh(unit, sizeof(nstring)) && __CPROVER_is_fresh(dimension, sizeof(DimensionD)) && DP_KNOWN(dimension) && gh_dp_calls == 0 && nix_exc == EXC_NONE)
__CPROVER_ensures(/*the-converter-of-the-dimension-s-own-kind-is-asked-exactly-once*/ gh_dp_calls == 1 && gh_dp_kind == (int)dimension->type && gh_dp_dim_tag == dimension->tag)
__CPROVER_ensures(/*with-the-same-position-and-the-same-matching-rule*/ SAME_D1(gh_dp1_position, position) && gh_dp1_match == match)
__CPROVER_ensures(/*sampled-and-range-descriptors-get-the-unit-set-and-data-frame-descriptors-none*/ gh_dp_with_units == (dimension->type == DimensionType_Sample || dimension->type == DimensionType_Range) &&
                  (gh_dp_with_units ==> gh_dp1_unit == unit->id))
__CPROVER_ensures(/*its-answer-is-returned-unchanged*/ RV.has && RV.val == DP_SERIAL && nix_exc == EXC_NONE)
NIX_CANARY(positionToIndex_dispatch1) __CPROVER_assigns(nix_exc, gh_dp_calls, gh_dp_kind, gh_dp1_position, gh_dp_with_units, gh_dp1_unit, gh_dp1_match, gh_dp_dim_tag)
;
#undef RV
#endif
