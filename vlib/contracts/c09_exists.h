/* C09: FileHDF5::fileExists (backend/hdf5/FileHDF5.cpp) - the test that decides between "open what is there" and "create" in the constructor.
   "ReadWrite opens an existing file with all prior content intact ...; opening ... any file that lacks the NIX ... header is refused": a file EXISTS
   exactly when it can be opened for reading - whatever it contains, also when it is empty (an empty file must reach the header check and be refused,
   not be silently re-created).  std::ifstream is a ghost: can the path be opened (gh_openable), and what size it has (arbitrary; reading it is allowed,
   letting it decide is not). */
#ifndef C09_EXISTS_H
#define C09_EXISTS_H
#define RV __CPROVER_return_value
typedef struct { int id; } nstring;
typedef struct { int _f; } FileHDF5x;
typedef struct { int ok; int closed; } ifstream;
extern int gh_openable, gh_streams; extern long gh_size;
#define ios_binary 1
#define ios_ate 2
#define ios_in 4
static inline const nstring *nstring_c_str(const nstring *s)
{ return s; }
static inline ifstream mk_ifstream(const nstring *path)
{ ifstream f; f.ok = gh_openable != 0; f.closed = 0; gh_streams++; return f; }
static inline ifstream mk_ifstream_mode(const nstring *path, int mode)
{ return mk_ifstream(path); }
static inline bool ifstream_bool(const ifstream *f)
{ return f->ok != 0; }
static inline bool ifstream_is_open(const ifstream *f)
{ return f->ok != 0 && !f->closed; }
static inline bool ifstream_good(const ifstream *f)
{ return f->ok != 0; }
static inline void ifstream_close(ifstream *f)
{ f->closed = 1; }
static inline long ifstream_tellg(ifstream *f)
{ return f->ok ? gh_size : -1; }
bool FileHDF5x_fileExists(const FileHDF5x *self, const nstring *name)
__CPROVER_requires(__CPROVER_is_fresh(self, sizeof(FileHDF5x)) && __CPROVER_is_fresh(name, sizeof(nstring)) && (gh_openable == 0 || gh_openable == 1) && gh_size >= 0 && gh_streams == 0 && nix_exc == EXC_NONE)
__CPROVER_ensures(/*a-file-exists-exactly-when-it-can-be-opened-for-reading-whatever-its-size*/ RV == (gh_openable != 0))
__CPROVER_ensures(/*never-throws*/ nix_exc == EXC_NONE)
NIX_CANARY(FileHDF5x_fileExists) __CPROVER_assigns(nix_exc, gh_streams)
;
#undef RV
#endif
