/* C16: DataFrameDimensionHDF5::checkColumnIndex (backend/hdf5/DimensionHDF5.cpp) - the guard in front of every cols[*index] of a data-frame dimension
   (unit, label, column, columnDataType).  "indices past the end ... either succeed or throw": the index it lets through is the one given (the
   dimension's own column when none is given) and is BELOW the number of columns, so the vector accesses behind it are inside the vector;
   no index at all, or an index >= the number of columns, raises OutOfBounds. */
#ifndef C16_COLUMN_H
#define C16_COLUMN_H
#define RV __CPROVER_return_value
typedef struct { int _d; } DataFrameDimensionHDF5;
typedef struct { int _f; } DataFrame;
typedef struct { int _c; } Column;
typedef struct { Column *data; size_t n; } vec_Column;
extern opt_unsigned gh_own_column; extern size_t gh_ncols;
static inline opt_unsigned DataFrameDimensionHDF5_columnIndex(const DataFrameDimensionHDF5 *self)
{ return gh_own_column; }
static inline DataFrame DataFrameDimensionHDF5_dataFrame(const DataFrameDimensionHDF5 *self)
{ DataFrame f; f._f = 1; return f; }
static inline vec_Column DataFrame_columns(const DataFrame *f)
{ vec_Column v; v.data = 0; v.n = gh_ncols; return v; }
#define CI_EFFECTIVE_HAS (col_index.has || gh_own_column.has)
#define CI_EFFECTIVE (col_index.has ? col_index.val : gh_own_column.val)
NIX_THROWS opt_unsigned DataFrameDimensionHDF5_checkColumnIndex(const DataFrameDimensionHDF5 *self, opt_unsigned col_index)
__CPROVER_requires(__CPROVER_is_fresh(self, sizeof(DataFrameDimensionHDF5)) && (col_index.has == 0 || col_index.has == 1) && (gh_own_column.has == 0 || gh_own_column.has == 1) && nix_exc == EXC_NONE)
__CPROVER_ensures(/*an-index-that-is-let-through-names-an-existing-column*/ nix_exc == EXC_NONE ==> (RV.has && (size_t)RV.val < gh_ncols))
__CPROVER_ensures(/*it-is-the-given-index-or-else-the-dimension-s-own-column*/ nix_exc == EXC_NONE ==> (CI_EFFECTIVE_HAS && RV.val == CI_EFFECTIVE))
__CPROVER_ensures(/*no-index-or-an-index-past-the-last-column-raises*/ (!CI_EFFECTIVE_HAS || (size_t)CI_EFFECTIVE >= gh_ncols) <==> nix_exc == EXC_OutOfBounds)
__CPROVER_ensures(nix_exc == EXC_NONE || nix_exc == EXC_OutOfBounds)
NIX_CANARY(DataFrameDimensionHDF5_checkColumnIndex) __CPROVER_assigns(nix_exc)
;
#undef RV
#endif
