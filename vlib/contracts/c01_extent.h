/* C01: hdf5::DataSet::setExtent (backend/hdf5/h5x/H5DataSet.cpp) - every extent change of a stored array ("... through any sequence of rectangular
   sub-region writes, appends and extent changes ... elements exposed by growing read as zero").
   Decided: a request of another rank is refused (InvalidRank) without touching the data set; every other request is handed to libhdf5 exactly once, for
   THIS data set, with exactly the requested extent - also when the number of elements stays the same (reshaping) - and a refusal by libhdf5 raises.
   The data space and H5Dset_extent are ghosts. */
#ifndef C01_EXTENT_H
#define C01_EXTENT_H
#define RV __CPROVER_return_value
typedef struct { long hid; } DataSet;
typedef struct { int _s; } DataSpace;
typedef struct { int err; } HErr;
extern size_t gh_cur_rank; extern ndsize_t *gh_cur_dims; extern int gh_set_calls, gh_set_refused; extern long gh_set_hid; extern const ndsize_t *gh_set_dims;
ndsize_t nondet_ndsize(void);
static inline DataSpace DataSet_getSpace(const DataSet *d)
{ DataSpace s; s._s = 1; return s; }
static inline NDSize DataSpace_extent(const DataSpace *s)
{ NDSize n; n.rank = gh_cur_rank; n.dims = gh_cur_dims; return n; }
static inline const ndsize_t *NDSize_data(const NDSize *n)
{ return n->dims; }
static inline ndsize_t NDSize_nelms(const NDSize *n)
{ return nondet_ndsize(); }            /* not used by the pinned code; an arbitrary value keeps a change that brings it in decidable */
static inline HErr H5Dset_extent(long hid, const ndsize_t *dims)
{ gh_set_calls++; gh_set_hid = hid; gh_set_dims = dims; HErr e; e.err = gh_set_refused ? -1 : 0; return e; }
NIX_THROWS static inline void HErr_check(const HErr *e, const char *msg)
{ if (e->err < 0) nix_exc = EXC_H5Error; }
NIX_THROWS void DataSet_setExtent(DataSet *self, const NDSize *dims)
__CPROVER_requires(__CPROVER_is_fresh(self, sizeof(DataSet)) && ND_OK(dims) && gh_cur_rank <= 32 && __CPROVER_is_fresh(gh_cur_dims, 32 * sizeof(ndsize_t)) && gh_set_calls == 0 && (gh_set_refused == 0 || gh_set_refused == 1) && nix_exc == EXC_NONE)
__CPROVER_ensures(/*another-rank-is-refused-without-touching-the-data-set*/ dims->rank != gh_cur_rank <==> (nix_exc == EXC_InvalidRank && gh_set_calls == 0))
__CPROVER_ensures(/*every-other-request-reaches-libhdf5-once-with-exactly-the-requested-extent*/ dims->rank == gh_cur_rank ==> (gh_set_calls == 1 && gh_set_hid == self->hid && gh_set_dims == dims->dims))
__CPROVER_ensures(/*a-refusal-by-libhdf5-raises*/ (dims->rank == gh_cur_rank && gh_set_refused) <==> nix_exc == EXC_H5Error)
NIX_CANARY(DataSet_setExtent) __CPROVER_assigns(nix_exc, gh_set_calls, gh_set_hid, gh_set_dims)
;
#undef RV
#endif
