/* witness-mode harness for getIndex (replay only, see vlib/replay.py) */
double nondet_double(void); size_t nondet_size_t(void); int nondet_int(void);
void h_wit_getIndex(void) {
  g_w0 = nondet_double(); g_w1 = nondet_double(); g_w2 = nondet_double(); g_w3 = nondet_double();
  g_wn = nondet_size_t(); g_wp = nondet_double(); g_wm = nondet_int();
  __CPROVER_assume(g_wn <= 4 && g_wm >= 0 && g_wm < PositionMatch_COUNT);
  __CPROVER_assume(!isnan(g_wp) && !isnan(g_w0) && !isnan(g_w1) && !isnan(g_w2) && !isnan(g_w3));
  __CPROVER_assume(g_wn < 2 || g_w0 < g_w1);
  __CPROVER_assume(g_wn < 3 || g_w1 < g_w2);
  __CPROVER_assume(g_wn < 4 || g_w2 < g_w3);
  vec_double *t;
  getIndex(g_wp, t, (PositionMatch)g_wm);
}
