/* C10 lemmas over the CONTRACTS of the FormatVersion operations (every call below is replaced by
   the callee's contract): "Format-version comparison is a total lexicographic order consistent with
   equality" and the read/write gate relative to an arbitrary library version. */
static FormatVersion *fv(void) { FormatVersion *p = malloc(sizeof(*p)); __CPROVER_assume(p != NULL); return p; }
void lemma_c10_order(void) {
  FormatVersion *a = fv(), *b = fv(), *c = fv();
  __CPROVER_assume(nix_exc == EXC_NONE);
  bool ab = FormatVersion_lt(a, b), ba = FormatVersion_lt(b, a), bc = FormatVersion_lt(b, c), ac = FormatVersion_lt(a, c);
  bool eab = FormatVersion_eq(a, b);
  __CPROVER_assert(!FormatVersion_lt(a, a), "irreflexive");
  __CPROVER_assert(!(ab && bc) || ac, "transitive");
  __CPROVER_assert((ab + ba + eab) == 1, "trichotomy: exactly one of a<b, b<a, a==b");
  __CPROVER_assert(FormatVersion_le(a, b) == (ab || eab), "<= is < or ==");
  __CPROVER_assert(FormatVersion_gt(a, b) == ba, "> is < with operands swapped");
  __CPROVER_assert(FormatVersion_ge(a, b) == !ab, ">= is not <");
  __CPROVER_assert(FormatVersion_ne(a, b) == !eab, "!= is not ==");
  __CPROVER_assert(FormatVersion_eq(a, a), "== reflexive");
  __CPROVER_assert(eab == FormatVersion_eq(b, a), "== symmetric");
  /* component-wise reading of the order, straight from the statement */
  __CPROVER_assert(ab == (a->vx < b->vx || (a->vx == b->vx && (a->vy < b->vy || (a->vy == b->vy && a->vz < b->vz)))), "lexicographic on (x,y,z)");
  __CPROVER_assert(nix_exc == EXC_NONE, "comparisons never throw");
  __CPROVER_assert(!(ab && bc), "COVER-chain");      /* must fail: a<b<c is possible */
  __CPROVER_assert(!eab, "COVER-equal");
}
void lemma_c10_gate(void) {
  /* lib = library version, f = version stored in a file */
  FormatVersion *lib = fv(), *f = fv();
  bool w = FormatVersion_canWrite(lib, f), r = FormatVersion_canRead(lib, f);
  __CPROVER_assert(r == (f->vx == lib->vx && f->vy <= lib->vy), "read iff same major and minor not newer");
  __CPROVER_assert(w == (f->vx == lib->vx && f->vy == lib->vy && f->vz == lib->vz), "read-write iff identical");
  __CPROVER_assert(!w || r, "writable implies readable");
  __CPROVER_assert(!w, "COVER-writable");
  __CPROVER_assert(!(r && !w), "COVER-readable-only");
  __CPROVER_assert(r, "COVER-unreadable");
}
