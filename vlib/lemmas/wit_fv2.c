/* witness-mode harness for the binary FormatVersion functions (replay only); FV_FN is the function under test */
int nondet_int(void);
int g_fa0, g_fa1, g_fa2, g_fb0, g_fb1, g_fb2;
#define CAT_(a, b) a##b
#define CAT(a, b) CAT_(a, b)
void CAT(h_wit_, FV_FN)(void) {
  g_fa0 = nondet_int(); g_fa1 = nondet_int(); g_fa2 = nondet_int(); g_fb0 = nondet_int(); g_fb1 = nondet_int(); g_fb2 = nondet_int();
  FormatVersion *a, *b;
  FV_FN(a, b);
}
