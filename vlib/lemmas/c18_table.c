/* C18 lemma: the prefix table extracted from util.cpp equals the SI exponents (literal for literal), complete and without duplicates */
void lemma_c18_table(void) {
  __CPROVER_assert(PREFIX_TABLE_ENTRIES == SI_PREFIX_COUNT, "20 prefixes, none missing, none duplicated");
  for (int i = 0; i <= SI_PREFIX_COUNT; i++)
    __CPROVER_assert(PREFIX_TABLE[i] == SI_PREFIX_SPEC[i], "prefix factor is 10^exponent of the SI prefix");
  /* reciprocity of the table around 1: kilo * milli == 1 etc. hold for the literals that are exact reciprocals in binary64 only
     up to rounding; not claimed */
  __CPROVER_assert(PREFIX_TABLE[0] == 1.0, "no prefix = factor 1");
  __CPROVER_assert(0, "COVER-reached");
}
