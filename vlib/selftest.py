#!/usr/bin/env python3
"""setup / self test: tools present, extractor works on one unit."""
import sys, os, shutil, subprocess
HERE = os.path.dirname(os.path.abspath(__file__)); sys.path.insert(0, HERE)
def main():
    for t in ('cbmc', 'goto-cc', 'goto-instrument', 'gcc'):
        if not shutil.which(t):
            print('missing tool', t); return 1
    import unit as U
    enums, _ = U.read_enums()
    sigs = U.load_sigs(['contracts/c07_leaf.h', 'stubs/std_algo.h'])
    import props.c07 as c
    U.extract(dict(c.UNITS['getIndex'], cname='getIndex'), enums, sigs)
    print('setup ok:', subprocess.run(['cbmc', '--version'], stdout=subprocess.PIPE, text=True).stdout.strip())
    return 0
if __name__ == '__main__':
    sys.exit(main())
