"""Unit = one function (or region) of /repo brought to C.  See DESIGN.md sections 3 and 4."""
import os, re, copy
from cxx2c import *
import cxx2c

HERE = os.path.dirname(os.path.abspath(__file__))
REPO = os.environ.get('NIX_REPO', '/repo')

# ----------------------------------------------------------------------------------------------
# enums are read from the repository headers on every run

ENUM_SOURCES = {
    'PositionMatch': 'include/nix/Dimensions.hpp',
    'RangeMatch': 'include/nix/Dimensions.hpp',
    'PositionInRange': 'include/nix/Dimensions.hpp',
    'DimensionType': 'include/nix/base/IDimensions.hpp',
    'FileMode': 'include/nix/base/IFile.hpp',
    'OpenFlags': 'include/nix/base/IFile.hpp',
    'LinkType': 'include/nix/base/IFeature.hpp',
    'DataType': 'include/nix/DataType.hpp',
    'Compression': 'include/nix/Compression.hpp',
    'ObjectType': 'include/nix/ObjectType.hpp',
}

_file_cache = {}
def repo_text(rel):
    if isinstance(rel, tuple):          # injected text (mutant self-test)
        return _file_cache[rel]
    if rel not in _file_cache:
        with open(os.path.join(REPO, rel)) as f:
            _file_cache[rel] = strip_comments(f.read())
    return _file_cache[rel]

def read_enums():
    enums, text = {}, []
    for name, rel in ENUM_SOURCES.items():
        src = repo_text(rel)
        m = re.search(r'enum\s+class\s+%s\b[^{;]*\{([^}]*)\}' % name, src)
        if not m:
            raise ExtractError('enum %s not found in %s' % (name, rel))
        items = [x.strip() for x in m.group(1).split(',') if x.strip()]
        names, body = [], []
        for it in items:
            mm = re.match(r'(\w+)\s*(?:=\s*(.+))?$', it, re.S)
            if not mm:
                raise ExtractError('enum %s: cannot parse enumerator %r' % (name, it))
            names.append(mm.group(1))
            body.append('%s_%s%s' % (name, mm.group(1), (' = ' + mm.group(2).strip()) if mm.group(2) else ''))
        enums[name] = names
        text.append('typedef enum { %s } %s;' % (', '.join(body), name))
        text.append('#define %s_COUNT %d' % (name, len(names)))
    return enums, '\n'.join(text) + '\n'

# ----------------------------------------------------------------------------------------------
# C prototypes from contract / stub headers are the registry of C signatures

PROTO_RE = re.compile(r'^(?P<throws>NIX_THROWS\s+)?(?P<ret>[A-Za-z_][\w ]*?)\s*(?P<ptr>\*+)?\s*\b(?P<name>[A-Za-z_]\w*)\s*\((?P<params>[^()]*)\)\s*$', re.M)

def parse_protos(text):
    sigs = {}
    text = strip_comments(text)
    # prototypes are written on one line, optionally followed by contract clauses on next lines
    for m in PROTO_RE.finditer(text):
        ret = m.group('ret').strip() + (' ' + m.group('ptr') if m.group('ptr') else '')
        if ret.split()[0] in ('return', 'typedef', 'else', 'define', '#define', 'struct') or ret.startswith('#'):
            continue
        ret = re.sub(r'^(static|inline|extern)\s+', '', ret)
        ret = re.sub(r'^(static|inline|extern)\s+', '', ret)
        params = []
        ptxt = m.group('params').strip()
        if ptxt and ptxt != 'void':
            for p in ptxt.split(','):
                p = p.strip()
                mm = re.match(r'^(.*?)(\**)\s*(\w+)$', p)
                ty = re.sub(r'\bconst\b', '', mm.group(1)).strip()
                params.append((ty, mm.group(3), len(mm.group(2))))        # number of '*' (truthy = pointer parameter)
        nxt = text[m.end():].lstrip()[:1]
        sigs[m.group('name')] = {'ret': ret, 'params': params, 'throws': bool(m.group('throws')), 'has_contract': nxt not in (';', '{'),
                                 'proto': re.sub(r'^NIX_THROWS\s+', '', m.group(0).strip())}
    return sigs

def load_sigs(headers):
    sigs = {}
    for h in headers:
        with open(os.path.join(HERE, h)) as f:
            sigs.update(parse_protos(f.read()))
    return sigs

# ----------------------------------------------------------------------------------------------

def norm_sig(s):
    s = re.sub(r'\bconst\b', '', s)
    return re.sub(r'\s+', '', s)

class Extracted:
    pass

def class_members(cls_file, cls):
    """member function names and data member names of a class, read from its definition"""
    src = repo_text(cls_file)
    m = re.search(r'(?:class|struct)\s+(?:NIXAPI\s+)?%s\b[^;{]*\{' % cls, src)
    if not m:
        raise ExtractError('class %s not found in %s' % (cls, cls_file))
    d = 0; e = m.end() - 1
    while e < len(src):
        if src[e] == '{': d += 1
        elif src[e] == '}':
            d -= 1
            if d == 0: break
        e += 1
    body = src[m.end():e]
    # depth-0 text only
    # members of anonymous unions / structs are members of the class: splice their declarations in
    body = re.sub(r'\b(?:union|struct)\s*\{([^{}]*)\}\s*;', lambda mm: mm.group(1), body)
    flat = []; d = 0
    for ch in body:
        if ch == '{': d += 1
        elif ch == '}':
            d -= 1
            if d == 0: flat.append(';')
        elif d == 0: flat.append(ch)
    flat = ''.join(flat)
    funcs = set(re.findall(r'\b([A-Za-z_]\w*)\s*\(', flat)) - {'if', 'while', 'for', 'switch', 'return', cls, 'operator', 'sizeof', 'throw'}
    datas = set()
    for stmt in flat.split(';'):
        stmt = stmt.strip()
        # strip access labels
        stmt = re.sub(r'\b(public|private|protected)\s*:', '', stmt).strip()
        if not stmt or '(' in stmt or stmt.startswith(('typedef', 'using', 'friend', 'template')):
            continue
        parts = stmt.split(',')
        m0 = re.search(r'([A-Za-z_]\w*)\s*(?:=[^,]*)?$', parts[0].strip())
        if m0: datas.add(m0.group(1))
        for pz in parts[1:]:
            mz = re.match(r'\s*[\*&]?\s*([A-Za-z_]\w*)\s*(?:=.*)?$', pz.strip())
            if mz: datas.add(mz.group(1))
    return funcs, datas

def extract(unit, enums, sigs):
    """unit: dict with keys file, locator, cname, [cls, cls_file, members, self_const, which, expect, pre_rules,
    post_subst, ret_default, loops, region]"""
    src = repo_text(unit['file'])
    s0, p_open, p_close, b_open, b_close = locate(src, unit['locator'], unit.get('which', 0), unit.get('expect', 1))
    region = unit.get('region')
    if region:
        # region unit: a statement range inside the located function, delimited by two anchor regexes (each must
        # match exactly once inside the body); live-in variables become parameters (declared in the unit)
        body_txt = src[b_open:b_close + 1]
        ms = list(re.finditer(region['start'], body_txt)); me = list(re.finditer(region['end'], body_txt))
        if len(ms) != 1 or len(me) != 1 or me[0].end() <= ms[0].start():
            raise ExtractError('region anchors of %s matched %d / %d times' % (unit.get('cname'), len(ms), len(me)))
        r0 = b_open + ms[0].start(); r1 = b_open + me[0].end()
        if region.get('strip_first_brace'): r0 += 1
        fake = '%s %s(%s) {%s%s}' % (region.get('ret', 'void'), 'REGION', ', '.join('%s %s' % p for p in region['params']), src[r0:r1],
                                   (' return %s;' % region['ret_expr']) if region.get('ret_expr') else '')
        off = len(src)
        src = src + '\n' + fake
        s0 = off + 1; p_open = src.index('(', s0); p_close = src.index(')', p_open)
        b_open = src.index('{', p_close); b_close = len(src) - 1
        line_r0 = src.count('\n', 0, r0) + 1; line_r1 = src.count('\n', 0, r1) + 1
    span = src[s0:b_close + 1]
    line0 = src.count('\n', 0, s0) + 1
    line1 = src.count('\n', 0, b_close) + 1
    if region:
        line0, line1 = line_r0, line_r1
    ctx = Ctx(unit, enums, sigs)
    for g, gty in (unit.get('globals') or {}).items():
        ctx.env[g] = (gty, False)
    cname = unit['cname']
    if cname not in sigs:
        raise ExtractError('no contract prototype for %s' % cname)
    mysig = sigs[cname]

    sig_toks = tokenize(src[s0:p_open])
    par_toks = tokenize(src[p_open + 1:p_close])
    tail = src[p_close + 1:b_open]
    is_const_member = bool(re.search(r'\bconst\b', tail))
    body_toks = tokenize(src[b_open:b_close + 1])
    init_toks = []
    mi = re.match(r'\s*:(?!:)', tail)
    if mi:
        init_toks = tokenize(tail[mi.end():])

    # object-like macro aliases of the form '#define nd_copy std::copy_n' are expanded as the preprocessor would
    aliases = dict(re.findall(r'^[ \t]*#[ \t]*define[ \t]+(\w+)[ \t]+(?:std::)(\w+)[ \t]*$', src, re.M))
    def pre(toks):
        for t in toks:
            if t.k == 'id' and t.t in aliases:
                t.t = aliases[t.t]; fire(ctx, 'macro-alias')
        toks = r_qualifiers(ctx, toks)
        toks = r_types(ctx, toks)
        toks = r_casts(ctx, toks)
        toks = r_enums(ctx, toks)
        toks = r_misc(ctx, toks)
        sub = unit.get('subst') or {}
        for t in toks:
            if t.k == 'id' and t.t in sub:
                t.t = sub[t.t]; fire(ctx, 'template-subst')
        return toks

    # ---- signature ----
    sig_toks = pre(sig_toks)
    par_toks = pre(par_toks)
    # return type = everything before the (possibly qualified) name; drop 'inline', 'static', 'virtual', 'NIXAPI', template heads
    rt = [t for t in sig_toks]
    # strip 'template < ... >' prefix
    if rt and rt[0].t == 'template':
        j = match_angle(rt, 1); rt = rt[j + 1:]
    # name is the last identifier (or 'operator' + punct)
    name_i = None
    for k in range(len(rt) - 1, -1, -1):
        if rt[k].t == 'operator':
            name_i = k; break
    if name_i is None:
        name_i = len(rt) - 1
        while name_i >= 0 and rt[name_i].k != 'id': name_i -= 1
    k = name_i
    while k >= 2 and rt[k - 1].t == '::':
        k -= 2
    ret_toks = [t for t in rt[:k] if t.t not in ('inline', 'static', 'virtual', 'NIXAPI', 'explicit', 'constexpr')]
    ret_c = render(ret_toks).strip()
    ret_c = re.sub(r'\s+', ' ', ret_c)
    if not ret_c and rt[name_i].t == 'operator' and name_i + 1 < len(rt) and rt[name_i + 1].k == 'id':
        ret_c = rt[name_i + 1].t                      # conversion operator
    ret_is_ref = ret_c.endswith('&')
    if ret_is_ref:
        ret_c = ret_c[:-1].strip() + ' *'
    if unit.get('ctor'):
        ret_c = 'void'
    ret_c = re.sub(r'^const\s+', '', ret_c)
    params = []
    cls = unit.get('cls')
    if cls and not unit.get('static_member'):
        params.append((cls, 'self', True, is_const_member))
        ctx.env['self'] = (cls, True)
    unit.setdefault('classes', [])
    if cls and cls not in unit['classes']: unit['classes'] = list(unit['classes']) + [cls]
    unit['extra_types'] = list(set(unit.get('extra_types', [])) | set(unit['classes']))
    for a in split_args(par_toks):
        if not a: continue
        # drop default argument
        for q, t in enumerate(a):
            if t.t == '=':
                a = a[:q]; break
        nm = a[-1]
        if len([t for t in a if t.k == 'id' and t.t != 'const']) == 1 and nm.k == 'id':
            # unnamed parameter (only a type): give it a name
            a = a + [Tok('id', '_unnamed%d' % (len(params)), ' ')]; nm = a[-1]
        if nm.k != 'id':
            raise ExtractError('unnamed parameter in %s' % cname)
        ty = [t for t in a[:-1]]
        ref = any(t.t == '&' for t in ty)
        ptr = any(t.t == '*' for t in ty)
        cst = any(t.t == 'const' for t in ty)
        base = [t for t in ty if t.t not in ('&', 'const')]
        bty = re.sub(r'\s+', ' ', render(base).strip())
        params.append((bty, nm.t, ref or ptr, cst))
        if ref and bty in SCALARS:
            ctx.env[nm.t] = (bty, 'param')
        else:
            ctx.env[nm.t] = (bty.replace(' *', '').replace('*', '').strip(), ref or ptr)
    def cparam(p):
        bty, nm, ref, cst = p
        if '*' in bty:
            return '%s%s%s' % ('const ' if cst else '', bty if bty.endswith('*') else bty + ' ', nm)
        return '%s%s %s%s' % ('const ' if cst else '', bty, '*' if ref else '', nm)
    derived = '%s %s(%s)' % (ret_c, cname, ', '.join(cparam(p) for p in params) or 'void')
    if norm_sig(derived) != norm_sig(mysig['proto']):
        raise ExtractError('signature of %s changed: derived from /repo %r, contract header declares %r' % (cname, derived, mysig['proto']))
    ctx.ret = ret_c

    # ---- body ----
    toks = pre(body_toks)
    if init_toks:
        toks = [toks[0]] + r_ctor_init(ctx, pre(init_toks)) + toks[1:]
    for rule in unit.get('pre_rules', []):
        toks = rule(ctx, toks)
    for t_ in toks:
        if t_.k == 'id' and t_.t in (unit.get('calls') or {}):
            t_.t = unit['calls'][t_.t]; fire(ctx, 'overload-by-unit-map')
    toks = r_template_calls(ctx, toks)
    toks = r_brace_temporaries(ctx, toks)
    toks = r_drop_streams(ctx, toks)
    toks = r_rangefor(ctx, toks)
    scan_decls(ctx, toks)
    toks = r_auto(ctx, toks)
    toks = r_iterators(ctx, toks)
    # member access
    if cls:
        funcs, datas = class_members(unit['cls_file'], unit.get('cls_decl', cls))
        # declaration keywords are never member names (a 'static const T x;' line must not make 'const' a data member)
        KW = {'const', 'static', 'mutable', 'volatile', 'unsigned', 'signed', 'inline', 'virtual', 'explicit', 'typename', 'struct', 'class', 'enum'}
        funcs = [f for f in funcs if f not in KW]; datas = [d for d in datas if d not in KW]
        datas = set(datas) | set(unit.get('inherited_members', ()))
        funcs = set(funcs) | set(unit.get('inherited_methods', ()))
        toks = r_members(ctx, toks, cls, funcs, datas)
    toks = r_local_refs(ctx, toks)
    toks = r_nstring_cmp(ctx, toks)
    toks = r_ctor_decl(ctx, toks)
    toks = r_ctor_calls(ctx, toks)
    toks = r_opcalls(ctx, toks)
    toks = r_functor_calls(ctx, toks)
    toks = r_iter_methods(ctx, toks)
    toks = r_methods(ctx, toks)
    toks = r_methods(ctx, toks)      # second pass: methods on call results  f(...).g(...)
    toks = r_call_index(ctx, toks)
    toks = r_class_ops(ctx, toks)
    toks = r_optionals(ctx, toks)
    toks = r_vectors(ctx, toks)
    toks = r_refs(ctx, toks)
    toks = r_pair_ctor(ctx, toks)
    toks = r_calls(ctx, toks)
    if ret_is_ref:
        toks = r_return_ref(ctx, toks)
    toks = r_return_copy(ctx, toks, ret_c)
    toks = r_throw(ctx, toks)
    toks = r_hoist_throws(ctx, toks)
    for rule in unit.get('post_rules', []):
        toks = rule(ctx, toks)
    body = render(toks)
    # loop contracts, keyed by loop ordinal
    no_loops = False
    try:
        body = splice_loops(body, unit.get('loops', {}), cname)
    except ExtractError:
        # the loops the contracts are written for are gone (rewritten body): units with a bounded twin job stay decidable through that job
        if not unit.get('bounded_twin'): raise
        no_loops = True
    dflt = unit.get('ret_default')
    if dflt is None:
        dflt = default_for(ret_c) if ret_c not in unit.get('classes', ()) or ret_c == 'NDSize' else '(%s){0}' % ret_c
    text = '/* extracted from %s:%d-%d by vlib/cxx2c.py -- do not edit */\n' % (unit['file'], line0, line1)
    text += '#undef NIX_RET_DEFAULT\n#define NIX_RET_DEFAULT %s\n' % dflt
    text += derived + '\n' + body + '\n'
    residual_scan(body, unit.get('allow_residual', ()))
    ex = Extracted()
    ex.text = text; ex.cname = cname; ex.file = unit['file']; ex.lines = (line0, line1)
    ex.src_sha = sha(span); ex.gen_sha = sha(text); ex.counts = dict(ctx.counts); ex.proto = derived
    ex.span = span; ex.no_loops = no_loops
    return ex

def default_for(ret):
    if ret == 'void': return ''
    if ret in OPT_TYPES: return 'OPT_NONE_' + OPT_TYPES[ret]
    if ret in ('pair_ndsize',): return 'mk_pair_ndsize(0, 0)'
    if ret in ('NDSize',): return 'NDSize_default()'
    if ret.endswith('*'): return 'NULL'
    return '0'

def r_members(ctx, toks, cls, funcs, datas):
    """this->x -> self->x ; *this -> (*self); bare member call f(args) -> Cls_f(self, args); bare data member -> self->m;
    backend()->g(args) -> Cls_backend_g(self, args)"""
    out = []; i = 0; n = len(toks)
    local = set(ctx.env) - {'self'}
    while i < n:
        t = toks[i]
        prev = out[-1].t if out else ''
        if t.t == 'this' and i + 2 < n and toks[i + 1].t == '->' and toks[i + 2].k == 'id' and toks[i + 2].t in datas \
                and not (i + 3 < n and toks[i + 3].t == '('):
            out.extend([I('self', t.ws), P('->', ''), Tok('id', toks[i + 2].t, '')]); i += 3; fire(ctx, 'this->member'); continue
        if t.t == 'this' and i + 3 < n and toks[i + 1].t == '->' and toks[i + 2].k == 'id' and toks[i + 3].t == '(' and toks[i + 2].t in funcs \
                and ((cls + '_' + toks[i + 2].t) in ctx.sigs or toks[i + 2].t in ctx.unit.get('member_calls', {})):
            nm = toks[i + 2].t
            tgt = ctx.unit.get('member_calls', {}).get(nm, cls + '_' + nm)
            e = match_close(toks, i + 3)
            out.append(Tok('id', tgt, t.ws)); out.append(P('(', '')); out.append(I('self', ''))
            if e > i + 4:
                out.append(P(',', ''))
            i += 4; fire(ctx, 'this->member-call'); continue
        if t.t == 'this' and i + 1 < n and toks[i + 1].t == '->':
            i += 2; fire(ctx, 'this->'); continue     # falls through to bare member handling
        if t.t == '*' and i + 1 < n and toks[i + 1].t == 'this':
            out.extend([P('(', t.ws), P('*', ''), I('self', ''), P(')', '')]); i += 2; fire(ctx, 'deref-this'); continue
        if t.k == 'id' and t.t == 'backend' and seq_at(toks, i + 1, ['(', ')', '->']) and toks[i + 4].k == 'id' and toks[i + 5].t == '(':
            g = toks[i + 4].t
            e = match_close(toks, i + 5)
            out.append(Tok('id', '%s_backend_%s' % (cls, g), t.ws)); out.append(P('(', '')); out.append(I('self', ''))
            if e > i + 6:
                out.append(P(',', ''))
            i += 6; fire(ctx, 'backend-call'); continue
        if t.k == 'id' and prev not in ('.', '->', '::') and t.t not in local:
            if t.t in funcs and i + 1 < n and toks[i + 1].t == '(' and (cls + '_' + t.t) in ctx.sigs or \
               (t.t in funcs and i + 1 < n and toks[i + 1].t == '(' and t.t in ctx.unit.get('member_calls', {})):
                tgt = ctx.unit.get('member_calls', {}).get(t.t, cls + '_' + t.t)
                e = match_close(toks, i + 1)
                tgt = resolve_overload(ctx, tgt, toks[i + 2:e])
                out.append(Tok('id', tgt, t.ws)); out.append(P('(', '')); out.append(I('self', ''))
                if e > i + 2:
                    out.append(P(',', ''))
                i += 2; fire(ctx, 'member-call'); continue
            if t.t in datas and i + 1 < n and toks[i + 1].t == '(' and t.t in ctx.unit.get('member_functors', {}):
                # data member that is a function object: m(args) -> Functor_call(self, args)
                e = match_close(toks, i + 1)
                out.append(Tok('id', ctx.unit['member_functors'][t.t], t.ws)); out.append(P('(', '')); out.append(I('self', ''))
                if e > i + 2:
                    out.append(P(',', ''))
                i += 2; fire(ctx, 'member-functor-call'); continue
            if t.t in datas and not (i + 1 < n and toks[i + 1].t == '('):
                out.extend([I('self', t.ws), P('->', ''), Tok('id', t.t, '')]); i += 1; fire(ctx, 'member-data'); continue
        out.append(t); i += 1
    return out

LOOP_RE = re.compile(r'\b(for|while)\s*\(')

def splice_loops(body, loops, cname):
    """insert loop contract text after the header of the k-th loop (k counted in source order)"""
    if not loops:
        return body
    out = []; pos = 0; k = 0
    used = set()
    for m in LOOP_RE.finditer(body):
        # find header close
        d = 0; j = m.end() - 1
        while j < len(body):
            if body[j] == '(': d += 1
            elif body[j] == ')':
                d -= 1
                if d == 0: break
            j += 1
        if k in loops:
            out.append(body[pos:j + 1]); out.append('\n#ifndef NIX_NO_LOOP_CONTRACTS\n' + loops[k] + '\n#endif\n'); pos = j + 1
            used.add(k)
        k += 1
    out.append(body[pos:])
    if used != set(loops):
        raise ExtractError('%s: loop contracts for loops %s could not be placed (function has %d loops)' % (cname, sorted(set(loops) - used), k))
    return ''.join(out)
