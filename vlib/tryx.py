import sys, importlib
sys.path.insert(0,'/verif/vlib')
import unit as U
pid, name = sys.argv[1], sys.argv[2]
spec = importlib.import_module('props.'+pid).SPEC
enums, etext = U.read_enums()
headers = ['contracts/' + h for h in spec.get('contracts', [])] + ['stubs/' + h for h in spec.get('stubs', [])]
sigs = U.load_sigs(headers)
u = dict(spec['units'][name]); u.setdefault('cname', name)
ex = U.extract(u, enums, sigs)
print(ex.text); print(ex.counts)
