/* Abstraction of the nix::DataArray handle as seen by DataView.cpp / dataAccess.cpp: the only state the
   extracted functions read is its extent; element transfer goes to the back end (libhdf5) and is recorded
   in ghost variables.  These are definitional stubs (trusted), not verified code. */
#ifndef DATAARRAY_H
#define DATAARRAY_H
typedef struct { NDSize extent; bool is_none; } DataArray;     /* is_none: uninitialised handle (nix::none) */
static inline bool DataArray_isNone(const DataArray *self)
{ return self->is_none; }
static inline NDSize DataArray_dataExtent(const DataArray *self)
{ return self->extent; }

/* ghost record of the last transfer request handed to the back end: ranks, and the ghost_k-th element of
   count and offset (ghost_k is arbitrary, so a clause about these is a clause about every element) */
int ghost_io_calls;            /* number of transfers */
bool ghost_io_is_write;
size_t ghost_io_count_rank, ghost_io_base_rank;
ndsize_t ghost_io_count_k, ghost_io_base_k;
nix_exc_t ghost_io_exc_at_call;
#define GHOST_IO_RECORD(W) do { ghost_io_calls++; ghost_io_is_write = (W); ghost_io_exc_at_call = nix_exc; \
    ghost_io_count_rank = count->rank; ghost_io_base_rank = offset->rank; \
    ghost_io_count_k = ghost_k < count->rank ? count->dims[ghost_k] : 0; ghost_io_base_k = ghost_k < offset->rank ? offset->dims[ghost_k] : 0; } while (0)
static inline void DataArray_getData(const DataArray *self, DataType dtype, void *data, const NDSize *count, const NDSize *offset)
{ GHOST_IO_RECORD(false); }
static inline void DataArray_setData(DataArray *self, DataType dtype, const void *data, const NDSize *count, const NDSize *offset)
{ GHOST_IO_RECORD(true); }
#endif
