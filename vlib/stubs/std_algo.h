/* Assumed contracts of libstdc++ algorithms used by extracted code (DESIGN.md section 5).
   These are NOT verified; every use is listed in the evidence trusted_base. */
#ifndef STD_ALGO_H
#define STD_ALGO_H

/* std::lower_bound(first, last, value) on doubles, expressed on (first, n) and returning the offset
   of the result.  Unconditional part (holds for any contents; follows from the halving search):
     r <= n; the element before r is < value; the element at r is not < value.
   Conditional part (range strictly ascending = ghost_ticks_ascending, value not NaN): partition at
   ghost_k, strict ascent between r, r+1 and ghost_k. */
size_t std_lower_bound_idx(const double *first, size_t n, const double value)
__CPROVER_requires(n <= VEC_MAX && __CPROVER_r_ok(first, (n ? n : 1) * sizeof(double)))
__CPROVER_ensures(__CPROVER_return_value <= n)
__CPROVER_ensures((__CPROVER_return_value > 0 && __CPROVER_return_value <= n) ==> first[__CPROVER_return_value - 1] < value)
__CPROVER_ensures(__CPROVER_return_value < n ==> !(first[__CPROVER_return_value] < value))
__CPROVER_ensures((ghost_ticks_ascending && ghost_k < n && ghost_k < __CPROVER_return_value) ==> first[ghost_k] < value)
__CPROVER_ensures((ghost_ticks_ascending && ghost_k < n && ghost_k >= __CPROVER_return_value) ==> !(first[ghost_k] < value))
__CPROVER_ensures((ghost_ticks_ascending && __CPROVER_return_value < n && __CPROVER_return_value + 1 < n) ==> first[__CPROVER_return_value] < first[__CPROVER_return_value + 1])
__CPROVER_ensures((ghost_ticks_ascending && __CPROVER_return_value < n && ghost_k < n && ghost_k > __CPROVER_return_value) ==> first[__CPROVER_return_value] < first[ghost_k])
__CPROVER_ensures((ghost_ticks_ascending && __CPROVER_return_value < n && ghost_k < n && ghost_k < __CPROVER_return_value) ==> first[ghost_k] < first[__CPROVER_return_value])
__CPROVER_assigns()
;

/* std::upper_bound(first, last, value): first element GREATER than value; same shape of assumed contract.  Not used by the pinned code;
   declared so that a change which switches to it stays decidable. */
size_t std_upper_bound_idx(const double *first, size_t n, const double value)
__CPROVER_requires(n <= VEC_MAX && __CPROVER_r_ok(first, (n ? n : 1) * sizeof(double)))
__CPROVER_ensures(__CPROVER_return_value <= n)
__CPROVER_ensures((__CPROVER_return_value > 0 && __CPROVER_return_value <= n) ==> !(value < first[__CPROVER_return_value - 1]))
__CPROVER_ensures(__CPROVER_return_value < n ==> value < first[__CPROVER_return_value])
__CPROVER_ensures((ghost_ticks_ascending && ghost_k < n && ghost_k < __CPROVER_return_value) ==> !(value < first[ghost_k]))
__CPROVER_ensures((ghost_ticks_ascending && ghost_k < n && ghost_k >= __CPROVER_return_value) ==> value < first[ghost_k])
__CPROVER_assigns()
;
static inline double_iter upper_bound(double_iter first, double_iter last, const double value)
{
    return first + std_upper_bound_idx(first, (size_t)(last - first), value);
}
/* iterator adapter: definitional, not a contract */
static inline double_iter lower_bound(double_iter first, double_iter last, const double value)
{
    return first + std_lower_bound_idx(first, (size_t)(last - first), value);
}
#endif
