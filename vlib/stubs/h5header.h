/* Abstraction of the HDF5 root group's header attributes as FileHDF5::checkHeader sees them.  The attribute
   contents are ghost inputs (never assigned): the proof holds for every file content libhdf5 can report.
   Definitional stubs, trusted: that libhdf5 returns what was stored is NOT verified. */
#ifndef H5HEADER_H
#define H5HEADER_H
typedef struct { int _h5; } H5Group;
typedef struct { int tag; } nstring;          /* std::string: abstract content id; 1 = equal to FILE_FORMAT */
typedef struct { int *data; size_t n; } vec_int;
bool gh_has_format, gh_format_read_ok, gh_format_equal;      /* "format" attribute: present / readable / == FILE_FORMAT */
bool gh_has_version, gh_version_read_ok; size_t gh_version_n; int gh_v[4];   /* "version" attribute */
bool gh_has_id, gh_id_read_ok;                               /* "id" attribute */
#define FILE_FORMAT "nix"
static inline bool H5Group_hasAttr(const H5Group *self, const char *name)
{ return name[0] == 'f' ? gh_has_format : name[0] == 'v' ? gh_has_version : gh_has_id; }
static inline bool H5Group_getAttr_string(const H5Group *self, const char *name, nstring *value)
{ if (name[0] == 'f') { value->tag = gh_format_equal ? 1 : 2; return gh_format_read_ok; } value->tag = 3; return gh_id_read_ok; }
static inline bool H5Group_getAttr_vec_int(const H5Group *self, const char *name, vec_int *value)
{ value->data = gh_v; value->n = gh_version_n; return gh_version_read_ok; }
static inline bool nstring_ne_cstr(const nstring *s, const char *lit)
{ return s->tag != 1; }
#endif
