"""Mechanical C++ -> C extraction of single functions from /repo (DESIGN.md section 4).

The text CBMC sees is the token stream of the function in /repo with a fixed table of
idiom rewrites applied.  Nothing here is specific to a line of the repository: rules are keyed by
token patterns and by the *types* of the identifiers, which are read from the declarations in the
cut text itself (so a renamed local still works).  Every rule counts its firings; the residual
scan refuses (ExtractError -> exit 2) whatever the table does not cover.
"""
import re, hashlib, collections

class ExtractError(Exception):
    pass

# ----------------------------------------------------------------------------------------------
# tokenizer

TOK_RE = re.compile(r'''
    (?P<ws>\s+)
  | (?P<str>"(?:\\.|[^"\\])*")
  | (?P<chr>'(?:\\.|[^'\\])*')
  | (?P<num>(?:0[xX][0-9a-fA-F]+|\d+\.?\d*(?:[eE][+-]?\d+)?|\.\d+(?:[eE][+-]?\d+)?)[uUlLfF]*)
  | (?P<id>[A-Za-z_]\w*)
  | (?P<punct>::|->|<<=|<=|>=|==|!=|&&|\|\||\+\+|--|\+=|-=|\*=|/=|%=|&=|\|=|\^=|<<|\.\.\.|.)
''', re.X | re.S)

class Tok:
    __slots__ = ('k', 't', 'ws')
    def __init__(self, k, t, ws=''):
        self.k, self.t, self.ws = k, t, ws
    def __repr__(self):
        return 'Tok(%s,%r)' % (self.k, self.t)

def P(t, ws=' '):
    return Tok('punct', t, ws)
def I(t, ws=' '):
    return Tok('id', t, ws)

def strip_comments(src):
    out = []
    i, n = 0, len(src)
    while i < n:
        c = src[i]
        if c == '"' or c == "'":
            j = i + 1
            while j < n and src[j] != c:
                j += 2 if src[j] == '\\' else 1
            out.append(src[i:j + 1]); i = j + 1
        elif src.startswith('//', i):
            j = src.find('\n', i)
            j = n if j < 0 else j
            i = j
        elif src.startswith('/*', i):
            j = src.find('*/', i + 2)
            j = n - 2 if j < 0 else j
            out.append(re.sub(r'[^\n]', ' ', src[i:j + 2])); i = j + 2
        else:
            out.append(c); i += 1
    return ''.join(out)

def tokenize(text):
    toks, ws = [], ''
    for m in TOK_RE.finditer(text):
        k = m.lastgroup
        if k == 'ws':
            ws += m.group()
            continue
        toks.append(Tok(k, m.group(), ws)); ws = ''
    return toks

def render(toks):
    return ''.join(t.ws + t.t for t in toks)

OPEN = {'(': ')', '[': ']', '{': '}'}

def match_close(toks, i):
    """index of the token closing the bracket at toks[i]"""
    o = toks[i].t; c = OPEN[o]; d = 0
    for j in range(i, len(toks)):
        if toks[j].k != 'punct':
            continue
        if toks[j].t == o: d += 1
        elif toks[j].t == c:
            d -= 1
            if d == 0: return j
    raise ExtractError('unbalanced %s' % o)

def match_open(toks, i):
    c = toks[i].t; o = {v: k for k, v in OPEN.items()}[c]; d = 0
    for j in range(i, -1, -1):
        if toks[j].k != 'punct':
            continue
        if toks[j].t == c: d += 1
        elif toks[j].t == o:
            d -= 1
            if d == 0: return j
    raise ExtractError('unbalanced %s' % c)

def match_angle(toks, i):
    """toks[i] is '<' opening a template argument list"""
    d = 0
    for j in range(i, len(toks)):
        t = toks[j].t
        if t == '<': d += 1
        elif t == '>':
            d -= 1
            if d == 0: return j
        elif t in (';', '{', '}'):
            break
    raise ExtractError('unbalanced <')

def split_args(toks):
    """split a token list at top-level commas"""
    args, cur, d = [], [], 0
    for t in toks:
        if t.k == 'punct' and t.t in '([{': d += 1
        elif t.k == 'punct' and t.t in ')]}': d -= 1
        if t.k == 'punct' and t.t == ',' and d == 0:
            args.append(cur); cur = []
        else:
            cur.append(t)
    if cur or args:
        args.append(cur)
    return args

def seq_at(toks, i, seq):
    if i + len(seq) > len(toks): return False
    return all(toks[i + k].t == s for k, s in enumerate(seq))

# ----------------------------------------------------------------------------------------------
# locating a function definition

def locate(src, sig_re, which=0, expect=1):
    """Find the definition whose signature matches sig_re (applied to comment-stripped text).
    Returns (sig_start, body_open, body_end) offsets.  The regex must match `expect` definitions
    (matches followed by ';' i.e. declarations are ignored)."""
    hits = []
    for m in re.finditer(sig_re, src):
        # find parameter list
        p = src.find('(', m.end() - 1) if src[m.end() - 1] != '(' else m.end() - 1
        d = 0; j = p
        while j < len(src):
            if src[j] == '(': d += 1
            elif src[j] == ')':
                d -= 1
                if d == 0: break
            j += 1
        k = j + 1
        # skip const / noexcept / override / ctor initialisers up to '{' or ';'
        m2 = re.compile(r'\s*(const\b)?\s*(noexcept\b)?\s*(override\b)?\s*').match(src, k)
        k = m2.end()
        if k < len(src) and src[k] == ':' and src[k:k+2] != '::':
            # constructor initialiser list: skip to the body's '{' (initialisers use () )
            dd = 0
            while k < len(src):
                if src[k] == '(': dd += 1
                elif src[k] == ')': dd -= 1
                elif src[k] == '{' and dd == 0: break
                k += 1
        if k >= len(src) or src[k] != '{':
            continue
        d = 0; e = k
        in_s = None
        while e < len(src):
            ch = src[e]
            if in_s:
                if ch == '\\': e += 1
                elif ch == in_s: in_s = None
            elif ch in '"\'': in_s = ch
            elif ch == '{': d += 1
            elif ch == '}':
                d -= 1
                if d == 0: break
            e += 1
        hits.append((m.start(), p, j, k, e))
    if len(hits) != expect:
        raise ExtractError('locator %r matched %d definitions, expected %d' % (sig_re, len(hits), expect))
    return hits[which]

# ----------------------------------------------------------------------------------------------
# the rewrite engine

# C++ type spellings (after qualifier stripping) -> C type name.  Longest first.
TYPE_SEQS = [
    (['vector', '<', 'optional', '<', 'pair', '<', 'ndsize_t', ',', 'ndsize_t', '>', '>', '>'], 'vec_opt_pair'),
    (['vector', '<', 'pair', '<', 'ndsize_t', ',', 'ndsize_t', '>', '>'], 'vec_pair'),
    (['vector', '<', 'pair', '<', 'double', ',', 'double', '>', '>'], 'vec_dpair'),
    (['optional', '<', 'pair', '<', 'ndsize_t', ',', 'ndsize_t', '>', '>'], 'opt_pair'),
    (['pair', '<', 'ndsize_t', ',', 'ndsize_t', '>'], 'pair_ndsize'),
    (['pair', '<', 'double', ',', 'double', '>'], 'pair_double'),
    (['optional', '<', 'ndsize_t', '>'], 'opt_ndsize'),
    (['optional', '<', 'H5Group', '>'], 'opt_H5Group'),
    (['optional', '<', 'double', '>'], 'opt_double'),
    (['optional', '<', 'unsigned', '>'], 'opt_unsigned'),
    (['optional', '<', 'string', '>'], 'opt_string'),
    (['vector', '<', 'double', '>', '::', 'iterator'], 'double_iter'),
    (['vector', '<', 'double', '>', '::', 'const_iterator'], 'double_iter'),
    (['vector', '<', 'double', '>'], 'vec_double'),
    (['vector', '<', 'ndsize_t', '>'], 'vec_ndsize'),
    (['vector', '<', 'int', '>'], 'vec_int'),
    (['vector', '<', 'string', '>'], 'vec_string'),
    (['vector', '<', 'Dimension', '>'], 'vec_Dimension'),
    (['vector', '<', 'NDSize', '>'], 'vec_NDSize'),
    (['vector', '<', 'DataView', '>'], 'vec_DataView'),
    (['vector', '<', 'DataArray', '>'], 'vec_DataArray'),
    (['vector', '<', 'Variant', '>'], 'vec_Variant'),
    (['vector', '<', 'Source', '>'], 'vec_Source'),
    (['vector', '<', 'Column', '>'], 'vec_Column'),
    (['vector', '<', 'Section', '>'], 'vec_Section'),
    (['vector', '<', 'Block', '>'], 'vec_Block'),
    (['vector', '<', 'Tag', '>'], 'vec_Tag'),
    (['vector', '<', 'MultiTag', '>'], 'vec_MultiTag'),
    (['vector', '<', 'Property', '>'], 'vec_Property'),
    (['vector', '<', 'Feature', '>'], 'vec_Feature'),
    (['queue', '<', 'SourceCont', '>'], 'queue_SourceCont'),
    (['shared_ptr', '<', 'IFeature', '>'], 'FeatureP'),
    (['shared_ptr', '<', 'IMultiTag', '>'], 'MultiTagP'),
    (['shared_ptr', '<', 'FeatureHDF5', '>'], 'FeatureP'),
    (['shared_ptr', '<', 'IDataArray', '>'], 'DataArrayP'),
    (['list', '<', 'tuple', '<', 'Section', ',', 'size_t', '>>'], 'list_SectionCont'),
    (['list', '<', 'tuple', '<', 'Section', ',', 'size_t', '>', '>'], 'list_SectionCont'),
    (['tuple', '<', 'Section', ',', 'size_t', '>'], 'SectionCont'),
    (['Filter', '<', 'Source', '>', '::', 'type'], 'SourceFilterFn'),
    (['Filter', '<', 'Section', '>', '::', 'type'], 'SectionFilterFn'),
    (['NDSizeBase', '<', 'T', '>'], 'NDSize'),
    (['NDSizeBase'], 'NDSize'),
    (['NDSize', '::', 'value_type'], 'ndsize_t'),
    (['string'], 'nstring'),
]

OPT_TYPES = {'opt_ndsize': 'ndsize', 'opt_pair': 'pair', 'opt_double': 'double', 'opt_unsigned': 'unsigned', 'opt_string': 'string', 'opt_H5Group': 'H5Group'}
OPT_PAYLOAD_CLASS = {'opt_H5Group': 'H5Group'}
VEC_TYPES = {'vec_double', 'vec_ndsize', 'vec_string', 'vec_opt_pair', 'vec_pair', 'vec_dpair',
             'vec_Dimension', 'vec_NDSize', 'vec_int', 'vec_DataView', 'vec_nstr', 'vec_DataArray', 'vec_Variant', 'vec_Source', 'vec_Section', 'vec_Column', 'vec_Block', 'vec_Tag', 'vec_MultiTag', 'vec_Property', 'vec_Feature'}
STRUCT_TYPES = set(OPT_TYPES) | VEC_TYPES | {'pair_ndsize', 'pair_double', 'NDSize', 'nstring'}

QUALIFIERS = {'std', 'boost', 'nix', 'util', 'base', 'check', 'hdf5', 'h5x', 'valid'}

class Ctx:
    """per-unit rewrite context"""
    def __init__(self, unit, enums, sigs):
        self.unit = unit
        self.enums = enums            # enum name -> [enumerators]
        self.sigs = sigs              # cname -> Sig (for argument adaptation)
        self.counts = collections.Counter()
        self.env = {}                 # identifier -> (ctype, is_pointer)
        self.ret = None

def fire(ctx, rule, n=1):
    if n: ctx.counts[rule] += n

def r_qualifiers(ctx, toks):
    out = []; i = 0
    while i < len(toks):
        t = toks[i]
        if t.k == 'id' and t.t in QUALIFIERS and i + 1 < len(toks) and toks[i + 1].t == '::' \
                and (not out or out[-1].t != '::' or True):
            fire(ctx, 'drop-qualifier:' + t.t)
            # keep whitespace of the dropped token on the next one
            if i + 2 < len(toks):
                toks[i + 2].ws = t.ws + toks[i + 2].ws
            i += 2
            continue
        out.append(t); i += 1
    return out

def r_types(ctx, toks):
    out = []; i = 0
    while i < len(toks):
        for seq, cname in TYPE_SEQS:
            if toks[i].t == seq[0] and seq_at(toks, i, seq):
                # 'string' / 'pair' must be a type use, not e.g. member named string
                if len(seq) == 1 and (out and out[-1].t in ('.', '->')):
                    continue
                out.append(Tok('id', cname, toks[i].ws)); i += len(seq)
                fire(ctx, 'type:' + cname)
                break
        else:
            out.append(toks[i]); i += 1
    return out

def r_casts(ctx, toks):
    out = []; i = 0
    while i < len(toks):
        t = toks[i]
        if t.k == 'id' and t.t in ('static_cast', 'reinterpret_cast', 'const_cast') and toks[i + 1].t == '<':
            j = match_angle(toks, i + 1)
            ty = toks[i + 2:j]
            if toks[j + 1].t != '(':
                raise ExtractError('cast without (')
            out.append(P('(', t.ws)); out.extend(ty); out.append(P(')', ''))
            fire(ctx, 'cast:' + t.t)
            i = j + 1
            continue
        out.append(t); i += 1
    return out

def r_enums(ctx, toks):
    out = []; i = 0
    while i < len(toks):
        t = toks[i]
        if t.k == 'id' and t.t in ctx.enums and i + 2 < len(toks) and toks[i + 1].t == '::' and toks[i + 2].k == 'id':
            if toks[i + 2].t not in ctx.enums[t.t]:
                raise ExtractError('unknown enumerator %s::%s' % (t.t, toks[i + 2].t))
            out.append(Tok('id', t.t + '_' + toks[i + 2].t, t.ws)); i += 3
            fire(ctx, 'enumerator')
            continue
        out.append(t); i += 1
    return out

def r_misc(ctx, toks):
    """numeric_limits<double>::epsilon(), nullptr, new T[n], delete[] p; bool literals stay (stdbool)"""
    out = []; i = 0
    while i < len(toks):
        if toks[i].t == 'new' and i + 2 < len(toks) and toks[i + 1].k == 'id' and toks[i + 2].t == '[':
            e = match_close(toks, i + 2)
            out.extend([P('(', toks[i].ws), Tok('id', toks[i + 1].t, ''), P('*', ' '), P(')', ''), Tok('id', 'nix_new_array', ''), P('(', '')])
            out.extend(toks[i + 3:e]); out.extend([P(',', ''), Tok('id', 'sizeof', ' '), P('(', ''), Tok('id', toks[i + 1].t, ''), P(')', ''), P(')', '')])
            i = e + 1; fire(ctx, 'new-array'); continue
        if toks[i].t == 'delete' and seq_at(toks, i + 1, ['[', ']']):
            j = i + 3
            while toks[j].t != ';': j += 1
            out.extend([Tok('id', 'free', toks[i].ws), P('(', '')]); out.extend(toks[i + 3:j]); out.append(P(')', ''))
            i = j; fire(ctx, 'delete-array'); continue
        if seq_at(toks, i, ['numeric_limits', '<', 'double', '>', '::', 'epsilon', '(', ')']):
            out.append(Tok('id', 'DBL_EPSILON', toks[i].ws)); i += 8; fire(ctx, 'dbl-epsilon'); continue
        if seq_at(toks, i, ['numeric_limits', '<', 'double', '>', '::', 'max', '(', ')']):
            out.append(Tok('id', 'DBL_MAX', toks[i].ws)); i += 8; fire(ctx, 'dbl-max'); continue
        if seq_at(toks, i, ['numeric_limits', '<', 'ndsize_t', '>', '::', 'max', '(', ')']):
            out.append(Tok('id', 'ULLONG_MAX', toks[i].ws)); i += 8; fire(ctx, 'ndsize-max'); continue
        if seq_at(toks, i, ['numeric_limits', '<', 'size_t', '>', '::', 'max', '(', ')']):
            out.append(Tok('id', 'SIZE_MAX', toks[i].ws)); i += 8; fire(ctx, 'size-max'); continue
        if toks[i].t == 'nullptr':
            out.append(Tok('id', 'NULL', toks[i].ws)); i += 1; fire(ctx, 'nullptr'); continue
        out.append(toks[i]); i += 1
    return out

DECL_FOLLOW = {';', '=', ',', ')', '(', '{'}
SCALARS = ('double', 'ndsize_t', 'size_t', 'bool', 'int', 'int32_t', 'uint32_t', 'int64_t', 'uint64_t', 'unsigned', 'float')

def scan_decls(ctx, toks):
    """record identifier -> ctype for every 'TYPE [&|*] name' with a known struct/scalar type"""
    known = STRUCT_TYPES | set(SCALARS) | {'double_iter'} | set(ctx.enums) | set(ctx.unit.get('extra_types', []))
    i = 0
    while i < len(toks) - 1:
        t = toks[i]
        if t.k == 'id' and t.t in known:
            j = i + 1
            ref = False
            while toks[j].t in ('&', '*', 'const'):
                if toks[j].t in ('&', '*'): ref = True
                j += 1
            if toks[j].k == 'id' and j + 1 < len(toks) and toks[j + 1].t in DECL_FOLLOW:
                # exclude function declarations 'TYPE name (' unless ctor-style local init of struct types
                if toks[j + 1].t == '(' and t.t not in STRUCT_TYPES:
                    i += 1; continue
                prev = toks[i - 1].t if i else ''
                if prev in ('.', '->', '::'):
                    i += 1; continue
                ctx.env.setdefault(toks[j].t, (t.t, ref))
                # further declarators of the same declaration:  TYPE a, b, c;
                k = j + 1
                if toks[k].t == ',' and (i == 0 or toks[i - 1].t in (';', '{', '}')):
                    while k + 1 < len(toks) and toks[k].t == ',' and toks[k + 1].k == 'id' and toks[k + 2].t in (',', ';', '='):
                        ctx.env.setdefault(toks[k + 1].t, (t.t, False)); k += 2
                        if toks[k].t == '=':
                            while toks[k].t not in (',', ';'): k += 1
        i += 1

def is_opt(ctx, name):
    return name in ctx.env and ctx.env[name][0] in OPT_TYPES

def opt_call(ctx, toks, i):
    """if toks[i] starts a call 'f (' of a function whose C return type is an optional, return
    (index of closing paren, ctype)"""
    if toks[i].k == 'id' and i + 1 < len(toks) and toks[i + 1].t == '(':
        sig = ctx.sigs.get(toks[i].t)
        if sig and sig['ret'] in OPT_TYPES:
            return match_close(toks, i + 1), sig['ret']
    return None

def r_optionals(ctx, toks):
    """declarations, assignment wrapping, deref, boolean context, boost::none"""
    out = []; i = 0; n = len(toks)
    def prev_sig():
        return out[-1].t if out else ''
    while i < n:
        t = toks[i]
        # 'none' literal (boost::none after qualifier drop)
        if t.k == 'id' and t.t == 'none' and prev_sig() in ('=', 'return', '==', '!='):
            out.append(Tok('id', 'OPT_NONE', t.ws)); i += 1; fire(ctx, 'opt-none'); continue
        # return boost::make_optional(X);  in a function returning an optional  ->  return opt_some_T(X);
        if t.k == 'id' and t.t == 'make_optional' and prev_sig() == 'return' and i + 1 < n and toks[i + 1].t == '(' and ctx.ret in OPT_TYPES:
            out.append(Tok('id', 'opt_some_' + OPT_TYPES[ctx.ret], t.ws)); i += 1; fire(ctx, 'make-optional-return'); continue
        if t.k == 'id' and t.t in OPT_TYPES and i + 2 < n and toks[i + 1].t == '(' and toks[i + 2].t == ')' and prev_sig() in ('return', '=', '(', ','):
            out.append(Tok('id', 'OPT_NONE_' + OPT_TYPES[t.t], t.ws)); i += 3; fire(ctx, 'opt-default-temporary'); continue
        # declaration without initialiser: opt_T name ;
        if t.k == 'id' and t.t in OPT_TYPES and i + 2 < n and toks[i + 1].k == 'id' and toks[i + 2].t == ';':
            out.extend([t, toks[i + 1], P('='), Tok('id', 'OPT_NONE_' + OPT_TYPES[t.t], ' ')])
            i += 2; fire(ctx, 'opt-decl-default'); continue
        # deref:  * name   (prefix position)
        if t.t == '*' and i + 1 < n and toks[i + 1].k == 'id' and is_opt(ctx, toks[i + 1].t):
            p = prev_sig()
            prefix = (not out) or (out[-1].k == 'punct' and p not in (')', ']')) or p in ('return',)
            if prefix:
                out.append(Tok('id', toks[i + 1].t, t.ws)); out.append(P('.', '')); out.append(Tok('id', 'val', ''))
                i += 2; fire(ctx, 'opt-deref'); continue
        # deref of parenthesised optional variable: ( * name )
        # deref of optional-returning call:  * ( call(...) )  or  * call(...)
        if t.t == '*' and i + 1 < n:
            p = prev_sig()
            prefix = (not out) or (out[-1].k == 'punct' and p not in (')', ']')) or p in ('return',)
            if prefix:
                j = i + 1; par = False
                if toks[j].t == '(':
                    par = True; j += 1
                oc = opt_call(ctx, toks, j) if j < n else None
                if oc and (not par or toks[oc[0] + 1].t == ')'):
                    e = oc[0]
                    out.append(P('(', t.ws)); out.extend(toks[j:e + 1]); out.append(P(')', '')); out.append(P('.', '')); out.append(Tok('id', 'val', ''))
                    i = e + (2 if par else 1); fire(ctx, 'opt-deref-call'); continue
        # optional-returning call in boolean context:  call(...) ?   /  ! call(...)
        if t.k == 'id':
            oc = opt_call(ctx, toks, i)
            if oc:
                e = oc[0]
                nxt = toks[e + 1].t if e + 1 < n else ''
                if nxt in ('?', '&&', '||') or prev_sig() in ('!', '&&', '||'):
                    out.extend(toks[i:e + 1]); out.append(P('.', '')); out.append(Tok('id', 'has', ''))
                    i = e + 1; fire(ctx, 'opt-bool-call'); continue
        if t.k == 'id' and is_opt(ctx, t.t) and prev_sig() not in ('.', '->'):
            nxt = toks[i + 1].t if i + 1 < n else ''
            p = prev_sig()
            ty = ctx.env[t.t][0]
            # assignment  name = expr ;
            if nxt == '=' and p in (';', '{', '}', ')', 'else', '') or (nxt == '=' and out and out[-1].k == 'id' and out[-1].t == ty):
                # find end of statement
                j = i + 2; d = 0
                while j < n and not (toks[j].t in (';',) and d == 0):
                    if toks[j].t in '([{' and toks[j].k == 'punct': d += 1
                    elif toks[j].t in ')]}' and toks[j].k == 'punct': d -= 1
                    j += 1
                rhs = toks[i + 2:j]
                if len(rhs) > 3 and rhs[0].t == 'make_optional' and rhs[1].t == '(' and match_close(rhs, 1) == len(rhs) - 1:
                    rhs = rhs[2:-1]; fire(ctx, 'make-optional')          # boost::make_optional(x): the assignment below wraps x
                out.append(t); out.append(toks[i + 1])
                if len(rhs) == 1 and rhs[0].t == 'none':
                    out.append(Tok('id', 'OPT_NONE_' + OPT_TYPES[ty], ' ')); fire(ctx, 'opt-none')
                elif rhs_is_optional(ctx, rhs, ty):
                    out.extend(r_optionals(ctx, rhs))
                else:
                    out.append(Tok('id', 'opt_some_' + OPT_TYPES[ty], ' ')); out.append(P('(', ''))
                    out.extend(r_optionals(ctx, rhs)); out.append(P(')', ''))
                    fire(ctx, 'opt-assign-wrap')
                i = j; continue
            # boolean context
            boolctx = p in ('!', '&&', '||') or nxt in ('&&', '||', '?') or \
                (p == '(' and nxt == ')' and len(out) >= 2 and out[-2].t in ('if', 'while'))
            if boolctx:
                out.append(t); out.append(P('.', '')); out.append(Tok('id', 'has', ''))
                i += 1; fire(ctx, 'opt-bool'); continue
        out.append(t); i += 1
    return out

def rhs_is_optional(ctx, rhs, ty):
    if not rhs: return False
    if len(rhs) == 1 and rhs[0].k == 'id' and (rhs[0].t in ('OPT_NONE', 'none') or is_opt(ctx, rhs[0].t)):
        return True
    # call of a function / stub returning this optional type (whole rhs is the call)
    if rhs[0].k == 'id' and len(rhs) > 2 and rhs[1].t == '(' and match_close(rhs, 1) == len(rhs) - 1:
        sig = ctx.sigs.get(rhs[0].t)
        if sig and sig['ret'] == ty:
            return True
        if sig is None and rhs[0].t not in ('pair_ndsize',) and not rhs[0].t.startswith('('):
            # unknown callee: cannot decide mechanically
            raise ExtractError('optional assigned from unknown callee %s' % rhs[0].t)
    return False

def r_vectors(ctx, toks):
    """vec_* variables: .size() -> .n, [i] -> .data[i], .begin()/.end(), prev(), *it handled by C"""
    out = []; i = 0; n = len(toks)
    while i < n:
        t = toks[i]
        if t.k == 'id' and t.t in VEC_TYPES and i + 2 < n and toks[i + 1].k == 'id' and toks[i + 2].t == ';' and (not out or out[-1].t in (';', '{', '}')):
            out.extend([t, toks[i + 1], P('='), P('{', ' '), Tok('num', '0', ''), P('}', '')]); i += 2; fire(ctx, 'vec-default-ctor'); continue
        if t.k == 'id' and t.t in ctx.env and ctx.env[t.t][0] in VEC_TYPES and (not out or out[-1].t not in ('.', '->')):
            ty, ref = ctx.env[t.t]
            acc = '->' if ref else '.'
            if i + 4 < n and toks[i + 1].t == '.' and toks[i + 3].t == '(' and toks[i + 4].t == ')':
                m = toks[i + 2].t
                if m == 'size':
                    out.extend([t, P(acc, ''), Tok('id', 'n', '')]); i += 5; fire(ctx, 'vec-size'); continue
                if m == 'begin':
                    out.extend([t, P(acc, ''), Tok('id', 'data', '')]); i += 5; fire(ctx, 'vec-begin'); continue
                if m == 'end':
                    out.extend([P('(', t.ws), Tok('id', t.t, ''), P(acc, ''), Tok('id', 'data', ''), P('+'), Tok('id', t.t, ' '), P(acc, ''), Tok('id', 'n', ''), P(')', '')])
                    i += 5; fire(ctx, 'vec-end'); continue
                if m == 'empty':
                    out.extend([P('(', t.ws), Tok('id', t.t, ''), P(acc, ''), Tok('id', 'n', ''), P('=='), Tok('num', '0', ' '), P(')', '')])
                    i += 5; fire(ctx, 'vec-empty'); continue
                if m == 'front':       # v.front() -> v.data[0]   (undefined for an empty vector: an out-of-bounds read in C as well)
                    out.extend([P('(', t.ws), Tok('id', t.t, ''), P(acc, ''), Tok('id', 'data', ''), P('[', ''), Tok('num', '0', ''), P(']', ''), P(')', '')])
                    i += 5; fire(ctx, 'vec-front'); continue
                if m == 'back':        # v.back() -> v.data[v.n - 1]
                    out.extend([P('(', t.ws), Tok('id', t.t, ''), P(acc, ''), Tok('id', 'data', ''), P('[', ''), Tok('id', t.t, ''), P(acc, ''), Tok('id', 'n', ''), P('-', ' '), Tok('num', '1', ' '), P(']', ''), P(')', '')])
                    i += 5; fire(ctx, 'vec-back'); continue
            if i + 3 < n and toks[i + 1].t == '.' and toks[i + 2].t == 'resize' and toks[i + 3].t == '(' and (ty + '_resize') in ctx.sigs:
                # v.resize(n): call of the (stub) primitive vec_T_resize(&v, n)
                out.append(Tok('id', ty + '_resize', t.ws)); out.append(P('(', '')); out.extend(addr(ctx, t.t)); out.append(P(',', ''))
                i += 4; fire(ctx, 'vec-resize'); continue
            if i + 4 < n and toks[i + 1].t == '.' and toks[i + 2].t == 'data' and toks[i + 3].t == '(' and toks[i + 4].t == ')':
                out.extend([t, P(acc, ''), Tok('id', 'data', '')]); i += 5; fire(ctx, 'vec-data'); continue
            if i + 3 < n and toks[i + 1].t == '.' and toks[i + 2].t == 'push_back' and toks[i + 3].t == '(' and (ty + '_push_back') in ctx.sigs:
                # v.push_back(x): growth of a result vector is a call of the (stub) primitive vec_T_push_back(&v, x)
                out.append(Tok('id', ty + '_push_back', t.ws)); out.append(P('(', '')); out.extend(addr(ctx, t.t)); out.append(P(',', ''))
                i += 4; fire(ctx, 'vec-push-back'); continue
            if i + 1 < n and toks[i + 1].t == '[':
                out.extend([t, P(acc, ''), Tok('id', 'data', '')]); i += 1; fire(ctx, 'vec-index'); continue
            if i + 1 < n and toks[i + 1].t == '.' and ref:
                out.extend([t, P('->', '')]); i += 2; fire(ctx, 'ref-arrow'); continue
        # data member of vector type:  self->m.size() / self->m[i] / self->m.empty()
        if t.t == 'self' and i + 2 < n and toks[i + 1].t == '->' and toks[i + 2].k == 'id' and member_type(ctx, toks[i + 2].t) in VEC_TYPES:
            base = [t, toks[i + 1], toks[i + 2]]
            if i + 6 < n and toks[i + 3].t == '.' and toks[i + 5].t == '(' and toks[i + 6].t == ')' and toks[i + 4].t in ('size', 'empty'):
                if toks[i + 4].t == 'size':
                    out.extend(base + [P('.', ''), Tok('id', 'n', '')])
                else:
                    out.extend([P('(', t.ws)] + [Tok('id', 'self', '')] + base[1:] + [P('.', ''), Tok('id', 'n', ''), P('=='), Tok('num', '0', ' '), P(')', '')])
                i += 7; fire(ctx, 'vec-member-' + toks[i - 3].t); continue
            if i + 3 < n and toks[i + 3].t == '[':
                out.extend(base + [P('.', ''), Tok('id', 'data', '')]); i += 3; fire(ctx, 'vec-member-index'); continue
        # call result of vector type:  f(...).size()  ->  f(...).n
        if t.t == '.' and out and out[-1].t == ')' and i + 3 < n and toks[i + 1].t == 'size' and toks[i + 2].t == '(' and toks[i + 3].t == ')':
            o = match_open(out, len(out) - 1)
            if o >= 1 and out[o - 1].k == 'id' and out[o - 1].t in ctx.sigs and ctx.sigs[out[o - 1].t]['ret'] in VEC_TYPES:
                out.extend([P('.', ''), Tok('id', 'n', '')]); i += 4; fire(ctx, 'vec-size-call'); continue
        out.append(t); i += 1
    # prev(x) -> ((x) - 1)
    res = []; i = 0
    while i < len(out):
        t = out[i]
        if t.k == 'id' and t.t == 'prev' and out[i + 1].t == '(' and (not res or res[-1].t not in ('.', '->')):
            j = match_close(out, i + 1)
            res.append(P('(', t.ws)); res.extend(out[i + 1:j + 1]); res.append(P('-')); res.append(Tok('num', '1', ' ')); res.append(P(')', ''))
            i = j + 1; fire(ctx, 'iter-prev'); continue
        res.append(t); i += 1
    return res

def r_refs(ctx, toks):
    """non-vector reference variables of struct type: name. -> name->  (vectors handled above);
    scalar reference parameters: name -> (*name)"""
    out = []; i = 0; n = len(toks)
    while i < n:
        t = toks[i]
        if t.k == 'id' and t.t in ctx.env and ctx.env[t.t][1] and (not out or out[-1].t not in ('.', '->')):
            ty = ctx.env[t.t][0]
            if ty in STRUCT_TYPES or ty in ctx.unit.get('extra_types', []):
                if i + 1 < n and toks[i + 1].t == '.' and ty not in VEC_TYPES:
                    out.extend([t, P('->', '')]); i += 2; fire(ctx, 'ref-arrow'); continue
                prev = out[-1].t if out else ''
                if i + 1 < n and toks[i + 1].t == '=' and prev in (';', '{', '}', ')', 'else') and ctx.env[t.t][1] is True:
                    out.extend([P('(', t.ws), P('*', ''), Tok('id', t.t, ''), P(')', '')]); i += 1; fire(ctx, 'ref-assign'); continue
            elif ty in SCALARS and ctx.env[t.t][1] == 'param':
                out.extend([P('(', t.ws), P('*', ''), Tok('id', t.t, ''), P(')', '')]); i += 1; fire(ctx, 'ref-scalar-deref'); continue
        out.append(t); i += 1
    return out

def r_throw(ctx, toks):
    """throw X(args); -> { nix_exc = EXC_X; return <default>; }   (message arguments dropped)"""
    out = []; i = 0; n = len(toks)
    while i < n:
        t = toks[i]
        if t.k == 'id' and t.t == 'throw':
            j = i + 1
            if toks[j].k != 'id':
                raise ExtractError('throw of non-constructor expression')
            exc = toks[j].t
            # skip to ';' at depth 0
            d = 0; k = j + 1
            while not (toks[k].t == ';' and d == 0):
                if toks[k].k == 'punct' and toks[k].t in '([{': d += 1
                elif toks[k].k == 'punct' and toks[k].t in ')]}': d -= 1
                k += 1
            out.append(P('{', t.ws)); out.append(Tok('id', 'nix_exc', ' ')); out.append(P('=')); out.append(Tok('id', 'EXC_' + exc, ' ')); out.append(P(';', ''))
            out.append(Tok('id', 'return', ' ')); out.append(Tok('id', 'NIX_RET_DEFAULT', ' ')); out.append(P(';', '')); out.append(P('}'))
            fire(ctx, 'throw:' + exc)
            i = k + 1; continue
        out.append(t); i += 1
    return out

def r_maythrow_calls(ctx, toks):
    """after a statement that calls a may-throw callee insert 'if (nix_exc) return DEFAULT;'"""
    may = {c for c, s in ctx.sigs.items() if s.get('throws')}
    if not may:
        return toks
    out = []; i = 0; n = len(toks)
    stmt_has = False; depth_par = 0
    # statement-level scan; only simple statements (ending in ';' at paren depth 0) are handled
    while i < n:
        t = toks[i]
        if t.k == 'punct' and t.t == '(': depth_par += 1
        elif t.k == 'punct' and t.t == ')': depth_par -= 1
        if t.k == 'id' and t.t in may and i + 1 < n and toks[i + 1].t == '(':
            stmt_has = True
        out.append(t)
        if t.t == ';' and depth_par == 0:
            if stmt_has:
                # refuse when the statement is a 'return f(..);' – value must not be used after a throw;
                # a return of the callee's value is fine (caller re-checks nix_exc), nothing to insert
                k = len(out) - 2
                # find start of statement in out
                d = 0
                while k >= 0:
                    tt = out[k]
                    if tt.k == 'punct' and tt.t in ')]': d += 1
                    elif tt.k == 'punct' and tt.t in '([': d -= 1
                    elif d == 0 and tt.t in (';', '{', '}'):
                        break
                    k -= 1
                first = out[k + 1].t if k + 1 < len(out) else ''
                if first != 'return':
                    out.extend(tokenize(' if (nix_exc) return NIX_RET_DEFAULT;'))
                    fire(ctx, 'maythrow-check')
            stmt_has = False
        elif t.t in ('{', '}') and depth_par == 0:
            if stmt_has and t.t == '{':
                # call inside an if/while/for header: handled by header-check rule
                hdr_check_needed.append(1) if False else None
            stmt_has = stmt_has and t.t == '{'
            if t.t == '{' and stmt_has:
                out.extend(tokenize(' if (nix_exc) return NIX_RET_DEFAULT;'))
                fire(ctx, 'maythrow-check-cond'); stmt_has = False
        i += 1
    return out

def r_calls(ctx, toks):
    """argument adaptation: by-reference parameters of known callees get '&' when the argument is a
    by-value variable"""
    out = list(toks); i = 0
    while i < len(out):
        t = out[i]
        if t.k == 'id' and t.t in ctx.sigs and i + 1 < len(out) and out[i + 1].t == '(' and (i == 0 or out[i - 1].t not in ('.', '->')):
            sig = ctx.sigs[t.t]
            e = match_close(out, i + 1)
            args = split_args(out[i + 2:e])
            params = sig['params']
            if sig.get('self'):
                params = params[1:] if not sig.get('explicit_self') else params
            if len(args) == len(params):
                new = []
                changed = False
                for a, (pty, pname, pref) in zip(args, params):
                    if pref and [x.t for x in a] == ['(', '*', 'self', ')']:
                        a = [Tok('id', 'self', a[0].ws)]; changed = True; fire(ctx, 'arg-self')
                    if pref and len(a) == 3 and a[0].t == 'self' and a[1].t == '->' and member_type(ctx, a[2].t):
                        a = [P('&', a[0].ws)] + a; a[1].ws = ''; changed = True; fire(ctx, 'arg-addr-member')
                    if pref and len(a) == 1 and a[0].k == 'id' and a[0].t in ctx.env and not ctx.env[a[0].t][1]:
                        a = [P('&', a[0].ws), Tok('id', a[0].t, '')]; changed = True; fire(ctx, 'arg-addr')
                    elif pref and len(a) > 2 and a[0].k == 'id' and a[0].t in ctx.sigs and a[1].t == '(' and match_close(a, 1) == len(a) - 1 \
                            and ctx.sigs[a[0].t]['ret'] == pty and (pty in STRUCT_TYPES or pty in ctx.unit.get('classes', ())):
                        # a call result (by value) bound to a C++ reference parameter: address of a temporary
                        ws = a[0].ws; a[0].ws = ''
                        a = [Tok('id', 'TMP_' + pty, ws), P('(', '')] + a + [P(')', '')]; changed = True; fire(ctx, 'arg-temp-addr')
                    elif (not pref) and (pty in STRUCT_TYPES or pty in ctx.unit.get('classes', ())) and len(a) == 1 and a[0].k == 'id' and a[0].t in ctx.env \
                            and ctx.env[a[0].t] == (pty, True):
                        a = [P('*', a[0].ws), Tok('id', a[0].t, '')]; changed = True; fire(ctx, 'arg-deref')
                    new.append(a)
                if changed:
                    flat = []
                    for k, a in enumerate(new):
                        if k: flat.append(P(',', ''))
                        flat.extend(a)
                    out[i + 2:e] = flat
        i += 1
    return out

def r_rangefor(ctx, toks):
    """for (auto o : v) / for (T o : v)  with v a vec_* variable -> indexed loop"""
    out = []; i = 0; n = len(toks)
    while i < n:
        t = toks[i]
        if t.t == 'for' and toks[i + 1].t == '(':
            e = match_close(toks, i + 1)
            hdr = toks[i + 2:e]
            colon = [k for k, x in enumerate(hdr) if x.t == ':' ]
            if colon and not any(x.t == ';' for x in hdr):
                c = colon[0]
                var = hdr[c - 1].t
                vec = hdr[c + 1].t
                if len(hdr) != c + 2 or vec not in ctx.env or ctx.env[vec][0] not in VEC_TYPES:
                    raise ExtractError('range-for over non-vector')
                ty, ref = ctx.env[vec]
                acc = '->' if ref else '.'
                elt = VEC_ELEM[ty]
                idx = '_i_' + var
                ctx.env[var] = (elt, False)
                by_ref = any(x.t == '&' for x in hdr[:c]) and elt in ctx.unit.get('classes', ())
                if by_ref: ctx.env[var] = (elt, True)
                out.extend(tokenize('%sfor (size_t %s = 0; %s < %s%sn; ++%s)' % (t.ws, idx, idx, vec, acc, idx)))
                # body must be a block: insert element binding after '{'
                if toks[e + 1].t != '{':
                    raise ExtractError('range-for without block')
                out.append(toks[e + 1])
                if by_ref:      # 'T &x : v' with T a class: x is the element itself, not a copy
                    out.extend(tokenize(' const %s *%s = &%s%sdata[%s];' % (elt, var, vec, acc, idx))); fire(ctx, 'range-for-by-ref')
                else:
                    out.extend(tokenize(' %s %s = %s%sdata[%s];' % (elt, var, vec, acc, idx)))
                fire(ctx, 'range-for')
                i = e + 2; continue
        out.append(t); i += 1
    return out

VEC_ELEM = {'vec_double': 'double', 'vec_ndsize': 'ndsize_t', 'vec_opt_pair': 'opt_pair', 'vec_pair': 'pair_ndsize',
            'vec_dpair': 'pair_double', 'vec_int': 'int', 'vec_NDSize': 'NDSize', 'vec_Dimension': 'Dimension',
            'vec_nstr': 'nstring', 'vec_DataArray': 'DataArray', 'vec_Source': 'Source', 'vec_Section': 'Section', 'vec_Block': 'Block', 'vec_Tag': 'Tag', 'vec_MultiTag': 'MultiTag', 'vec_Property': 'Property', 'vec_Feature': 'Feature', 'vec_Column': 'Column', 'vec_Variant': 'Variant', 'vec_DataView': 'DataView', 'vec_string': 'nstring'}

def r_pair_ctor(ctx, toks):
    """pair_ndsize(a, b) -> mk_pair_ndsize(a, b)"""
    out = []; i = 0
    while i < len(toks):
        t = toks[i]
        if t.k == 'id' and t.t in ('pair_ndsize', 'pair_double') and i + 1 < len(toks) and toks[i + 1].t == '(' and (not out or out[-1].t != ')'):
            out.append(Tok('id', 'mk_' + t.t, t.ws)); i += 1; fire(ctx, 'pair-ctor'); continue
        out.append(t); i += 1
    return out

RESIDUAL = [
    (r'::', 'scope operator'), (r'\bthrow\b', 'throw'), (r'\btry\b', 'try'), (r'\bcatch\b', 'catch'),
    (r'\bnew\b', 'new'), (r'\bdelete\b', 'delete'), (r'\bauto\b', 'auto'), (r'\bstd\b', 'std'), (r'\bboost\b', 'boost'),
    (r'\btemplate\b', 'template'), (r'\[\s*[&=]?\s*\]\s*\(', 'lambda'), (r'\bthis\b', 'this'),
    (r'\bstatic_cast\b|\bdynamic_cast\b|\bconst_cast\b|\breinterpret_cast\b', 'c++ cast'),
    (r'<<', 'stream/shift operator'), (r'\boperator\b', 'operator'), (r'\bnamespace\b', 'namespace'),
]

def residual_scan(text, allow=()):
    code = re.sub(r'"(?:\\.|[^"\\])*"', '""', text)
    for rx, what in RESIDUAL:
        if what in allow: continue
        m = re.search(rx, code)
        if m:
            ln = code.count('\n', 0, m.start()) + 1
            raise ExtractError('residual C++ construct (%s) at generated line %d: %r' % (what, ln, code[max(0, m.start() - 30):m.end() + 30]))
    # '&' in a declarator:  TYPE & name
    m = re.search(r'\b(?:double|int|bool|size_t|ndsize_t|[A-Za-z_]\w*_t|vec_\w+|opt_\w+|NDSize|nstring)\s*&\s*[A-Za-z_]\w*\s*[,)=;]', code)
    if m:
        raise ExtractError('residual reference declarator: %r' % m.group())

def sha(s):
    return hashlib.sha256(s.encode()).hexdigest()[:16]

# ----------------------------------------------------------------------------------------------
# class-typed values: operators and method calls become named C functions

OPNAMES = {'==': 'eq', '!=': 'ne', '<': 'lt', '>': 'gt', '<=': 'le', '>=': 'ge', '+': 'plus', '-': 'minus',
           '+=': 'iadd', '-=': 'isub', '[]': 'index', '*': 'times', '/': 'divide', '*=': 'imul', '/=': 'idiv', '!': 'not', 'bool': 'bool'}

def class_of(ctx, name):
    """C struct type of a class-typed identifier, or None"""
    if name in ctx.env and ctx.env[name][0] in ctx.unit.get('classes', ()):
        return ctx.env[name][0]
    return None

def member_type(ctx, name):
    return (ctx.unit.get('member_types') or {}).get(name)

def path_before(ctx, out):
    """tail of out is 'self -> m' with m a class-typed data member: (start, class, pointer-expression tokens)"""
    if len(out) >= 3 and out[-1].k == 'id' and out[-2].t == '->' and out[-3].t == 'self':
        c = member_type(ctx, out[-1].t)
        if c in ctx.unit.get('classes', ()):
            return len(out) - 3, c, [P('&', ''), Tok('id', 'self', ''), P('->', ''), Tok('id', out[-1].t, '')]
    return None

def path_after(ctx, toks, i):
    if seq_at(toks, i, ['self', '->']) and i + 2 < len(toks) and toks[i + 2].k == 'id':
        c = member_type(ctx, toks[i + 2].t)
        if c in ctx.unit.get('classes', ()) and (i + 3 >= len(toks) or toks[i + 3].t not in ('.', '->', '(', '[')):
            return i + 3, c, [P('&', ''), Tok('id', 'self', ''), P('->', ''), Tok('id', toks[i + 2].t, '')]
    return None

def addr(ctx, name, ws=''):
    """expression for 'pointer to name'"""
    if name == 'self' or (name in ctx.env and ctx.env[name][1]):
        return [Tok('id', name, ws)]
    return [P('&', ws), Tok('id', name, '')]

def r_opcalls(ctx, toks):
    """X.operator OP (args) / this->operator OP (args) / operator OP (args) [inside a member] -> Cls_op(X, args)"""
    out = []; i = 0; n = len(toks)
    cls = ctx.unit.get('cls')
    while i < n:
        t = toks[i]
        obj = None; j = None
        if t.k == 'id' and class_of(ctx, t.t) and i + 2 < n and toks[i + 1].t in ('.', '->') and toks[i + 2].t == 'operator':
            obj = addr(ctx, t.t, t.ws); j = i + 3; c = class_of(ctx, t.t)
        elif t.t == 'this' and i + 2 < n and toks[i + 1].t == '->' and toks[i + 2].t == 'operator':
            obj = [Tok('id', 'self', t.ws)]; j = i + 3; c = cls
        elif t.t == 'operator' and cls and (not out or out[-1].t not in ('.', '->')):
            obj = [Tok('id', 'self', t.ws)]; j = i + 1; c = cls
        if obj is not None:
            # operator symbol: one or two tokens up to '('
            k = j; sym = ''
            while toks[k].t != '(' or sym == '':
                sym += toks[k].t; k += 1
                if sym == '(' and toks[k].t == ')':      # operator()
                    sym = '()'; k += 1
            if sym not in OPNAMES:
                raise ExtractError('unknown operator %s' % sym)
            e = match_close(toks, k)
            out.append(Tok('id', '%s_%s' % (c, OPNAMES[sym]), obj[0].ws)); out.append(P('(', ''))
            obj[0].ws = ''
            out.extend(obj)
            if e > k + 1: out.append(P(',', ''))
            i = k + 1; fire(ctx, 'operator-call'); continue
        out.append(t); i += 1
    return out

def operand_before(ctx, out):
    """if the tail of out is a class-typed operand, return (start index, class, tokens as pointer expr)"""
    if not out: return None
    t = out[-1]
    if t.k == 'id' and class_of(ctx, t.t) and (len(out) < 2 or out[-2].t not in ('.', '->')):
        return len(out) - 1, class_of(ctx, t.t), addr(ctx, t.t)
    pb = path_before(ctx, out)
    if pb: return pb
    # ( * self )
    if len(out) >= 4 and [x.t for x in out[-4:]] == ['(', '*', 'self', ')'] and ctx.unit.get('cls'):
        return len(out) - 4, ctx.unit['cls'], [Tok('id', 'self', '')]
    # result of a call returning a class value:  Cls_op ( ... )
    if t.t == ')':
        o = match_open(out, len(out) - 1)
        if o >= 1 and out[o - 1].k == 'id' and out[o - 1].t in ctx.sigs and ctx.sigs[out[o - 1].t]['ret'] in ctx.unit.get('classes', ()):
            c = ctx.sigs[out[o - 1].t]['ret']
            return o - 1, c, [Tok('id', 'TMP_' + c, ''), P('(', '')] + out[o - 1:] + [P(')', '')]
    return None

def operand_after(ctx, toks, i):
    t = toks[i]
    if t.k == 'id' and class_of(ctx, t.t) and (i + 1 >= len(toks) or toks[i + 1].t not in ('.', '->', '(', '[')):
        return i + 1, class_of(ctx, t.t), addr(ctx, t.t)
    pa = path_after(ctx, toks, i)
    if pa: return pa
    # call returning a class value:  f ( ... )   [not followed by a member access]
    if t.k == 'id' and t.t in ctx.sigs and ctx.sigs[t.t]['ret'] in ctx.unit.get('classes', ()) and i + 1 < len(toks) and toks[i + 1].t == '(':
        e = match_close(toks, i + 1)
        if e + 1 >= len(toks) or toks[e + 1].t not in ('.', '->', '['):
            c = ctx.sigs[t.t]['ret']
            return e + 1, c, [Tok('id', 'TMP_' + c, ''), P('(', '')] + toks[i:e + 1] + [P(')', '')]
    if seq_at(toks, i, ['(', '*', 'self', ')']) or seq_at(toks, i, ['*', 'this']):
        ln = 4 if toks[i].t == '(' else 2
        return i + ln, ctx.unit.get('cls'), [Tok('id', 'self', '')]
    # temporary:  Cls ( { a, b, c } )
    if t.k == 'id' and t.t in ctx.unit.get('classes', ()) and i + 2 < len(toks) and toks[i + 1].t == '(' and toks[i + 2].t == '{':
        e = match_close(toks, i + 1)
        inner = toks[i + 3:e - 1]
        return e + 1, t.t, [Tok('id', 'TMP_' + t.t, ''), P('(', ''), Tok('id', 'mk_%s_list' % t.t, ''), P('(', '')] + inner + [P(')', ''), P(')', '')]
    return None

BINOPS = ['==', '!=', '<=', '>=', '<', '>', '+', '-', '+=', '-=']

def r_class_ops(ctx, toks):
    """binary operators between class-typed operands -> Cls_op(&a, &b); a[i] -> Cls_index(&a, i); !a / if (a) -> Cls_bool"""
    if not ctx.unit.get('classes'):
        return toks
    # pass 1: arithmetic (+,-) first, then comparisons, so that 'a + b > c' nests correctly
    for group in (['+', '-'], ['==', '!=', '<=', '>=', '<', '>'], ['+=', '-=']):
        out = []; i = 0; n = len(toks)
        while i < n:
            t = toks[i]
            if t.k == 'punct' and t.t in group and out:
                lhs = operand_before(ctx, out)
                rhs = operand_after(ctx, toks, i + 1) if i + 1 < n else None
                if lhs and rhs and lhs[1] == rhs[1]:
                    s, c, lt = lhs
                    e, _, rt = rhs
                    ws = out[s].ws
                    del out[s:]
                    fname = '%s_%s' % (c, OPNAMES[t.t])
                    if t.t in ('+', '-'):
                        # free operator+(NDSize lhs, const NDSize &rhs): lhs is passed BY VALUE = copy-constructed
                        if lt and lt[0].t == 'TMP_' + c:
                            lt = lt[2:-1]                       # a temporary is moved, not copied
                        else:
                            fname += '_cc'                      # call adapter: copy-construct the parameter, then the body
                            fire(ctx, 'by-value-copy')
                    out.append(Tok('id', fname, ws)); out.append(P('(', ''))
                    out.extend(lt); out.append(P(',', '')); out.extend(rt); out.append(P(')', ''))
                    i = e; fire(ctx, 'class-op:' + t.t); continue
                # class OP scalar (e.g. NDSize -= 1)
                if lhs and t.t in ('+=', '-=', '+', '-') and i + 1 < n and not rhs:
                    s, c, lt = lhs
                    # scalar operand: tokens up to ';' or ')' at depth 0
                    k = i + 1; d = 0
                    while k < n and not (d == 0 and toks[k].t in (';', ')', ',')):
                        if toks[k].t in '([': d += 1
                        elif toks[k].t in ')]': d -= 1
                        k += 1
                    ws = out[s].ws
                    del out[s:]
                    out.append(Tok('id', '%s_%s_scalar' % (c, OPNAMES[t.t]), ws)); out.append(P('(', ''))
                    out.extend(lt); out.append(P(',', '')); out.extend(toks[i + 1:k]); out.append(P(')', ''))
                    i = k; fire(ctx, 'class-op-scalar:' + t.t); continue
            out.append(t); i += 1
        toks = out
    # indexing and boolean conversion
    out = []; i = 0; n = len(toks)
    while i < n:
        t = toks[i]
        prev = out[-1].t if out else ''
        if t.k == 'id' and class_of(ctx, t.t) and prev not in ('.', '->', '&'):
            c = class_of(ctx, t.t)
            if i + 1 < n and toks[i + 1].t == '[':
                e = match_close(toks, i + 1)
                idx = r_class_ops(ctx, toks[i + 2:e])
                # lvalue use:  a[i] = / += ...
                nxt = toks[e + 1].t if e + 1 < n else ''
                if (c + '_at') in ctx.sigs:
                    # operator[] returns a reference: (*NIX_NT_p(Cls_at(&a, i)))
                    out.append(P('(', t.ws)); out.append(P('*', '')); out.append(Tok('id', 'NIX_NT_p', '')); out.append(P('(', ''))
                    out.append(Tok('id', c + '_at', '')); out.append(P('(', ''))
                    out.extend(addr(ctx, t.t)); out.append(P(',', '')); out.extend(idx); out.append(P(')', '')); out.append(P(')', '')); out.append(P(')', ''))
                else:
                    out.append(Tok('id', c + '_index', t.ws)); out.append(P('(', ''))
                    out.extend(addr(ctx, t.t)); out.append(P(',', '')); out.extend(idx); out.append(P(')', ''))
                i = e + 1; fire(ctx, 'class-index'); continue
            nxt = toks[i + 1].t if i + 1 < n else ''
            boolctx = prev == '!' or nxt == '?' or (prev == '(' and nxt == ')' and len(out) >= 2 and out[-2].t in ('if', 'while')) \
                      or prev in ('&&', '||') or nxt in ('&&', '||')
            if boolctx and (c + '_bool') in ctx.sigs:
                out.append(Tok('id', c + '_bool', t.ws)); out.append(P('(', '')); out.extend(addr(ctx, t.t)); out.append(P(')', ''))
                i += 1; fire(ctx, 'class-bool'); continue
        out.append(t); i += 1
    return out

def r_methods(ctx, toks):
    """x.method(args) with x class-typed -> Cls_method(&x, args); also self->m.method(args) and f(...).method(args)"""
    out = []; i = 0; n = len(toks)
    while i < n:
        t = toks[i]
        # x . field . method (   with x a class-typed local and the field's class known (unit key field_types)
        if t.k == 'id' and class_of(ctx, t.t) and i + 5 < n and toks[i + 1].t in ('.', '->') and toks[i + 2].k == 'id' and toks[i + 3].t == '.' and toks[i + 4].k == 'id' and toks[i + 5].t == '(' \
                and (ctx.unit.get('field_types') or {}).get(class_of(ctx, t.t), {}).get(toks[i + 2].t) and (not out or out[-1].t not in ('.', '->')):
            c = ctx.unit['field_types'][class_of(ctx, t.t)][toks[i + 2].t]
            e = match_close(toks, i + 5)
            out.append(Tok('id', resolve_overload(ctx, '%s_%s' % (c, toks[i + 4].t), toks[i + 6:e]), t.ws)); out.append(P('(', ''))
            out.extend([P('&', ''), Tok('id', t.t, ''), P('->' if ctx.env[t.t][1] else '.', ''), Tok('id', toks[i + 2].t, '')])
            if e > i + 6: out.append(P(',', ''))
            i += 6; fire(ctx, 'method-call-field'); continue
        # v [ idx ] . method (   with v a vector variable whose elements are class values
        if t.k == 'id' and t.t in ctx.env and ctx.env[t.t][0] in VEC_TYPES and VEC_ELEM.get(ctx.env[t.t][0]) in ctx.unit.get('classes', ()) and i + 1 < n and toks[i + 1].t == '[' \
                and (not out or out[-1].t not in ('.', '->')):
            eb = match_close(toks, i + 1)
            if eb + 3 < n and toks[eb + 1].t == '.' and toks[eb + 2].k == 'id' and toks[eb + 3].t == '(':
                c = VEC_ELEM[ctx.env[t.t][0]]
                e = match_close(toks, eb + 3)
                out.append(Tok('id', resolve_overload(ctx, '%s_%s' % (c, toks[eb + 2].t), toks[eb + 4:e]), t.ws)); out.append(P('(', ''))
                out.extend([P('&', ''), Tok('id', t.t, ''), P('->' if ctx.env[t.t][1] else '.', ''), Tok('id', 'data', '')]); out.extend(toks[i + 1:eb + 1])
                if e > eb + 4: out.append(P(',', ''))
                i = eb + 4; fire(ctx, 'method-call-element'); continue
        # opt -> method (   : access through a boost::optional holding a class value
        if t.k == 'id' and t.t in ctx.env and ctx.env[t.t][0] in OPT_PAYLOAD_CLASS and ctx.env[t.t][0] not in ctx.unit.get('classes', ()) and i + 3 < n and toks[i + 1].t == '->' and toks[i + 2].k == 'id' and toks[i + 3].t == '(' \
                and (not out or out[-1].t not in ('.', '->')):
            c = OPT_PAYLOAD_CLASS[ctx.env[t.t][0]]
            e = match_close(toks, i + 3)
            out.append(Tok('id', resolve_overload(ctx, '%s_%s' % (c, toks[i + 2].t), toks[i + 4:e]), t.ws)); out.append(P('(', ''))
            out.extend([P('&', ''), Tok('id', t.t, ''), P('.', ''), Tok('id', 'val', '')])
            if e > i + 4: out.append(P(',', ''))
            i += 4; fire(ctx, 'method-call-optional'); continue
        # self -> m . method (
        if t.t == 'self' and seq_at(toks, i + 1, ['->']) and i + 5 < n and toks[i + 2].k == 'id' and toks[i + 3].t == '.' \
                and toks[i + 4].k == 'id' and toks[i + 5].t == '(' and member_type(ctx, toks[i + 2].t) and member_type(ctx, toks[i + 2].t) not in VEC_TYPES:
            c = member_type(ctx, toks[i + 2].t)
            e = match_close(toks, i + 5)
            name = '%s_%s' % (c, toks[i + 4].t)
            name = resolve_overload(ctx, name, toks[i + 6:e])
            out.append(Tok('id', name, t.ws)); out.append(P('(', ''))
            out.extend([P('&', ''), Tok('id', 'self', ''), P('->', ''), Tok('id', toks[i + 2].t, '')])
            if e > i + 6: out.append(P(',', ''))
            i += 6; fire(ctx, 'method-call-member'); continue
        # f ( ... ) . method (   with f returning a class value
        if t.k == 'id' and t.t in ctx.sigs and ctx.sigs[t.t]['ret'] in ctx.unit.get('classes', ()) and i + 1 < n and toks[i + 1].t == '(' \
                and (not out or out[-1].t not in ('.', '->')):
            e0 = match_close(toks, i + 1)
            if e0 + 3 < n and toks[e0 + 1].t == '.' and toks[e0 + 2].k == 'id' and toks[e0 + 3].t == '(':
                c = ctx.sigs[t.t]['ret']
                e = match_close(toks, e0 + 3)
                inner = r_methods(ctx, toks[i:e0 + 1])
                out.append(Tok('id', '%s_%s' % (c, toks[e0 + 2].t), t.ws)); out.append(P('(', ''))
                out.extend([Tok('id', 'TMP_' + c, ''), P('(', '')] + inner + [P(')', '')])
                if e > e0 + 4: out.append(P(',', ''))
                i = e0 + 4; fire(ctx, 'method-call-temp'); continue
        if t.k == 'id' and class_of(ctx, t.t) and i + 3 < n and toks[i + 1].t in ('.', '->') and toks[i + 2].k == 'id' and toks[i + 3].t == '(' \
                and (not out or out[-1].t not in ('.', '->')):
            c = class_of(ctx, t.t)
            e = match_close(toks, i + 3)
            out.append(Tok('id', resolve_overload(ctx, '%s_%s' % (c, toks[i + 2].t), toks[i + 4:e]), t.ws)); out.append(P('(', ''))
            out.extend(addr(ctx, t.t))
            if e > i + 4: out.append(P(',', ''))
            i += 4; fire(ctx, 'method-call'); continue
        out.append(t); i += 1
    return out

def r_return_ref(ctx, toks):
    """function returns a reference (C: pointer): return EXPR; -> return &(EXPR);"""
    out = []; i = 0; n = len(toks)
    while i < n:
        t = toks[i]
        if t.k == 'id' and t.t == 'return' and toks[i + 1].t != ';':
            j = i + 1; d = 0
            while not (toks[j].t == ';' and d == 0):
                if toks[j].k == 'punct' and toks[j].t in '([{': d += 1
                elif toks[j].k == 'punct' and toks[j].t in ')]}': d -= 1
                j += 1
            out.append(t); out.append(P('&')); out.append(P('(', '')); out.extend(toks[i + 1:j]); out.append(P(')', ''))
            i = j; fire(ctx, 'return-ref'); continue
        out.append(t); i += 1
    return out

def resolve_overload(ctx, name, argtoks):
    """overloaded member functions are distinct C functions: NAME, or NAME_<n> by argument count, or per-unit map"""
    ov = ctx.unit.get('overloads') or {}
    if name in ov and isinstance(ov[name], dict) and ov[name].get('by') == 'last_arg_type':
        args = split_args(argtoks)
        last = args[-1] if args else []
        ty = ctx.env.get(last[0].t, (None,))[0] if len(last) == 1 and last[0].k == 'id' else None
        if ty not in ov[name]:
            raise ExtractError('no overload of %s for argument type %s' % (name, ty))
        return ov[name][ty]
    if name in ov:
        n = len(split_args(argtoks))
        tgt = ov[name]
        if isinstance(tgt, dict):
            if n not in tgt: raise ExtractError('no overload of %s with %d arguments' % (name, n))
            return tgt[n]
        return tgt
    return name

def r_ctor_init(ctx, init_toks):
    """constructor initialiser list  m(std::move(x)), n(y)  ->  self->m = x; self->n = y;"""
    out = []
    for a in split_args(init_toks):
        if not a: continue
        if a[0].k != 'id' or a[1].t != '(':
            raise ExtractError('unsupported constructor initialiser')
        inner = a[2:-1]
        if len(inner) >= 3 and inner[0].t == 'move' and inner[1].t == '(':
            inner = inner[2:-1]; fire(ctx, 'std-move')
        out.extend([Tok('id', 'self', ' '), P('->', ''), Tok('id', a[0].t, ''), P('=')]); out.extend(inner); out.append(P(';', ''))
        fire(ctx, 'ctor-init')
    return out

def r_local_refs(ctx, toks):
    """const Cls &name = COND ? a : b;   ->   const Cls *name = COND ? <ptr a> : <ptr b>;   (a, b lvalues)"""
    out = []; i = 0; n = len(toks)
    while i < n:
        t = toks[i]
        if t.k == 'id' and t.t in ctx.unit.get('classes', ()) and i + 3 < n and toks[i + 1].t == '&' and toks[i + 2].k == 'id' and toks[i + 3].t == '=':
            name = toks[i + 2].t
            j = i + 4
            while toks[j].t != ';': j += 1
            rhs = toks[i + 4:j]
            q = [k for k, x in enumerate(rhs) if x.t == '?']
            c = [k for k, x in enumerate(rhs) if x.t == ':']
            if not q and not c and i > 0 and toks[i - 1].t == 'const' and len(rhs) >= 3 and rhs[-1].t == ')' and match_open(rhs, len(rhs) - 1) >= 1:
                # const T &x = <call>;  a read-only name for the call's result: by-value copy
                out.extend([t, Tok('id', name, ' '), P('=')]); out.extend(rhs); out.append(P(';', ''))
                ctx.env[name] = (t.t, False)
                i = j + 1; fire(ctx, 'local-const-ref-copy'); continue
            if len(q) != 1 or len(c) != 1:
                raise ExtractError('unsupported reference initialiser for %s' % name)
            def lv(ts):
                ts = [x for x in ts]
                if len(ts) == 1 and ts[0].k == 'id' and ts[0].t in ctx.env:
                    return addr(ctx, ts[0].t, ' ')
                if [x.t for x in ts[:2]] == ['self', '->'] and len(ts) == 3:
                    return [P('&', ' ')] + ts
                raise ExtractError('reference bound to non-lvalue')
            out.extend([t, P('*', ' '), Tok('id', name, ''), P('=')]); out.extend(rhs[:q[0] + 1]); out.extend(lv(rhs[q[0] + 1:c[0]]))
            out.append(P(':')); out.extend(lv(rhs[c[0] + 1:])); out.append(P(';', ''))
            ctx.env[name] = (t.t, True)
            i = j + 1; fire(ctx, 'local-ref'); continue
        out.append(t); i += 1
    return out

# ----------------------------------------------------------------------------------------------
# exceptions: sequencing of may-throw calls (replaces r_maythrow_calls)

def _stmt_bounds(toks):
    """yield (start, end_exclusive, kind) for simple statements and if/while headers at any nesting depth.
    kind: 'simple' (ends with ';'), 'cond' (tokens inside 'if (' ... ')' / 'while ('), 'for' (header of a for)"""
    res = []
    i = 0; n = len(toks)
    start = 0
    par = 0
    while i < n:
        t = toks[i]
        if t.k == 'id' and t.t in ('if', 'while', 'switch') and i + 1 < n and toks[i + 1].t == '(' and par == 0:
            e = match_close(toks, i + 1)
            res.append((i + 2, e, 'cond', i))
            i = e + 1; start = i; continue
        if t.k == 'id' and t.t == 'for' and i + 1 < n and toks[i + 1].t == '(' and par == 0:
            e = match_close(toks, i + 1)
            res.append((i + 2, e, 'for', i))
            i = e + 1; start = i; continue
        if t.k == 'punct' and t.t in '([': par += 1
        elif t.k == 'punct' and t.t in ')]': par -= 1
        if par == 0 and t.k == 'punct' and t.t in ('{', '}'):
            start = i + 1
        elif par == 0 and t.k == 'id' and t.t in ('else', 'do'):
            start = i + 1
        elif par == 0 and t.t == ':' and i > 0 and (toks[i - 1].k in ('id', 'num')) and start < i and toks[start].t in ('case', 'default'):
            start = i + 1
        elif par == 0 and t.t == ';':
            res.append((start, i, 'simple', start))
            start = i + 1
        i += 1
    return res

def _split_top(seg, op):
    parts, cur, d = [], [], 0
    for t in seg:
        if t.k == 'punct' and t.t in '([{': d += 1
        elif t.k == 'punct' and t.t in ')]}': d -= 1
        if d == 0 and t.k == 'punct' and t.t == op:
            parts.append(cur); cur = []
        else:
            cur.append(t)
    parts.append(cur)
    return parts

def r_hoist_throws(ctx, toks):
    may = {c for c, s in ctx.sigs.items() if s.get('throws')}
    if not may:
        return toks
    counter = [0]
    CHECK = ' if (nix_exc) return NIX_RET_DEFAULT;'
    def has_may(seg):
        return any(t.k == 'id' and t.t in may and k + 1 < len(seg) and seg[k + 1].t == '(' for k, t in enumerate(seg))
    def find_calls(seg):
        calls = []
        for k, t in enumerate(seg):
            if t.k == 'id' and t.t in may and k + 1 < len(seg) and seg[k + 1].t == '(' and (k == 0 or seg[k - 1].t not in ('.', '->')):
                calls.append((k, match_close(seg, k + 1)))
        calls.sort(key=lambda c: c[1])
        return calls
    def short_circuit_before(seg, k):
        d = 0
        for j in range(k - 1, -1, -1):
            t = seg[j]
            if t.k == 'punct' and t.t in ')]': d += 1
            elif t.k == 'punct' and t.t in '([':
                d -= 1
            elif d <= 0 and t.t in ('&&', '||', '?', ':'):
                return True
        return False
    def newtmp():
        counter[0] += 1
        return '_t%d' % counter[0]
    def hoist_plain(seg, keep_top):
        """hoist nested may-throw calls of an expression without governing short-circuit operators.
        keep_top: the expression may remain a single top-level call (caller adds the check)."""
        pre = []
        top = False
        while True:
            calls = find_calls(seg)
            if not calls: break
            k, e = calls[0]
            if keep_top and len(calls) == 1 and k == 0 and e == len(seg) - 1:
                top = True; break
            if short_circuit_before(seg, k):
                raise ExtractError('may-throw call %s under a conditional operator: needs a unit-specific rule' % seg[k].t)
            rty = ctx.sigs[seg[k].t]['ret']
            if rty == 'void':
                raise ExtractError('void may-throw call nested in an expression')
            tmp = newtmp()
            pre.extend(tokenize(' %s %s =' % (rty, tmp))); pre.extend(seg[k:e + 1]); pre.append(P(';', '')); pre.extend(tokenize(CHECK))
            repl = [Tok('id', tmp, seg[k].ws)]
            # the hoisted value is a whole argument of a call whose parameter is a pointer (a C++ reference parameter bound to a temporary): pass its address
            if k > 0 and seg[k - 1].t in ('(', ',') and e + 1 < len(seg) and seg[e + 1].t in (',', ')') and '*' not in rty:
                d = 0; pos = 0; j = k - 1
                while j >= 0:
                    tj = seg[j]
                    if tj.k == 'punct' and tj.t in ')]': d += 1
                    elif tj.k == 'punct' and tj.t in '([':
                        if d == 0: break
                        d -= 1
                    elif d == 0 and tj.t == ',': pos += 1
                    j -= 1
                if j > 0 and seg[j].t == '(' and seg[j - 1].k == 'id' and seg[j - 1].t in ctx.sigs:
                    ps = ctx.sigs[seg[j - 1].t]['params']
                    if pos < len(ps) and ps[pos][2] and ps[pos][0] == rty:
                        repl = [P('&', seg[k].ws), Tok('id', tmp, '')]; fire(ctx, 'hoist-arg-addr')
            seg = seg[:k] + repl + seg[e + 1:]
            fire(ctx, 'hoist-maythrow')
        return pre, seg, top
    def lower_bool(seg):
        """boolean expression with may-throw calls under top-level && / ||: sequential evaluation with guards"""
        if not has_may(seg):
            return [], seg
        # strip one pair of enclosing parentheses
        if seg and seg[0].t == '(' and match_close(seg, 0) == len(seg) - 1:
            pre, r = lower_bool(seg[1:-1])
            return pre, [P('(', seg[0].ws)] + r + [P(')', '')]
        for op, guard in (('||', '!'), ('&&', '')):
            parts = _split_top(seg, op)
            if len(parts) > 1:
                v = newtmp()
                p0, r0 = lower_bool(parts[0])
                pre = p0 + tokenize(' bool %s =' % v) + r0 + [P(';', '')]
                for part in parts[1:]:
                    pi, ri = lower_bool(part)
                    pre += tokenize(' if (%s%s) {' % (guard, v)) + pi + tokenize(' %s =' % v) + ri + [P(';', ''), P('}')]
                fire(ctx, 'hoist-short-circuit')
                return pre, [Tok('id', v, ' ')]
        if any(t.t == '?' for t in seg):
            raise ExtractError('may-throw call under ?: needs a unit-specific rule')
        # leading '!' is fine: hoist inside
        pre, r, _ = hoist_plain(seg, False)
        return pre, r
    def needs_lower(seg):
        for op in ('&&', '||'):
            parts = _split_top(seg, op)
            if len(parts) > 1 and any(has_may(p) for p in parts[1:]):
                return True
        return False
    out = list(toks)
    for (a, b, kind, anchor) in sorted(_stmt_bounds(out), key=lambda x: -x[0]):
        seg = out[a:b]
        if not has_may(seg):
            continue
        if kind == 'for':
            raise ExtractError('may-throw call in a for header: %r' % render(seg)[:80])
        if kind == 'cond':
            prev = out[anchor - 1].t if anchor > 0 else '{'
            if prev == 'else':
                raise ExtractError("may-throw call in an 'else if' condition: needs a unit-specific rule")
            if prev not in (';', '{', '}'):
                raise ExtractError('may-throw call in the condition of an unbraced nested statement')
            if out[anchor].t == 'while':
                raise ExtractError('may-throw call in a while condition')
            pre, r = lower_bool(seg)
            out[a:b] = r
            out[anchor:anchor] = pre
            continue
        # simple statement: [return | T x = | x = ] EXPR
        prev = out[a - 1].t if a > 0 else '{'
        # find the expression start
        es = 0
        if seg and seg[0].t == 'return': es = 1
        else:
            d = 0
            for k, t in enumerate(seg):
                if t.k == 'punct' and t.t in '([{': d += 1
                elif t.k == 'punct' and t.t in ')]}': d -= 1
                elif d == 0 and t.t == '=':
                    es = k + 1; break
        head, expr = seg[:es], seg[es:]
        tail = []
        pre_head = []
        if head and head[0].t != 'return' and has_may(head):
            # may-throw call on the left-hand side (e.g. a[i] = ...): evaluated into a temporary first
            pre_head, head, _ = hoist_plain(head, False)
        if needs_lower(expr):
            pre, r = lower_bool(expr)
            newseg = head + r
        else:
            pre, r, top = hoist_plain(expr, True)
            newseg = head + r
            if top and not (head and head[0].t == 'return'):
                tail = tokenize(CHECK); fire(ctx, 'maythrow-check')
        if pre and prev not in (';', '{', '}', ':'):
            raise ExtractError('may-throw call in an unbraced nested statement: %r' % render(out[a:b])[:80])
        pre = pre_head + pre
        if pre and prev not in (';', '{', '}', ':'):
            raise ExtractError('may-throw call in an unbraced nested statement: %r' % render(out[a:b])[:80])
        out[b + 1:b + 1] = tail
        out[a:b] = newseg
        out[a:a] = pre
    return out

def r_return_copy(ctx, toks, ret_c):
    """function returns a class BY VALUE and the operand is an lvalue that outlives the call (member or
    reference parameter): C++ copy-constructs the result -> return Cls_copy(&lvalue);"""
    if ret_c not in ctx.unit.get('classes', ()):
        return toks
    out = []; i = 0; n = len(toks)
    while i < n:
        t = toks[i]
        if t.k == 'id' and t.t == 'return':
            j = i + 1
            while toks[j].t != ';': j += 1
            e = toks[i + 1:j]
            ptr = None
            if len(e) == 3 and e[0].t == 'self' and e[1].t == '->' and member_type(ctx, e[2].t) == ret_c:
                ptr = [P('&', ''), e[0], e[1], e[2]]
            elif len(e) == 1 and e[0].k == 'id' and e[0].t in ctx.env and ctx.env[e[0].t] == (ret_c, True):
                ptr = [e[0]]
            if ptr:
                out.extend([t, Tok('id', ret_c + '_copy', ' '), P('(', '')] + ptr + [P(')', '')])
                i = j; fire(ctx, 'return-copy'); continue
        out.append(t); i += 1
    return out

def r_drop_streams(ctx, toks):
    """std::stringstream NAME;  and statements  NAME << ... ;  are dropped (exception message text is not part of any contract)"""
    names = set()
    out = []; i = 0; n = len(toks)
    while i < n:
        t = toks[i]
        if t.k == 'id' and t.t in ('stringstream', 'ostringstream') and i + 2 < n and toks[i + 1].k == 'id' and toks[i + 2].t == ';':
            names.add(toks[i + 1].t); i += 3; fire(ctx, 'drop-stream-decl'); continue
        out.append(t); i += 1
    if not names:
        return out
    res = []; i = 0; n = len(out)
    while i < n:
        t = out[i]
        prev = res[-1].t if res else '{'
        if t.k == 'id' and t.t in names and i + 1 < n and out[i + 1].t == '<<' and prev in (';', '{', '}'):
            j = i
            while out[j].t != ';': j += 1
            i = j + 1; fire(ctx, 'drop-stream-stmt'); continue
        res.append(t); i += 1
    return res

def r_ctor_calls(ctx, toks):
    """temporary construction  Cls(args)  (not Cls({..}), handled by class ops) -> mk_Cls_<argc>(args)"""
    out = []; i = 0; n = len(toks)
    classes = ctx.unit.get('classes', ())
    while i < n:
        t = toks[i]
        if t.k == 'id' and t.t in classes and i + 1 < n and toks[i + 1].t == '(' and toks[i + 2].t != '{' \
                and (not out or out[-1].t in ('=', 'return', '(', ',', '<', '>', '<=', '>=', '==', '!=', '&&', '||')):
            e = match_close(toks, i + 1)
            argc = len(split_args(toks[i + 2:e]))
            name = 'mk_%s_%d' % (t.t, argc)
            if name in ctx.sigs:
                out.append(Tok('id', name, t.ws)); i += 1; fire(ctx, 'ctor-call'); continue
        out.append(t); i += 1
    return out

def r_nstring_cmp(ctx, toks):
    """std::string compared with a string literal / macro:  s != X  ->  nstring_ne_cstr(&s, X)"""
    out = []; i = 0; n = len(toks)
    while i < n:
        t = toks[i]
        if t.k == 'id' and t.t in ctx.env and ctx.env[t.t][0] == 'nstring' and i + 2 < n and toks[i + 1].t in ('!=', '==') \
                and (not out or out[-1].t not in ('.', '->')):
            rhs = toks[i + 2]
            if rhs.k in ('str', 'id') and not (rhs.k == 'id' and rhs.t in ctx.env and ctx.env[rhs.t][0] == 'nstring') and (i + 3 >= n or toks[i + 3].t in (')', '&&', '||', ';')):
                fn = 'nstring_ne_cstr' if toks[i + 1].t == '!=' else 'nstring_eq_cstr'
                out.extend([Tok('id', fn, t.ws), P('(', '')] + addr(ctx, t.t) + [P(',', ''), rhs, P(')', '')])
                i += 3; fire(ctx, 'string-compare'); continue
        out.append(t); i += 1
    return out

def r_ctor_decl(ctx, toks):
    """Cls name(args);  ->  Cls name = mk_Cls_<argc>(args);   (direct initialisation of a class-typed local)
       Cls a, b;        ->  Cls a = Cls_default(), b = Cls_default();   (default construction, when Cls_default exists)"""
    out = []; i = 0; n = len(toks)
    classes = ctx.unit.get('classes', ())
    while i < n:
        t = toks[i]
        prev = out[-1].t if out else '{'
        if t.k == 'id' and t.t in classes and prev in (';', '{', '}') and (t.t + '_default') in ctx.sigs and i + 2 < n and toks[i + 1].k == 'id' and toks[i + 2].t in (',', ';'):
            j = i + 1; names = []
            while toks[j].k == 'id' and toks[j + 1].t in (',', ';'):
                names.append(toks[j]); 
                if toks[j + 1].t == ';': break
                j += 2
            if toks[j + 1].t == ';':
                out.append(t)
                for q, nm in enumerate(names):
                    if q: out.append(P(',', ''))
                    out.extend([nm, P('='), Tok('id', t.t + '_default', ' '), P('(', ''), P(')', '')])
                    ctx.env[nm.t] = (t.t, False)
                out.append(P(';', ''))
                i = j + 2; fire(ctx, 'default-ctor'); continue
        if t.k == 'id' and t.t in classes and prev in (';', '{', '}') and i + 2 < n and toks[i + 1].k == 'id' and toks[i + 2].t == '(':
            e = match_close(toks, i + 2)
            if e + 1 < n and toks[e + 1].t == ';':
                argc = len(split_args(toks[i + 3:e]))
                name = 'mk_%s_%d' % (t.t, argc)
                if name in ctx.sigs:
                    out.extend([t, toks[i + 1], P('='), Tok('id', name, ' '), P('(', '')]); out.extend(toks[i + 3:e]); out.append(P(')', ''))
                    ctx.env[toks[i + 1].t] = (t.t, False)
                    i = e + 1; fire(ctx, 'ctor-decl'); continue
        out.append(t); i += 1
    return out


def _init_type(ctx, rhs):
    """C type of an initialiser expression whose type is mechanically known, or None"""
    classes = ctx.unit.get('classes', ())
    ts = [x.t for x in rhs]
    # V.begin() / V.end() / V.cbegin()
    if len(rhs) == 5 and rhs[0].k == 'id' and rhs[0].t in ctx.env and ctx.env[rhs[0].t][0] in VEC_TYPES and ts[1] == '.' and ts[2] in ('begin', 'end', 'cbegin', 'cend') and ts[3:] == ['(', ')']:
        return VEC_ELEM[ctx.env[rhs[0].t][0]], True
    # ( * it ) . m ( ... )  with it an iterator over class values
    if len(rhs) >= 8 and ts[0] == '(' and ts[1] == '*' and rhs[2].k == 'id' and ts[3] == ')' and ts[4] == '.' and rhs[5].k == 'id' and ts[6] == '(' \
            and match_close(rhs, 6) == len(rhs) - 1 and rhs[2].t in ctx.env and ctx.env[rhs[2].t][1] and ctx.env[rhs[2].t][0] in classes:
        sg = ctx.sigs.get('%s_%s' % (ctx.env[rhs[2].t][0], rhs[5].t))
        if sg: return sg['ret'], False
    iters = getattr(ctx, 'iters', {})
    if len(rhs) >= 8 and ts[0] == '(' and ts[1] == '*' and ts[2] in iters and ts[3] == ')' and ts[4] == '.' and rhs[5].k == 'id' and ts[6] == '(' and match_close(rhs, 6) == len(rhs) - 1:
        sg = ctx.sigs.get('%s_%s' % (VEC_ELEM[ctx.env[iters[ts[2]]][0]], rhs[5].t))
        if sg: return sg['ret'], False
    if len(rhs) >= 5 and ts[0] in iters and ts[1] == '->' and rhs[2].k == 'id' and ts[3] == '(' and match_close(rhs, 3) == len(rhs) - 1:
        sg = ctx.sigs.get('%s_%s' % (VEC_ELEM[ctx.env[iters[ts[0]]][0]], rhs[2].t))
        if sg: return sg['ret'], False
    # x . m ( ... )  with x class-typed
    if len(rhs) >= 5 and rhs[0].k == 'id' and class_of(ctx, rhs[0].t) and ts[1] in ('.', '->') and rhs[2].k == 'id' and ts[3] == '(' and match_close(rhs, 3) == len(rhs) - 1:
        sg = ctx.sigs.get('%s_%s' % (class_of(ctx, rhs[0].t), rhs[2].t))
        if sg: return sg['ret'], False
    # f ( ... )
    if len(rhs) >= 3 and rhs[0].k == 'id' and ts[1] == '(' and match_close(rhs, 1) == len(rhs) - 1 and rhs[0].t in ctx.sigs:
        return ctx.sigs[rhs[0].t]['ret'], False
    return None

def r_auto(ctx, toks):
    """auto NAME = INIT;  ->  TYPE NAME = INIT;  when the type of INIT is mechanically known (iterator of a vector,
    result of a method / function with a C prototype).  Anything else keeps 'auto' and is refused by the residual scan."""
    out = []; i = 0; n = len(toks)
    while i < n:
        t = toks[i]
        if t.k == 'id' and t.t == 'auto' and i + 3 < n and toks[i + 1].k == 'id' and toks[i + 2].t == '=':
            j = i + 3; d = 0
            while j < n and not (toks[j].t == ';' and d == 0):
                if toks[j].k == 'punct' and toks[j].t in '([{': d += 1
                elif toks[j].k == 'punct' and toks[j].t in ')]}': d -= 1
                j += 1
            rhs = toks[i + 3:j]
            if len(rhs) == 5 and rhs[0].k == 'id' and rhs[0].t in ctx.env and ctx.env[rhs[0].t][0] in VEC_TYPES and [x.t for x in rhs[1:]] == ['.', 'begin', '(', ')']:
                # iterator over a vector = position in that vector (r_iterators rewrites its uses)
                if not hasattr(ctx, 'iters'): ctx.iters = {}
                ctx.iters[toks[i + 1].t] = rhs[0].t
                ctx.env[toks[i + 1].t] = ('size_t', False)
                out.extend([Tok('id', 'size_t', t.ws), toks[i + 1], toks[i + 2], Tok('num', '0', ' ')])
                i = j; fire(ctx, 'iterator-as-index'); continue
            ty = _init_type(ctx, rhs)
            if ty and ty[0] != 'void':
                cty, ptr = ty
                out.append(Tok('id', cty, t.ws))
                if ptr: out.append(P('*', ' '))
                ctx.env[toks[i + 1].t] = (cty, ptr)
                i += 1; fire(ctx, 'auto-typed'); continue
        out.append(t); i += 1
    return out

def r_iter_methods(ctx, toks):
    """( * it ) . m ( args )  with it a pointer/iterator to a class value  ->  Cls_m(it, args)"""
    out = []; i = 0; n = len(toks)
    classes = ctx.unit.get('classes', ())
    while i < n:
        t = toks[i]
        if t.t == '(' and i + 6 < n and toks[i + 1].t == '*' and toks[i + 2].k == 'id' and toks[i + 3].t == ')' and toks[i + 4].t == '.' \
                and toks[i + 5].k == 'id' and toks[i + 6].t == '(' and toks[i + 2].t in ctx.env and ctx.env[toks[i + 2].t][1] \
                and ctx.env[toks[i + 2].t][0] in classes and (not out or out[-1].k != 'id' or out[-1].t in ('return', 'if', 'while')):
            c = ctx.env[toks[i + 2].t][0]
            e = match_close(toks, i + 6)
            out.append(Tok('id', resolve_overload(ctx, '%s_%s' % (c, toks[i + 5].t), toks[i + 7:e]), t.ws)); out.append(P('(', ''))
            out.append(Tok('id', toks[i + 2].t, ''))
            if e > i + 7: out.append(P(',', ''))
            i += 7; fire(ctx, 'method-call-iter'); continue
        out.append(t); i += 1
    return out

def r_call_index(ctx, toks):
    """f ( ... ) [ idx ]  with f returning a class value that has operator[]  ->  (*NIX_NT_p(Cls_at(TMP_Cls(f(...)), idx)))"""
    out = []; i = 0; n = len(toks)
    classes = ctx.unit.get('classes', ())
    while i < n:
        t = toks[i]
        if t.t == '[' and out and out[-1].t == ')':
            o = match_open(out, len(out) - 1)
            if o >= 1 and out[o - 1].k == 'id' and out[o - 1].t in ctx.sigs and ctx.sigs[out[o - 1].t]['ret'] in classes \
                    and (ctx.sigs[out[o - 1].t]['ret'] + '_at') in ctx.sigs and (o < 2 or out[o - 2].t not in ('.', '->')):
                c = ctx.sigs[out[o - 1].t]['ret']
                e = match_close(toks, i)
                call = out[o - 1:]
                ws = call[0].ws; call[0].ws = ''
                del out[o - 1:]
                out.extend([P('(', ws), P('*', ''), Tok('id', 'NIX_NT_p', ''), P('(', ''), Tok('id', c + '_at', ''), P('(', ''), Tok('id', 'TMP_' + c, ''), P('(', '')])
                out.extend(call); out.extend([P(')', ''), P(',', '')]); out.extend(toks[i + 1:e]); out.extend([P(')', ''), P(')', ''), P(')', '')])
                i = e + 1; fire(ctx, 'class-index-call'); continue
        out.append(t); i += 1
    return out


def r_iterators(ctx, toks):
    """uses of an iterator IT that was initialised from V.begin() (now the index 'size_t IT = 0'):
       (*IT).m(args) / IT->m(args) -> Cls_m(&V.data[IT], args);  *IT -> V.data[IT];  IT ==/!= V.end() -> IT ==/!= V.n;
       ++IT / IT++ / --IT stay.  Any other use is refused."""
    iters = getattr(ctx, 'iters', None)
    if not iters:
        return toks
    out = []; i = 0; n = len(toks)
    def elem(it, ws=''):
        v = iters[it]; acc = '->' if ctx.env[v][1] else '.'
        return [Tok('id', v, ws), P(acc, ''), Tok('id', 'data', ''), P('[', ''), Tok('id', it, ''), P(']', '')]
    def cls_of_iter(it):
        return VEC_ELEM[ctx.env[iters[it]][0]]
    while i < n:
        t = toks[i]
        # ( * IT ) . m (
        if t.t == '(' and i + 6 < n and toks[i + 1].t == '*' and toks[i + 2].t in iters and toks[i + 3].t == ')' and toks[i + 4].t == '.' and toks[i + 5].k == 'id' and toks[i + 6].t == '(':
            it = toks[i + 2].t; e = match_close(toks, i + 6)
            out.append(Tok('id', resolve_overload(ctx, '%s_%s' % (cls_of_iter(it), toks[i + 5].t), toks[i + 7:e]), t.ws)); out.append(P('(', '')); out.append(P('&', '')); out.extend(elem(it))
            if e > i + 7: out.append(P(',', ''))
            i += 7; fire(ctx, 'method-call-iter'); continue
        # IT -> m (
        if t.k == 'id' and t.t in iters and i + 3 < n and toks[i + 1].t == '->' and toks[i + 2].k == 'id' and toks[i + 3].t == '(':
            it = t.t; e = match_close(toks, i + 3)
            out.append(Tok('id', resolve_overload(ctx, '%s_%s' % (cls_of_iter(it), toks[i + 2].t), toks[i + 4:e]), t.ws)); out.append(P('(', '')); out.append(P('&', '')); out.extend(elem(it))
            if e > i + 4: out.append(P(',', ''))
            i += 4; fire(ctx, 'method-call-iter'); continue
        # * IT   (prefix)
        if t.t == '*' and i + 1 < n and toks[i + 1].t in iters and (not out or (out[-1].k == 'punct' and out[-1].t not in (')', ']'))):
            out.extend(elem(toks[i + 1].t, t.ws)); i += 2; fire(ctx, 'iter-deref'); continue
        # IT != V . end ( )   /  IT == V . end ( )
        if t.k == 'id' and t.t in iters and i + 6 < n and toks[i + 1].t in ('!=', '==') and toks[i + 2].t == iters[t.t] and toks[i + 3].t == '.' \
                and toks[i + 4].t in ('end', 'begin', 'cend', 'cbegin') and toks[i + 5].t == '(' and toks[i + 6].t == ')':
            v = iters[t.t]; acc = '->' if ctx.env[v][1] else '.'
            out.extend([t, toks[i + 1]])
            if toks[i + 4].t in ('end', 'cend'):
                out.extend([Tok('id', v, ' '), P(acc, ''), Tok('id', 'n', '')])
            else:
                out.append(Tok('num', '0', ' '))
            i += 7; fire(ctx, 'iter-compare'); continue
        if t.k == 'id' and t.t in iters:
            prev = out[-1].t if out else ''
            nxt = toks[i + 1].t if i + 1 < n else ''
            if not (prev in ('++', '--', 'size_t') or nxt in ('++', '--')):
                raise ExtractError('iterator %s used in a way the iterator-as-index rule does not cover' % t.t)
        out.append(t); i += 1
    return out


def r_functor_calls(ctx, toks):
    """f(args) where f is a variable / parameter of a function-object type Cls with a C function Cls_call  ->  Cls_call(f, args)"""
    out = []; i = 0; n = len(toks)
    while i < n:
        t = toks[i]
        if t.k == 'id' and t.t in ctx.env and (ctx.env[t.t][0] + '_call') in ctx.sigs and i + 1 < n and toks[i + 1].t == '(' and (not out or out[-1].t not in ('.', '->')) \
                and not (out and out[-1].k == 'id' and out[-1].t == ctx.env[t.t][0]):
            e = match_close(toks, i + 1)
            out.append(Tok('id', ctx.env[t.t][0] + '_call', t.ws)); out.append(P('(', '')); out.extend(addr(ctx, t.t))
            if e > i + 2: out.append(P(',', ''))
            i += 2; fire(ctx, 'functor-call'); continue
        out.append(t); i += 1
    return out


def r_template_calls(ctx, toks):
    """f<T>(args)  with f listed in the unit's template_calls  ->  the C function named for that instantiation"""
    tc = ctx.unit.get('template_calls') or {}
    if not tc:
        return toks
    out = []; i = 0; n = len(toks)
    while i < n:
        t = toks[i]
        if t.k == 'id' and t.t in tc and i + 1 < n and toks[i + 1].t == '<':
            j = match_angle(toks, i + 1)
            key = ' '.join(x.t for x in toks[i + 2:j])
            if key not in tc[t.t] or toks[j + 1].t != '(':
                raise ExtractError('no C function for the instantiation %s<%s>' % (t.t, key))
            out.append(Tok('id', tc[t.t][key], t.ws)); i = j + 1; fire(ctx, 'template-call'); continue
        out.append(t); i += 1
    return out

def r_brace_temporaries(ctx, toks):
    """Cls{a, b}  (list-initialised temporary of a class with a C constructor function mk_Cls_brace_<n>)  ->  mk_Cls_brace_<n>(a, b)"""
    out = []; i = 0; n = len(toks)
    while i < n:
        t = toks[i]
        if t.k == 'id' and t.t in ctx.unit.get('classes', ()) and i + 1 < n and toks[i + 1].t == '{' and out and out[-1].t in ('(', ',', '=', 'return'):
            e = match_close(toks, i + 1)
            name = 'mk_%s_brace_%d' % (t.t, len(split_args(toks[i + 2:e])))
            if name in ctx.sigs:
                out.append(Tok('id', name, t.ws)); out.append(P('(', '')); out.extend(toks[i + 2:e]); out.append(P(')', ''))
                i = e + 1; fire(ctx, 'brace-temporary'); continue
        out.append(t); i += 1
    return out
