"""C13 dimension descriptors (kernel).  DESIGN.md section 7."""
from cxx2c import Tok, P
DA = 'include/nix/DataArray.hpp'; D = 'src/Dimensions.cpp'; DH = 'include/nix/Dimensions.hpp'
def drop_unsorted_caller(ctx, toks):
    """std::string caller = "..."; inside the unsorted-ticks branch is only the exception argument: dropped"""
    out = []; i = 0
    while i < len(toks):
        if toks[i].t == 'nstring' and i + 2 < len(toks) and toks[i + 1].t == 'caller' and toks[i + 2].t == '=':
            j = i
            while toks[j].t != ';': j += 1
            i = j + 1; continue
        out.append(toks[i]); i += 1
    return out
def ticks_backend_types(ctx, toks):
    """H5Group / DataSet / NDSize of this unit are the abstract records of c13_dims.h (H5GroupT, DataSetT, NDSize1 = a rank-1 extent)"""
    for t in toks:
        if t.k == 'id' and t.t == 'H5Group': t.t = 'H5GroupT'
        elif t.k == 'id' and t.t == 'DataSet': t.t = 'DataSetT'
        elif t.k == 'id' and t.t == 'NDSize': t.t = 'NDSize1'
    # NDSize extent(1, n);  (constructor: rank, fill value)  ->  NDSize1 extent = mk_NDSize1(1, n);
    out = []; i = 0
    while i < len(toks):
        if toks[i].t == 'NDSize1' and i + 2 < len(toks) and toks[i + 1].k == 'id' and toks[i + 2].t == '(':
            out.extend([toks[i], toks[i + 1], P('=', ' '), Tok('id', 'mk_NDSize1', ' ')]); i += 2; continue
        out.append(toks[i]); i += 1
    return out
UNITS = {
    'DataArray_appendSampledDimension': dict(file=DA, locator=r'SampledDimension\s+appendSampledDimension\s*\(', cls='DataArray', cls_file=DA,
                                             classes=['DataArray', 'SampledDimension', 'nstring'], extra_types=['SampledDimension']),
    'DataArray_appendRangeDimension': dict(file=DA, locator=r'RangeDimension\s+appendRangeDimension\s*\(', cls='DataArray', cls_file=DA,
                                           classes=['DataArray', 'RangeDimension', 'nstring'], extra_types=['RangeDimension']),
    'SampledDimension_samplingInterval_set': dict(file=D, locator=r'void\s+SampledDimension::samplingInterval\s*\((?=\s*double\s+interval)', cls='SampledDimensionF',
                                                  cls_decl='SampledDimension', cls_file=DH, classes=['SampledDimensionF']),
    'RangeDimension_ticks_set': dict(file=D, locator=r'void\s+RangeDimension::ticks\s*\((?=\s*const\s+std::vector<double>)', cls='RangeDimensionF',
                                     cls_decl='RangeDimension', cls_file=DH, classes=['RangeDimensionF'], post_rules=[drop_unsorted_caller]),
}
UNITS['DataArray_appendSetDimension'] = dict(file=DA, locator=r'SetDimension\s+appendSetDimension\s*\(', cls='DataArray', cls_file=DA, classes=['DataArray', 'SetDimension'], extra_types=['SetDimension'])
UNITS['DataArray_appendDataFrameDimension_col'] = dict(file=DA, locator=r'DataFrameDimension\s+appendDataFrameDimension\s*\((?=\s*const\s+DataFrame\s*&\s*frame\s*,\s*unsigned\s+column_index)', cls='DataArray', cls_file=DA,
    classes=['DataArray', 'DataFrameDimension', 'DataFrame'], extra_types=['DataFrameDimension'], calls={'createDataFrameDimension': 'createDataFrameDimension_col'})
UNITS['DataArray_appendDataFrameDimension_all'] = dict(file=DA, locator=r'DataFrameDimension\s+appendDataFrameDimension\s*\((?=\s*const\s+DataFrame\s*&\s*frame\s*\))', cls='DataArray', cls_file=DA,
    classes=['DataArray', 'DataFrameDimension', 'DataFrame'], extra_types=['DataFrameDimension'], calls={'createDataFrameDimension': 'createDataFrameDimension_all'})
UNITS['DataArrayHDF5_createDimensionGroup'] = dict(file='backend/hdf5/DataArrayHDF5.cpp', locator=r'H5Group\s+DataArrayHDF5::createDimensionGroup\s*\(',
    cls='DataArrayHDF5', cls_file='backend/hdf5/DataArrayHDF5.hpp', classes=['DataArrayHDF5', 'opt_H5Group', 'H5Group', 'nstring'],
    member_functors={'dimension_group': 'DataArrayHDF5_dimension_group'}, member_calls={'dimensionCount': 'DataArrayHDF5_dimensionCount'})
def dd_names(ctx, toks):
    """in deleteDimensions the group queries are the per-name ghosts of c13_delete.h"""
    for t in toks:
        if t.k == 'id' and t.t == 'opt_H5Group_hasGroup': t.t = 'dd_hasGroup'
        elif t.k == 'id' and t.t == 'opt_H5Group_removeGroup': t.t = 'dd_removeGroup'
    return toks
UNITS['DataArrayHDF5_deleteDimensions'] = dict(file='backend/hdf5/DataArrayHDF5.cpp', locator=r'bool\s+DataArrayHDF5::deleteDimensions\s*\(',
    cls='DataArrayHDF5', cls_file='backend/hdf5/DataArrayHDF5.hpp', classes=['DataArrayHDF5', 'opt_H5Group', 'H5Group', 'nstring'], post_rules=[dd_names], bounded_twin=True,
    member_functors={'dimension_group': 'dd_dimension_group'}, member_calls={'dimensionCount': 'DataArrayHDF5_dimensionCount'},
    loops={0: '__CPROVER_assigns(i, dim_id, gh_dd_found_j, gh_dd_removed_j, gh_dd_bad_removes)\n'
              '__CPROVER_loop_invariant(i <= gh_dim_count && gh_dd_bad_removes == 0 && gh_dd_removed_j <= 1 && gh_dd_found_j == ((ghost_j > i && ghost_j <= gh_dim_count) ? 1 : 0) && (!gh_dd_exists_j ==> gh_dd_removed_j == 0) && '
              '((ghost_j > i && ghost_j <= gh_dim_count && gh_dd_exists_j) ==> gh_dd_removed_j == 1) && ((ghost_j <= i || ghost_j > gh_dim_count) ==> gh_dd_removed_j == 0))\n'
              '__CPROVER_decreases(i)'})
UNITS['RangeDimensionHDF5_ticks_set'] = dict(file='backend/hdf5/DimensionHDF5.cpp', locator=r'void\s+RangeDimensionHDF5::ticks\s*\((?=\s*const\s+vector<double>)', cls='RangeDimensionHDF5',
    cls_file='backend/hdf5/DimensionHDF5.hpp', classes=['RangeDimensionHDF5', 'H5GroupT', 'DataSetT', 'NDSize1'], pre_rules=[ticks_backend_types])
def redirect_types(ctx, toks):
    for t in toks:
        if t.k == 'id' and t.t == 'H5Group': t.t = 'H5GroupR'
    return toks
UNITS['RangeDimensionHDF5r_redirectGroup'] = dict(file='backend/hdf5/DimensionHDF5.cpp', locator=r'H5Group\s+RangeDimensionHDF5::redirectGroup\s*\(', cls='RangeDimensionHDF5r', cls_decl='RangeDimensionHDF5',
    cls_file='backend/hdf5/DimensionHDF5.hpp', classes=['RangeDimensionHDF5r', 'H5GroupR', 'nstring'], pre_rules=[redirect_types], subst={'H5Group': 'H5GroupR'}, inherited_members=['group'], member_types={'group': 'H5GroupR'},
    ret_default='(H5GroupR){0}')
for _fn, _meth in (('RangeDimensionHDF5r_label_set', 'label'), ('RangeDimensionHDF5r_unit_set', 'unit')):
    UNITS[_fn] = dict(file='backend/hdf5/DimensionHDF5.cpp', locator=r'void\s+RangeDimensionHDF5::%s\s*\((?=\s*const\s+string\s*&)' % _meth, cls='RangeDimensionHDF5r', cls_decl='RangeDimensionHDF5',
        cls_file='backend/hdf5/DimensionHDF5.hpp', classes=['RangeDimensionHDF5r', 'H5GroupR', 'nstring'], pre_rules=[redirect_types], member_calls={'redirectGroup': 'RangeDimensionHDF5r_redirectGroup_rec'})
RDX = 'int gh_rd_opened, gh_rd_names_asked, gh_rd_redirects, gh_rd_setattrs, gh_rd_attr_is_label, gh_rd_attr_is_unit, gh_rd_attr_grp, gh_rd_redirect_answer; size_t gh_rd_attr_value;\n'
EXTRA = ('bool gh_group_exists; int gh_removed, gh_opened; ndsize_t gh_removed_name, gh_opened_name; bool gh_opened_create;\n''ndsize_t gh_dim_count; int gh_creates; ndsize_t gh_created_index; double gh_created_interval; const double *gh_created_ticks; size_t gh_created_ticks_n;\n'
         'int gh_offset_sets; double gh_offset_value; int gh_label_sets, gh_unit_sets; int gh_interval_sets; double gh_interval_value; int gh_ticks_sets; int gh_labels_sets; unsigned gh_created_column; int gh_created_with_column;\n'
         'int gh_bt_setdata, gh_bt_setdata_ticks_name, gh_bt_setextent, gh_bt_write, gh_bt_write_after_extent, gh_bt_opened, gh_bt_data; size_t gh_bt_extent_rank; ndsize_t gh_bt_extent_d0; const double *gh_bt_written; size_t gh_bt_written_n;\n')
def job(fn, **kw):
    d = dict(name=fn, bodies=[fn], enforce=[fn], replace=[], extra_c=EXTRA, expect_kinds=['postcondition'], timeout=300); d.update(kw); return d
JOBS = [job('DataArray_appendSetDimension'), job('DataArray_appendDataFrameDimension_col'), job('DataArray_appendDataFrameDimension_all'), job('DataArray_appendSampledDimension'), job('DataArray_appendRangeDimension', replace=['std_is_sorted_n']),
        job('DataArrayHDF5_createDimensionGroup'), job('SampledDimension_samplingInterval_set'), job('RangeDimension_ticks_set', replace=['std_is_sorted_n']), job('RangeDimensionHDF5_ticks_set'), job('RangeDimensionHDF5r_redirectGroup', extra_c=EXTRA + RDX), job('RangeDimensionHDF5r_label_set', extra_c=EXTRA + RDX), job('RangeDimensionHDF5r_unit_set', extra_c=EXTRA + RDX),
        job('DataArrayHDF5_deleteDimensions', includes=['c13_dims.h', 'c13_delete.h'], loop_contracts=True, expect_kinds=['postcondition', 'loop_invariant_base', 'loop_invariant_step'], extra_c=EXTRA + 'int gh_dd_exists_j, gh_dd_found_j, gh_dd_removed_j, gh_dd_bad_removes;\n'),
        job('DataArrayHDF5_deleteDimensions', name='DataArrayHDF5_deleteDimensions[bounded]', includes=['c13_dims.h', 'c13_delete.h'], defines=['NIX_NO_LOOP_CONTRACTS', 'C13D_BOUNDED=3'], cbmc_flags=['--unwind', '5', '--unwinding-assertions'],
            expect_kinds=['postcondition', 'unwind'], extra_c=EXTRA + 'int gh_dd_exists_j, gh_dd_found_j, gh_dd_removed_j, gh_dd_bad_removes;\n', bounded='at most 3 descriptors, loop unwound completely (twin without loop contract)')]
SPEC = dict(contracts=['c13_dims.h', 'c13_delete.h'], stubs=[], units=UNITS, jobs=JOBS,
            trusted_base=['CBMC 6.11.0 (C front end, --dfcc, SAT back end)', 'vlib/cxx2c.py idiom map',
                          'back end (DataArrayHDF5 / DimensionHDF5) replaced by a ghost record of what it was asked to store; assumed contract of std::is_sorted at ghost_k',
                          'front-end setters label()/unit()/offset() called on the new descriptor are stubs'],
            assumptions=['read-back after reopen, alias redirection (HDF5 hard link) and the data-frame dimension are not covered',
                         'descriptor count < 2^63'])
