"""C11 close releases the file (kernel).  DESIGN.md section 7."""
from cxx2c import Tok, P, tokenize, seq_at, match_close, fire
FH = 'backend/hdf5/FileHDF5.cpp'; FHH = 'backend/hdf5/FileHDF5.hpp'
def vec_hid_rule(ctx, toks):
    """std::vector<hid_t> objs(n);  ->  vec_hid objs = mk_vec_hid(n);   H5Object::close() -> H5Object_close(self)"""
    out = []; i = 0
    while i < len(toks):
        if seq_at(toks, i, ['vector', '<', 'hid_t', '>']) and toks[i + 4].k == 'id' and toks[i + 5].t == '(':
            e = match_close(toks, i + 5)
            out.extend(tokenize('%svec_hid %s = mk_vec_hid(' % (toks[i].ws, toks[i + 4].t))); out.extend(toks[i + 6:e]); out.append(P(')', ''))
            ctx.env[toks[i + 4].t] = ('vec_hid', False)
            i = e + 1; fire(ctx, 'vector-sized-ctor'); continue
        if seq_at(toks, i, ['H5Object', '::', 'close', '(', ')']):
            out.extend(tokenize('%sH5Object_close(self)' % toks[i].ws)); i += 5; fire(ctx, 'base-class-call'); continue
        out.append(toks[i]); i += 1
    return out
def objs_data(ctx, toks):
    out = []; i = 0
    while i < len(toks):
        if seq_at(toks, i, ['objs', '.', 'data', '(', ')']):
            out.extend(tokenize('%sobjs.data' % toks[i].ws)); i += 5; continue
        out.append(toks[i]); i += 1
    return out
import cxx2c
cxx2c.VEC_TYPES.add('vec_hid'); cxx2c.STRUCT_TYPES.add('vec_hid'); cxx2c.VEC_ELEM['vec_hid'] = 'hid_t'
LOOPS = {
 0: '__CPROVER_assigns(_i_obj, __CPROVER_object_whole(gh_ref))\n'
    '__CPROVER_loop_invariant(_i_obj <= objs.n && objs.n == (size_t)gh_obj_count)\n'
    '__CPROVER_loop_invariant(__CPROVER_forall { size_t q1; (q1 < H5_IDS) ==> (gh_ref[q1] >= 0 && gh_ref[q1] < 1000) })\n'
    '__CPROVER_loop_invariant(__CPROVER_forall { size_t q2; (q2 < H5_IDS) ==> (q2 < _i_obj ==> gh_ref[objs.data[q2]] == 0) })\n'
    '__CPROVER_loop_invariant(__CPROVER_forall { size_t q3; (q3 < H5_IDS) ==> (q3 < objs.n ==> (objs.data[q3] >= 0 && objs.data[q3] < H5_IDS)) })\n'
    '__CPROVER_decreases(objs.n - _i_obj)',
 1: '__CPROVER_assigns(j, gh_ref[obj])\n'
    '__CPROVER_loop_invariant(0 <= j && (ref_count <= 0 || (j <= ref_count && gh_ref[obj] == ref_count - j)))\n'
    '__CPROVER_decreases(ref_count - j)',
}
UNITS = {'FileHDF5_close': dict(file=FH, locator=r'void\s+FileHDF5::close\s*\(', cls='FileHDF5c', cls_decl='FileHDF5', cls_file=FHH,
                                classes=['FileHDF5c', 'H5GroupC'], member_types={'data': 'H5GroupC', 'metadata': 'H5GroupC', 'root': 'H5GroupC'},
                                member_calls={'isOpen': 'FileHDF5c_isOpen'}, inherited_members=['hid'], pre_rules=[vec_hid_rule], post_rules=[objs_data], loops=LOOPS)}
FF = dict(cls='FileF', cls_decl='File', cls_file='include/nix/File.hpp', classes=['FileF'], inherited_methods=['isNone', 'nullify'], member_calls={'isNone': 'FileF_isNone', 'nullify': 'FileF_nullify', 'fileMode': 'FileF_fileMode', 'isOpen': 'FileF_isOpen'})
FB = dict(cls='FileHDF5f', cls_decl='FileHDF5', cls_file=FHH, classes=['FileHDF5f', 'HErr', 'H5GroupR'], inherited_members=['hid'], inherited_methods=['isValid'], member_types={'root': 'H5GroupR', 'data': 'H5GroupR', 'metadata': 'H5GroupR'},
          member_calls={'isValid': 'FileHDF5f_isValid', 'close': 'FileHDF5f_close', 'fileMode': 'FileHDF5f_fileMode'})
UNITS.update({
    'File_flush': dict(FF, file='src/File.cpp', locator=r'bool\s+File::flush\s*\('),
    'File_close': dict(FF, file='src/File.cpp', locator=r'void\s+File::close\s*\('),
    'FileHDF5_flush': dict(FB, file=FH, locator=r'bool\s+FileHDF5::flush\s*\('),
    'FileHDF5_isOpen': dict(FB, file=FH, locator=r'bool\s+FileHDF5::isOpen\s*\('),
    'FileHDF5_dtor': dict(FB, file=FH, locator=r'FileHDF5::~FileHDF5\s*\(', ctor=True),
})
SMALL_EXTRA = ('int gh_be_flushes, gh_be_flush_result, gh_be_closes, gh_nullified, gh_closes_at_nullify; int gh_h5_flushes, gh_h5_flush_err, gh_h5_flush_scope, gh_close_calls; hid_t gh_h5_flush_id;\n')
EXTRA = ('int gh_ref[H5_IDS]; bool gh_is_open; ssize_t gh_obj_count, gh_ids_result; hid_t gh_listed[H5_IDS];\n'
         'int gh_group_closes, gh_file_closes; int gh_ref_k_at_file_close; int gh_group_closes_at_file_close;\n')
JOBS = [dict(name='FileHDF5_close', bodies=['FileHDF5_close'], enforce=['FileHDF5_close'], replace=[], extra_c=EXTRA, loop_contracts=True,
             cbmc_flags=['--unwind', '9', '--unwinding-assertions'], expect_kinds=['postcondition', 'loop_invariant_step'], timeout=900)]
JOBS += [dict(name=fn, bodies=[fn], enforce=[fn], replace=[], includes=['c11_small.h'], extra_c=SMALL_EXTRA, expect_kinds=['postcondition'], timeout=300)
         for fn in ('File_flush', 'File_close', 'FileHDF5_flush', 'FileHDF5_isOpen', 'FileHDF5_dtor')]
def has_rules(ctx, toks):
    """name.c_str() -> name (abstract string);  res.check("message" [+ ...]) keeps the literal only"""
    from cxx2c import seq_at, match_close
    out = []; i = 0
    while i < len(toks):
        if toks[i].k == 'id' and seq_at(toks, i + 1, ['.', 'c_str', '(', ')']):
            out.append(toks[i]); i += 5; continue
        out.append(toks[i]); i += 1
    return out
UNITS['H5Group_hasObject'] = dict(file='backend/hdf5/h5x/H5Group.cpp', locator=r'bool\s+H5Group::hasObject\s*\(', cls='H5Group', cls_file='backend/hdf5/h5x/H5Group.hpp', classes=['H5Group', 'nstring', 'HTri'],
                                  inherited_members=['hid'], pre_rules=[has_rules])
JOBS.append(dict(name='H5Group_hasObject', bodies=['H5Group_hasObject'], enforce=['H5Group_hasObject'], replace=[], includes=['c11_has.h'], extra_c='int gh_exists_answer, gh_exists_calls, gh_exists_name; long gh_exists_hid;\n',
                 expect_kinds=['postcondition'], timeout=300))
SPEC = dict(contracts=['c11_close.h', 'c11_small.h', 'c11_has.h'], stubs=[], include_order=['c11_close.h'], units=UNITS, jobs=JOBS,
            trusted_base=['CBMC 6.11.0 (C front end, --dfcc, loop contracts, SAT back end)', 'vlib/cxx2c.py idiom map',
                          'libhdf5 identifier table modelled as a ghost array of 64 reference counts: H5Fget_obj_count / H5Fget_obj_ids / H5Iget_ref / H5Oclose are definitional stubs written from the HDF5 manual'],
            assumptions=['at most 64 open identifiers (size of the ghost table; the loops themselves are closed by loop contracts)',
                         'durability of flush/close, SIGKILL, reopening by another process and the behaviour of stale entity handles beyond H5Group::hasObject (an error answer of libhdf5 raises) are not covered'])
