"""C03 unique names (kernel): the front-end gates of C08 read as the inductive step of name uniqueness, plus queries / deletions by handle.  DESIGN.md 12."""
import props.c08 as c08
from cxx2c import Tok, P, seq_at, fire, tokenize
def none_cmp(ctx, toks):
    """X == none  with X a class-typed handle -> Cls_isNone(X)"""
    out = []; i = 0
    while i < len(toks):
        t = toks[i]
        if t.k == 'id' and t.t in ctx.env and (ctx.env[t.t][0] + '_isNone') in ctx.sigs and (seq_at(toks, i + 1, ['==', 'none']) or seq_at(toks, i + 1, ['==', 'OPT_NONE'])):
            out.extend(tokenize('%s%s_isNone(%s%s)' % (t.ws, ctx.env[t.t][0], '' if ctx.env[t.t][1] else '&', t.t))); i += 3; fire(ctx, 'none-compare'); continue
        out.append(t); i += 1
    return out
HDR = {'File': ('src/File.cpp', 'include/nix/File.hpp'), 'Block': ('src/Block.cpp', 'include/nix/Block.hpp'), 'Source': ('src/Source.cpp', 'include/nix/Source.hpp'),
       'Section': ('src/Section.cpp', 'include/nix/Section.hpp')}
def byh(cls, meth, arg, **kw):
    f, h = HDR[cls]
    d = dict(file=f, cls=cls, cls_file=h, classes=c08.CL, locator=r'bool\s+%s::%s\s*\((?=\s*const\s+%s\s*&)' % (cls, meth, arg), calls={'checkEntityInput': 'checkEntityInput_' + arg}, post_rules=[none_cmp])
    d.update(kw); return d
HUNITS = {
    'File_hasBlock_h': byh('File', 'hasBlock', 'Block'), 'File_deleteBlock_h': byh('File', 'deleteBlock', 'Block'),
    'File_hasSection_h': byh('File', 'hasSection', 'Section'), 'File_deleteSection_h': byh('File', 'deleteSection', 'Section', member_calls={'deleteSection': 'File_deleteSection_key'}),
    'Block_deleteSource_h': byh('Block', 'deleteSource', 'Source'),
    'Source_hasSource_h': byh('Source', 'hasSource', 'Source'), 'Source_deleteSource_h': byh('Source', 'deleteSource', 'Source'),
    'Section_hasSection_h': byh('Section', 'hasSection', 'Section'), 'Section_deleteSection_h': byh('Section', 'deleteSection', 'Section'),
    'Section_hasProperty_h': byh('Section', 'hasProperty', 'Property'), 'Section_deleteProperty_h': byh('Section', 'deleteProperty', 'Property'),
}
RUNITS = {'BlockHDF5_findEntityGroup': dict(file='backend/hdf5/BlockHDF5.cpp', locator=r'boost::optional<H5Group>\s+BlockHDF5::findEntityGroup\s*\(', cls='BlockHDF5', cls_file='backend/hdf5/BlockHDF5.hpp',
            classes=['nstring', 'H5Group', 'Identity', 'BlockHDF5'], member_calls={'groupForObjectType': 'BlockHDF5_groupForObjectType_1'}, ret_default='OPT_NONE_H5Group')}
RUNITS['GroupHDF5_findEntityGroup'] = dict(file='backend/hdf5/GroupHDF5.cpp', locator=r'boost::optional<H5Group>\s+GroupHDF5::findEntityGroup\s*\(', cls='GroupHDF5', cls_file='backend/hdf5/GroupHDF5.hpp',
            classes=['nstring', 'H5Group', 'Identity', 'GroupHDF5'], member_calls={'groupForObjectType': 'GroupHDF5_groupForObjectType_1'}, ret_default='OPT_NONE_H5Group',
            calls={'findGroupByAttribute': 'findGroupByAttribute_g', 'getAttr': 'getAttr_g'})
RUNITS['H5Group_findGroupByNameOrAttribute'] = dict(file='backend/hdf5/h5x/H5Group.cpp', locator=r'boost::optional<H5Group>\s+H5Group::findGroupByNameOrAttribute\s*\(', cls='H5Group', cls_file='backend/hdf5/h5x/H5Group.hpp',
            classes=['nstring', 'H5Group'], member_calls={'hasObject': 'H5Group_hasObject_m', 'openGroup': 'H5Group_openGroup', 'findGroupByAttribute': 'H5Group_findGroupByAttribute_m'}, ret_default='OPT_NONE_H5Group')
def name_from_cstr(ctx, toks):
    """str_name = name;  (std::string assigned from the char buffer)  ->  nstring_assign_cstr(&str_name, name);"""
    out = []; i = 0
    while i < len(toks):
        if seq_at(toks, i, ['str_name', '=', 'name', ';']):
            out.extend(tokenize('%snstring_assign_cstr(&str_name, name)' % toks[i].ws)); i += 3; fire(ctx, 'string-assign-cstr'); continue
        out.append(toks[i]); i += 1
    return out
IUNITS = {'H5Group_objectName': dict(file='backend/hdf5/h5x/H5Group.cpp', locator=r'std::string\s+H5Group::objectName\s*\(', cls='H5Group', cls_file='backend/hdf5/h5x/H5Group.hpp', classes=['H5Group', 'nstring'],
                                     inherited_members=['hid'], pre_rules=[name_from_cstr], ret_default='(nstring){0}')}
UNITS = dict(c08.GATE_UNITS); UNITS.update(IUNITS); UNITS.update(HUNITS); UNITS.update(RUNITS)
EXTRA = c08.EXTRA + 'bool gh_delete_answer;\n'
JOBS = [dict(j, extra_c=EXTRA) for j in c08.GATE_JOBS] + [dict(name=fn, bodies=[fn], enforce=[fn], replace=[], extra_c=EXTRA, expect_kinds=['postcondition'], timeout=300) for fn in HUNITS]
REXTRA = 'int gh_container_present; int gh_name2grp[RS_IDS], gh_eid2grp[RS_IDS], gh_geid[RS_GRPS], gh_gname[RS_GRPS]; int gh_attr2grp[RS_IDS], gh_gattr[RS_GRPS]; int gh_uuid_shaped[RS_IDS]; int gh_scan_attr;\n'
JOBS.append(dict(name='BlockHDF5_findEntityGroup', bodies=['BlockHDF5_findEntityGroup'], enforce=['BlockHDF5_findEntityGroup'], replace=[], extra_c=REXTRA, includes=['c03_resolve.h'],
                 expect_kinds=['postcondition'], timeout=300))
JOBS.append(dict(name='GroupHDF5_findEntityGroup', bodies=['GroupHDF5_findEntityGroup'], enforce=['GroupHDF5_findEntityGroup'], replace=[], extra_c=REXTRA, includes=['c03_resolve.h'],
                 expect_kinds=['postcondition'], timeout=300))
JOBS.append(dict(name='H5Group_findGroupByNameOrAttribute', bodies=['H5Group_findGroupByNameOrAttribute'], enforce=['H5Group_findGroupByNameOrAttribute'], replace=[], extra_c=REXTRA, includes=['c03_resolve.h'],
                 expect_kinds=['postcondition'], timeout=300))
JOBS.append(dict(name='H5Group_objectName', bodies=['H5Group_objectName'], enforce=['H5Group_objectName'], replace=[], includes=['c03_index.h'],
                 extra_c='long gh_len_crt, gh_len_alpha; int gh_calls, gh_first_type, gh_first_order, gh_fetch_type, gh_fetch_order, gh_fetches, gh_written; hsize_t gh_first_index, gh_fetch_index; size_t gh_fetch_size;\n',
                 expect_kinds=['postcondition'], timeout=300, object_bits=8))
SPEC = dict(c08.SPEC, contracts=['nd.h', 'c08_gate.h', 'c03_handle.h', 'c03_resolve.h', 'c03_index.h'],  include_order=['nd.h', 'c08_gate.h', 'c03_handle.h'], units=UNITS, jobs=JOBS)
SPEC['assumptions'] = ['KERNEL ONLY: decided are (1) the step "create refuses a name the back end reports as existing and hands only legal, not yet existing names to the create primitive, exactly once" '
                       'for File::createBlock/createSection, Block::createSource/DataArray/Tag/MultiTag/Group, Source::createSource, Section::createSection/createProperty, and (2) that has / delete BY HANDLE '
                       '(File::hasBlock/deleteBlock/hasSection/deleteSection, Block::deleteSource, Source::hasSource/deleteSource, Section::hasSection/deleteSection/hasProperty/deleteProperty) resolve the handle by its id; '
                       'agreement of name / id / index lookups inside the back end, counts, creation order, order after delete and reopen are HDF5 link-table facts and NOT covered',
                       'Block::createDataFrame and the by-handle queries defined in headers (Block::has*(const X&), Group, Tag references) are not under contract']

SPEC['assumptions'] = list(SPEC.get('assumptions', [])) + ['session 3: H5Group::objectName - H5Lget_name_by_idx is a ghost that answers per (index type, order): ASSUMED that libhdf5 reports the link in the order it is asked for; Block::createDataFrame - std::set<std::string>::insert and Variant::supports_type are ghosts that answer arbitrarily']
