"""C03 unique names (kernel): the front-end gates of C08 read as the inductive step of name uniqueness, plus queries / deletions by handle.  DESIGN.md 12."""
import props.c08 as c08
from cxx2c import Tok, P, seq_at, fire, tokenize
def none_cmp(ctx, toks):
    """X == none  with X a class-typed handle -> Cls_isNone(X)"""
    out = []; i = 0
    while i < len(toks):
        t = toks[i]
        if t.k == 'id' and t.t in ctx.env and (ctx.env[t.t][0] + '_isNone') in ctx.sigs and (seq_at(toks, i + 1, ['==', 'none']) or seq_at(toks, i + 1, ['==', 'OPT_NONE'])):
            out.extend(tokenize('%s%s_isNone(%s%s)' % (t.ws, ctx.env[t.t][0], '' if ctx.env[t.t][1] else '&', t.t))); i += 3; fire(ctx, 'none-compare'); continue
        out.append(t); i += 1
    return out
HDR = {'File': ('src/File.cpp', 'include/nix/File.hpp'), 'Block': ('src/Block.cpp', 'include/nix/Block.hpp'), 'Source': ('src/Source.cpp', 'include/nix/Source.hpp'),
       'Section': ('src/Section.cpp', 'include/nix/Section.hpp')}
def byh(cls, meth, arg, **kw):
    f, h = HDR[cls]
    d = dict(file=f, cls=cls, cls_file=h, classes=c08.CL, locator=r'bool\s+%s::%s\s*\((?=\s*const\s+%s\s*&)' % (cls, meth, arg), calls={'checkEntityInput': 'checkEntityInput_' + arg}, post_rules=[none_cmp])
    d.update(kw); return d
HUNITS = {
    'File_hasBlock_h': byh('File', 'hasBlock', 'Block'), 'File_deleteBlock_h': byh('File', 'deleteBlock', 'Block'),
    'File_hasSection_h': byh('File', 'hasSection', 'Section'), 'File_deleteSection_h': byh('File', 'deleteSection', 'Section', member_calls={'deleteSection': 'File_deleteSection_key'}),
    'Block_deleteSource_h': byh('Block', 'deleteSource', 'Source'),
    'Source_hasSource_h': byh('Source', 'hasSource', 'Source'), 'Source_deleteSource_h': byh('Source', 'deleteSource', 'Source'),
    'Section_hasSection_h': byh('Section', 'hasSection', 'Section'), 'Section_deleteSection_h': byh('Section', 'deleteSection', 'Section'),
    'Section_hasProperty_h': byh('Section', 'hasProperty', 'Property'), 'Section_deleteProperty_h': byh('Section', 'deleteProperty', 'Property'),
}
UNITS = dict(c08.UNITS); UNITS.update(HUNITS)
EXTRA = c08.EXTRA + 'bool gh_delete_answer;\n'
JOBS = [dict(j, extra_c=EXTRA) for j in c08.JOBS] + [dict(name=fn, bodies=[fn], enforce=[fn], replace=[], extra_c=EXTRA, expect_kinds=['postcondition'], timeout=300) for fn in HUNITS]
SPEC = dict(c08.SPEC, contracts=['nd.h', 'c08_gate.h', 'c03_handle.h'], include_order=['nd.h', 'c08_gate.h', 'c03_handle.h'], units=UNITS, jobs=JOBS)
SPEC['assumptions'] = ['KERNEL ONLY: decided are (1) the step "create refuses a name the back end reports as existing and hands only legal, not yet existing names to the create primitive, exactly once" '
                       'for File::createBlock/createSection, Block::createSource/DataArray/Tag/MultiTag/Group, Source::createSource, Section::createSection/createProperty, and (2) that has / delete BY HANDLE '
                       '(File::hasBlock/deleteBlock/hasSection/deleteSection, Block::deleteSource, Source::hasSource/deleteSource, Section::hasSection/deleteSection/hasProperty/deleteProperty) resolve the handle by its id; '
                       'agreement of name / id / index lookups inside the back end, counts, creation order, order after delete and reopen are HDF5 link-table facts and NOT covered',
                       'Block::createDataFrame and the by-handle queries defined in headers (Block::has*(const X&), Group, Tag references) are not under contract']
