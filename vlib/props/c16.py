"""C16 no undefined behaviour (kernel).  Layer (a): functions under contract for the other properties, re-verified with
type-invariant-only preconditions (every bit pattern a C++ caller can pass); layer (b): dedicated units."""
import props.c07 as c07, props.c10 as c10
from props.nd_units import ND_UNITS, ND_JOBS, ND_TRUST
UNITS = {k: c07.UNITS[k] for k in ('toIndex', 'getDataFrameIndex', 'getSetIndex', 'getIndex', 'getSampledIndex')}
UNITS.update(ND_UNITS)
UNITS.update({k: c10.UNITS[k] for k in ('FormatVersion_index', 'FormatVersion_lt')})
JOBS = [
    dict(name='toIndex', bodies=['toIndex'], enforce=['toIndex'], expect_kinds=['postcondition'], timeout=300),
    dict(name='getDataFrameIndex[all doubles]', bodies=['getDataFrameIndex'], enforce=['getDataFrameIndex'], defines=['C16_SAFETY'], covers=['COVER-has', 'COVER-none'], timeout=600),
    dict(name='getSetIndex[all doubles]', bodies=['getSetIndex'], enforce=['getSetIndex'], defines=['C16_SAFETY'], covers=['COVER-has', 'COVER-none'], timeout=600),
    dict(name='getIndex[any ticks]', bodies=['getIndex'], enforce=['getIndex'], replace=['std_lower_bound_idx'], timeout=600),
    dict(name='getSampledIndex[all doubles,s=1,o=0]', bodies=['getSampledIndex'], enforce=['getSampledIndex'], defines=['S_INT=1.0', 'S_OFF=0.0', 'SAX_SAFETY_ONLY'], timeout=900),
    dict(name='getSampledIndex[all doubles,s=0.1,o=-0.7]', bodies=['getSampledIndex'], enforce=['getSampledIndex'], defines=['S_INT=0.1', 'S_OFF=(-0.7)', 'SAX_SAFETY_ONLY'], timeout=900, tiers=('thorough',)),
]
# NDSize: every size_t index, every rank the type invariant allows, aliasing operands
JOBS += [j for j in ND_JOBS if 'rank=' not in j['name']]
JOBS += [j for j in c10.JOBS if j['name'] in ('FormatVersion_index', 'FormatVersion_lt')]
from cxx2c import Tok, P, fire, match_close
def string_from_cstr(ctx, toks):
    """data[i] = EXPR;  with data a pointer to std::string and EXPR of type char*  ->  nstring_assign_cstr(&data[i], EXPR);   (std::string::operator=(const char*))"""
    out = []; i = 0
    while i < len(toks):
        t = toks[i]
        if t.k == 'id' and t.t in ctx.env and ctx.env[t.t] == ('nstring', True) and toks[i + 1].t == '[' and (not out or out[-1].t in (';', '{', '}')):
            e = match_close(toks, i + 1)
            if toks[e + 1].t == '=':
                j = e + 2
                while toks[j].t != ';': j += 1
                out.extend([Tok('id', 'nstring_assign_cstr', t.ws), P('(', ''), P('&', '')] + toks[i:e + 1] + [P(',', '')] + toks[e + 2:j] + [P(')', '')])
                i = j; fire(ctx, 'string-assign-cstr'); continue
        out.append(t); i += 1
    return out
UNITS['string_writer_finish_elem'] = dict(file='backend/hdf5/h5x/H5Object.hpp', locator=r'void\s+finish\s*\(', classes=['nstring'], pre_rules=[string_from_cstr],
    region=dict(start=r'data\[i\]\s*=', end=r';(?=\s*\}\s*\})', params=[('std::string *', 'data'), ('char **', 'buffer'), ('ndsize_t', 'i')]))
JOBS.append(dict(name='string_writer_finish_elem', bodies=['string_writer_finish_elem'], enforce=['string_writer_finish_elem'], replace=[], includes=['c16_strings.h'], expect_kinds=['postcondition'], timeout=300))
SPEC = dict(new_safety_failures_are_violations=True, contracts=['c07_leaf.h', 'nd.h', 'c10_version.h', 'c16_strings.h'], stubs=['std_algo.h'], include_order=['c07_leaf.h', 'nd.h', 'c10_version.h', 'std_algo.h'], units=UNITS, jobs=JOBS,
            trusted_base=c07.SPEC['trusted_base'] + ND_TRUST,
            assumptions=['type invariants only: enum parameters hold an enumerator, vectors have at most 2^20 elements, NDSize rank <= 32 with dims of exactly rank elements',
                         'sampled axis: interval and offset are grid constants (symbolic division does not terminate); the position is any double',
                         'NOT covered: sequences of API calls, handle lifetimes, libhdf5 internals, operator new failure'])
