"""C16 no undefined behaviour (kernel).  Layer (a): the functions under contract for the other properties, re-verified
with type-invariant-only preconditions (every bit pattern a C++ caller can pass); layer (b): dedicated units."""
import props.c07 as c07
UNITS = {k: c07.UNITS[k] for k in ('getDataFrameIndex', 'getSetIndex', 'getIndex', 'getSampledIndex')}
JOBS = [
    dict(name='getDataFrameIndex[all doubles]', bodies=['getDataFrameIndex'], enforce=['getDataFrameIndex'], defines=['C16_SAFETY'], covers=['COVER-has', 'COVER-none'], timeout=600),
    dict(name='getSetIndex[all doubles]', bodies=['getSetIndex'], enforce=['getSetIndex'], defines=['C16_SAFETY'], covers=['COVER-has', 'COVER-none'], timeout=600),
    dict(name='getIndex[any ticks]', bodies=['getIndex'], enforce=['getIndex'], replace=['std_lower_bound_idx'], timeout=600),
]
SPEC = dict(contracts=['c07_leaf.h'], stubs=['std_algo.h'], units=UNITS, jobs=JOBS,
            trusted_base=c07.SPEC['trusted_base'], assumptions=['type invariants only: enum parameters hold an enumerator, vectors have at most 2^20 elements'])
