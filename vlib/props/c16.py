"""C16 no undefined behaviour (kernel).  Layer (a): functions under contract for the other properties, re-verified with
type-invariant-only preconditions (every bit pattern a C++ caller can pass); layer (b): dedicated units."""
import props.c07 as c07, props.c10 as c10
from props.nd_units import ND_UNITS, ND_JOBS, ND_TRUST
UNITS = {k: c07.UNITS[k] for k in ('toIndex', 'getDataFrameIndex', 'getSetIndex', 'getIndex', 'getSampledIndex')}
UNITS.update(ND_UNITS)
UNITS.update({k: c10.UNITS[k] for k in ('FormatVersion_index', 'FormatVersion_lt')})
JOBS = [
    dict(name='toIndex', bodies=['toIndex'], enforce=['toIndex'], expect_kinds=['postcondition'], timeout=300),
    dict(name='getDataFrameIndex[all doubles]', bodies=['getDataFrameIndex'], enforce=['getDataFrameIndex'], defines=['C16_SAFETY'], covers=['COVER-has', 'COVER-none'], timeout=600),
    dict(name='getSetIndex[all doubles]', bodies=['getSetIndex'], enforce=['getSetIndex'], defines=['C16_SAFETY'], covers=['COVER-has', 'COVER-none'], timeout=600),
    dict(name='getIndex[any ticks]', bodies=['getIndex'], enforce=['getIndex'], replace=['std_lower_bound_idx'], timeout=600),
    dict(name='getSampledIndex[all doubles,s=1,o=0]', bodies=['getSampledIndex'], enforce=['getSampledIndex'], defines=['S_INT=1.0', 'S_OFF=0.0', 'SAX_SAFETY_ONLY'], timeout=900),
    dict(name='getSampledIndex[all doubles,s=0.1,o=-0.7]', bodies=['getSampledIndex'], enforce=['getSampledIndex'], defines=['S_INT=0.1', 'S_OFF=(-0.7)', 'SAX_SAFETY_ONLY'], timeout=900, tiers=('thorough',)),
]
# NDSize: every size_t index, every rank the type invariant allows, aliasing operands
JOBS += [j for j in ND_JOBS if 'rank=' not in j['name']]
JOBS += [j for j in c10.JOBS if j['name'] in ('FormatVersion_index', 'FormatVersion_lt')]
from cxx2c import Tok, P, fire, match_close, ExtractError
def string_from_cstr(ctx, toks):
    """data[i] = EXPR;  with data a pointer to std::string and EXPR of type char*  ->  nstring_assign_cstr(&data[i], EXPR);   (std::string::operator=(const char*))"""
    out = []; i = 0
    while i < len(toks):
        t = toks[i]
        if t.k == 'id' and t.t in ctx.env and ctx.env[t.t] == ('nstring', True) and toks[i + 1].t == '[' and (not out or out[-1].t in (';', '{', '}')):
            e = match_close(toks, i + 1)
            if toks[e + 1].t == '=':
                j = e + 2
                while toks[j].t != ';': j += 1
                out.extend([Tok('id', 'nstring_assign_cstr', t.ws), P('(', ''), P('&', '')] + toks[i:e + 1] + [P(',', '')] + toks[e + 2:j] + [P(')', '')])
                i = j; fire(ctx, 'string-assign-cstr'); continue
        out.append(t); i += 1
    return out
UNITS['string_writer_finish_elem'] = dict(file='backend/hdf5/h5x/H5Object.hpp', locator=r'void\s+finish\s*\(', classes=['nstring'], pre_rules=[string_from_cstr],
    region=dict(start=r'data\[i\]\s*=', end=r';(?=\s*\}\s*\})', params=[('std::string *', 'data'), ('char **', 'buffer'), ('ndsize_t', 'i')]))
JOBS.append(dict(name='string_writer_finish_elem', bodies=['string_writer_finish_elem'], enforce=['string_writer_finish_elem'], replace=[], includes=['c16_strings.h'], expect_kinds=['postcondition'], timeout=300))
def shared_ptrs(ctx, toks):
    """std::shared_ptr<FeatureHDF5> / <IFeature> -> FeatureP;  std::shared_ptr<base::IDataArray> -> DataArrayP;  std::make_shared<FeatureHDF5>(file(), block(), G) -> mk_FeatureP(G);
       P->name() == KEY / P->id() == KEY  (string comparison through the pointer) -> P.name_is(KEY) / P.id_is(KEY);  OPT.get() -> *OPT"""
    from cxx2c import seq_at, tokenize, split_args
    MAP = {'FeatureHDF5': 'FeatureP', 'IFeature': 'FeatureP', 'IDataArray': 'DataArrayP'}
    out = []; i = 0
    def skipq(k):
        while k and out[k - 1].t in ('std', '::', 'base'): k -= 1
        return k
    while i < len(toks):
        t = toks[i]
        if t.t == 'shared_ptr' and toks[i + 1].t == '<':
            j = i + 2
            while toks[j].t != '>': j += 1
            ty = MAP.get(toks[j - 1].t)
            if not ty: raise ExtractError('shared_ptr of unknown class %s' % toks[j - 1].t)
            k = skipq(len(out)); ws = out[k].ws if k < len(out) else t.ws; del out[k:]
            out.append(Tok('id', ty, ws)); i = j + 1; fire(ctx, 'shared-ptr-handle'); continue
        if t.t == 'make_shared' and toks[i + 1].t == '<':
            j = i + 2
            while toks[j].t != '>': j += 1
            e = match_close(toks, j + 1)
            args = split_args(toks[j + 2:e])
            k = skipq(len(out)); ws = out[k].ws if k < len(out) else t.ws; del out[k:]
            out.extend(tokenize('%smk_FeatureP(' % ws)); out.extend(args[-1]); out.append(P(')', '')); i = e + 1; fire(ctx, 'make-shared'); continue
        if t.k == 'id' and seq_at(toks, i + 1, ['->', 'name', '(', ')', '==']) or t.k == 'id' and seq_at(toks, i + 1, ['->', 'id', '(', ')', '==']):
            which = toks[i + 2].t
            out.extend(tokenize('%s%s.%s_is(%s)' % (t.ws, t.t, which, toks[i + 6].t))); i += 7; fire(ctx, 'string-compare-through-pointer'); continue
        out.append(t); i += 1
    toks = out; out = []; i = 0
    while i < len(toks):
        t = toks[i]
        if t.k == 'id' and seq_at(toks, i + 1, ['.', 'get', '(', ')']) and t.t in ('group',):
            out.extend(tokenize('%s(*%s)' % (t.ws, t.t))); i += 5; fire(ctx, 'optional-get'); continue
        out.append(t); i += 1
    return out
def cstr_calls(ctx, toks):
    """std::strlen(x) -> c_strlen(x) (ghost with the C library's non-null precondition);  set(value, n) (the two-argument overload) -> set_len(value, n)"""
    out = []; i = 0
    while i < len(toks):
        t = toks[i]
        if t.t == 'strlen' and toks[i + 1].t == '(':
            k = len(out)
            while k and out[k - 1].t in ('std', '::'): k -= 1
            ws = out[k].ws if k < len(out) else t.ws
            del out[k:]; out.append(Tok('id', 'c_strlen', ws)); i += 1; fire(ctx, 'strlen-ghost'); continue
        if t.t == 'set' and toks[i + 1].t == '(' and (not out or out[-1].t not in ('.', '->', '::')):
            out.append(Tok('id', 'set_len', t.ws)); i += 1; fire(ctx, 'set-overload'); continue
        out.append(t); i += 1
    return out
UNITS['Variant_set_cstr_front'] = dict(file='src/Variant.cpp', locator=r'void\s+Variant::set\s*\((?=\s*const\s+char\s*\*\s*value\s*\))', cls='Variant', cls_file='include/nix/Variant.hpp', classes=['Variant'],
    pre_rules=[cstr_calls], inherited_methods=['set_len'])
CSX = 'size_t gh_strlen_result, gh_set_len; int gh_set_calls, gh_strlen_calls; const char *gh_set_value;\n'
JOBS.append(dict(name='Variant_set_cstr_front', bodies=['Variant_set_cstr_front'], enforce=['Variant_set_cstr_front'], replace=[], includes=['c16_cstr.h'], extra_c=CSX, expect_kinds=['postcondition'], timeout=300))
UNITS['DataFrameDimensionHDF5_checkColumnIndex'] = dict(file='backend/hdf5/DimensionHDF5.cpp', locator=r'boost::optional<unsigned>\s+DataFrameDimensionHDF5::checkColumnIndex\s*\(', cls='DataFrameDimensionHDF5',
    cls_file='backend/hdf5/DimensionHDF5.hpp', classes=['DataFrameDimensionHDF5', 'DataFrame', 'Column'], ret_default='OPT_NONE_unsigned')
JOBS.append(dict(name='DataFrameDimensionHDF5_checkColumnIndex', bodies=['DataFrameDimensionHDF5_checkColumnIndex'], enforce=['DataFrameDimensionHDF5_checkColumnIndex'], replace=[], includes=['c16_column.h'],
                 extra_c='opt_unsigned gh_own_column; size_t gh_ncols;\n', expect_kinds=['postcondition'], timeout=300))
BT = 'backend/hdf5/BaseTagHDF5.cpp'; BTH = 'backend/hdf5/BaseTagHDF5.hpp'
FCL = ['BaseTagHDF5', 'H5Group', 'FeatureP', 'DataArrayP', 'nstring']
UNITS['BaseTagHDF5_getFeature_key'] = dict(file=BT, locator=r'std::shared_ptr<IFeature>\s+BaseTagHDF5::getFeature\s*\((?=\s*const\s+std::string)', cls='BaseTagHDF5', cls_file=BTH, classes=FCL, pre_rules=[shared_ptrs],
    member_functors={'feature_group': 'BaseTagHDF5_feature_group'}, bounded_twin=True,
    loops={0: '__CPROVER_assigns(i, feature)\n__CPROVER_loop_invariant(i <= gh_nfeat && feature.null == 1 && (ghost_k < i ==> !FT_MATCH(ghost_k)))\n__CPROVER_decreases(gh_nfeat - i)'})
UNITS['BaseTagHDF5_getFeature_index'] = dict(file=BT, locator=r'std::shared_ptr<IFeature>\s+BaseTagHDF5::getFeature\s*\((?=\s*ndsize_t\s+index)', cls='BaseTagHDF5', cls_file=BTH, classes=FCL, pre_rules=[shared_ptrs],
    member_functors={'feature_group': 'BaseTagHDF5_feature_group'}, member_calls={'getFeature': 'BaseTagHDF5_getFeature_bykey'})
FTX = 'int gh_has_group, gh_direct_has; long gh_direct_grp; size_t gh_nfeat; int *gh_da_null, *gh_da_name, *gh_da_id;\n'
JOBS += [dict(name='BaseTagHDF5_getFeature_key', bodies=['BaseTagHDF5_getFeature_key'], enforce=['BaseTagHDF5_getFeature_key'], replace=[], includes=['c16_feature.h'], extra_c=FTX, loop_contracts=True,
              expect_kinds=['postcondition', 'loop_invariant_base', 'loop_invariant_step'], timeout=300),
         dict(name='BaseTagHDF5_getFeature_index', bodies=['BaseTagHDF5_getFeature_index'], enforce=['BaseTagHDF5_getFeature_index'], replace=[], includes=['c16_feature.h'], extra_c=FTX,
              expect_kinds=['postcondition'], timeout=300)]
SPEC = dict(new_safety_failures_are_violations=True, contracts=['c07_leaf.h', 'nd.h', 'c10_version.h', 'c16_strings.h', 'c16_feature.h', 'c16_cstr.h', 'c16_column.h'], stubs=['std_algo.h'], include_order=['c07_leaf.h', 'nd.h', 'c10_version.h', 'std_algo.h'], units=UNITS, jobs=JOBS,
            trusted_base=c07.SPEC['trusted_base'] + ND_TRUST,
            assumptions=['type invariants only: enum parameters hold an enumerator, vectors have at most 2^20 elements, NDSize rank <= 32 with dims of exactly rank elements',
                         'sampled axis: interval and offset are grid constants (symbolic division does not terminate); the position is any double',
                         'NOT covered: sequences of API calls, handle lifetimes, libhdf5 internals, operator new failure'])

SPEC['assumptions'] = list(SPEC.get('assumptions', [])) + ["session 3: BaseTagHDF5::getFeature - the feature group is a ghost table (count; per feature: data array gone?, its name and id), shared_ptr handles are records with a null flag; Variant::set(const char*) - strlen is a ghost with the C library's non-null precondition; DataFrameDimensionHDF5::checkColumnIndex - the column list is its length"]
