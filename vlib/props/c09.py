"""C09 open modes (kernel).  DESIGN.md section 7."""
import re
from cxx2c import Tok, P, seq_at, fire
import props.c10 as c10
FH = 'backend/hdf5/FileHDF5.cpp'; FHH = 'backend/hdf5/FileHDF5.hpp'
def h5_flags():
    txt = open('/usr/include/hdf5/serial/H5Fpublic.h').read()
    out = []
    for nm in ('H5F_ACC_RDONLY', 'H5F_ACC_RDWR', 'H5F_ACC_TRUNC', 'H5F_ACC_DEFAULT'):
        m = re.search(r'#define\s+%s\s+\(H5CHECK\s+H5OPEN\s+(0x[0-9a-fA-F]+u)\)' % nm, txt)
        if not m: raise RuntimeError('cannot read %s from H5Fpublic.h' % nm)
        out.append('%s=%s' % (nm, m.group(1)))
    return out
def bfs_rule(ctx, toks):
    """bfs::exists(bfs::path{name}) -> bfs_exists(name)   (boost::filesystem existence test: stub)"""
    out = []; i = 0
    while i < len(toks):
        if seq_at(toks, i, ['bfs', '::', 'exists', '(', 'bfs', '::', 'path', '{']):
            j = i + 8
            inner = []
            while toks[j].t != '}': inner.append(toks[j]); j += 1
            out.append(Tok('id', 'bfs_exists', toks[i].ws)); out.append(P('(', '')); out.extend(inner)
            i = j + 1; fire(ctx, 'bfs-exists'); continue
        out.append(toks[i]); i += 1
    return out
RC = dict(cls='FileHDF5o', cls_file=FHH, cls_decl='FileHDF5', classes=['FileHDF5o', 'cxxstring', 'H5Object'], member_calls={'fileExists': 'FileHDF5o_fileExists'}, inherited_members=['hid'])
UNITS = {
    'map_file_mode': dict(file=FH, locator=r'static\s+unsigned\s+int\s+map_file_mode\s*\('),
    'FileHDF5_ctor_mode': dict(RC, file=FH, locator=r'FileHDF5::FileHDF5\s*\(',
        region=dict(start=r'if\s*\(\s*!fileExists\(name\)\s*\)\s*\{\s*mode\s*=', end=r'this->mode\s*=\s*mode\s*;', ret='FileMode',
                    params=[('const cxxstring &', 'name'), ('FileMode', 'mode')], ret_expr='mode')),
    'FileHDF5_ctor_open': dict(RC, file=FH, locator=r'FileHDF5::FileHDF5\s*\(',
        region=dict(start=r'unsigned\s+int\s+h5mode\s*=', end=r'hid\s*=\s*H5Fopen\([^;]*;\s*\}', ret='bool',
                    params=[('const cxxstring &', 'name'), ('FileMode', 'mode'), ('H5Object', 'fcpl')], ret_expr='is_create')),
    'File_open_guard': dict(file='src/File.cpp', locator=r'File\s+File::open\s*\(', classes=['cxxstring'], pre_rules=[bfs_rule],
        # everything File::open does before it dispatches on the implementation name (so that the guard cannot hide inside another branch)
        region=dict(start=r'\A\{', end=r'(?=if\s*\(\s*impl\s*==\s*"hdf5")', params=[('const cxxstring &', 'name'), ('FileMode', 'mode'), ('Compression', 'compression')], strip_first_brace=True)),
}
TC = dict(cls='FileHDF5t', cls_file=FHH, cls_decl='FileHDF5', classes=['FileHDF5t', 'H5GroupT'], member_types={'root': 'H5GroupT'})
UNITS.update({
    'FileHDF5_setCreatedAt': dict(TC, file=FH, locator=r'void\s+FileHDF5::setCreatedAt\s*\('),
    'FileHDF5_setUpdatedAt': dict(TC, file=FH, locator=r'void\s+FileHDF5::setUpdatedAt\s*\('),
})
DEFS = h5_flags()
EXTRA = 'bool gh_has_created_at, gh_has_updated_at; int gh_attr_writes;\nbool gh_file_exists; int gh_h5_created, gh_h5_opened; unsigned int gh_h5_flags;\n'
def job(fn, **kw):
    d = dict(name=fn, bodies=[fn], enforce=[fn], replace=[], extra_c=EXTRA, defines=DEFS, expect_kinds=['postcondition'], timeout=300); d.update(kw); return d
JOBS = [job('map_file_mode'), job('FileHDF5_ctor_mode'), job('FileHDF5_ctor_open', replace=['map_file_mode']), job('File_open_guard'), job('FileHDF5_setCreatedAt'), job('FileHDF5_setUpdatedAt')]
# header defects (missing / wrong format, missing version, missing id): C10's checkHeader and gate units, same jobs
for n in ('FormatVersion_ctor_vec', 'FileHDF5_checkHeader', 'FileHDF5_ctor_gate', 'FormatVersion_eq', 'FormatVersion_lt', 'FormatVersion_ge', 'FormatVersion_x', 'FormatVersion_y',
          'FormatVersion_canRead', 'FormatVersion_canWrite', 'FormatVersion_index', 'FormatVersion_gt', 'FormatVersion_le', 'FormatVersion_ne', 'FormatVersion_z'):
    UNITS[n] = c10.UNITS[n]
JOBS += [dict(j, defines=DEFS + list(j.get('defines', []))) for j in c10.JOBS if j['name'] in ('FormatVersion_ctor_vec', 'FileHDF5_checkHeader', 'FileHDF5_ctor_gate')]
def cstr_is_string(ctx, toks):
    """name.c_str() handed to libhdf5: the abstract string itself"""
    from cxx2c import seq_at
    out = []; i = 0
    while i < len(toks):
        if toks[i].k == 'id' and seq_at(toks, i + 1, ['.', 'c_str', '(', ')']):
            out.append(toks[i]); i += 5; continue
        if toks[i].t == 'check' and toks[i + 1].t == '(' and toks[i + 2].k == 'str' and toks[i + 3].t == '+':
            # res.check("message" + name): the text of an error message is not part of any contract - the literal is kept, the concatenation dropped
            from cxx2c import match_close
            e = match_close(toks, i + 1)
            out.extend(toks[i:i + 3]); out.append(toks[e]); i = e + 1; continue
        out.append(toks[i]); i += 1
    return out
def stream_ctor(ctx, toks):
    """ifstream f(PATH);  /  ifstream f(PATH, MODE);  ->  ifstream f = mk_ifstream(PATH); / mk_ifstream_mode(PATH, MODE);   ios::X -> ios_X;   PATH.c_str() -> PATH"""
    from cxx2c import seq_at, match_close, split_args
    out = []; i = 0
    while i < len(toks):
        t = toks[i]
        if t.t == 'ifstream' and toks[i + 1].k == 'id' and toks[i + 2].t == '(':
            e = match_close(toks, i + 2)
            n = len(split_args(toks[i + 3:e]))
            out.extend([t, toks[i + 1], P('=', ' '), Tok('id', 'mk_ifstream' if n == 1 else 'mk_ifstream_mode', ' ')]); i += 2; fire(ctx, 'stream-ctor'); continue
        if t.t == 'ios' and toks[i + 1].t == '::':
            out.append(Tok('id', 'ios_' + toks[i + 2].t, t.ws)); i += 3; continue
        if t.k == 'id' and seq_at(toks, i + 1, ['.', 'c_str', '(', ')']):
            out.append(t); i += 5; continue
        out.append(t); i += 1
    return out
UNITS['FileHDF5x_fileExists'] = dict(file='backend/hdf5/FileHDF5.cpp', locator=r'bool\s+FileHDF5::fileExists\s*\(', cls='FileHDF5x', cls_decl='FileHDF5', cls_file='backend/hdf5/FileHDF5.hpp', classes=['FileHDF5x', 'nstring', 'ifstream'], pre_rules=[stream_ctor])
JOBS.append(dict(name='FileHDF5x_fileExists', bodies=['FileHDF5x_fileExists'], enforce=['FileHDF5x_fileExists'], replace=[], includes=['c09_exists.h'], extra_c='int gh_openable, gh_streams; long gh_size;\n', expect_kinds=['postcondition'], timeout=300))
HG = 'backend/hdf5/h5x/H5Group.cpp'; HGH = 'backend/hdf5/h5x/H5Group.hpp'
for fn, meth in (('H5Group_removeGroup', 'removeGroup'), ('H5Group_renameGroup', 'renameGroup')):
    UNITS[fn] = dict(file=HG, locator=r'void\s+H5Group::%s\s*\(' % meth, cls='H5Group', cls_file=HGH, classes=['H5Group', 'nstring', 'HErr'], inherited_members=['hid'], pre_rules=[cstr_is_string])
    JOBS.append(dict(name=fn, bodies=[fn], enforce=[fn], replace=[], includes=['c09_mutators.h'], extra_c='int gh_child_exists, gh_refuse, gh_unlinks, gh_moves, gh_arg_old, gh_arg_new; long gh_arg_hid;\n',
                     expect_kinds=['postcondition'], timeout=300))
SPEC = dict(contracts=['c10_version.h', 'c10_header.h', 'c09_open.h', 'c09_mutators.h', 'c09_exists.h'], stubs=['h5header.h'], include_order=['c10_version.h', 'h5header.h', 'c10_header.h', 'c09_open.h'], units=UNITS, jobs=JOBS,
            trusted_base=['CBMC 6.11.0 (C front end, --dfcc, SAT back end)', 'vlib/cxx2c.py idiom map incl. region units (statement ranges of the constructor)',
                          'definitional stubs: fileExists / boost::filesystem::exists return one ghost constant; H5Fcreate/H5Fopen record their flags; H5F_ACC_* values read from the installed H5Fpublic.h'],
            assumptions=['libhdf5 honours the access flags (RDONLY never writes, TRUNC empties): not verified',
                         'the header gate (format/version/id) is C10\'s checkHeader contract',
                         'that libhdf5 refuses a mutating call on a ReadOnly file (negative return) is assumed; that the refusal becomes an exception is decided for H5Group::removeGroup / renameGroup only'])
