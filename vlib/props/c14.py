"""C14 property values: the Variant tagged union (kernel).  DESIGN.md section 7."""
S = 'src/Variant.cpp'; H = 'include/nix/Variant.hpp'
def m(loc, **kw):
    d = dict(file=S, locator=loc, cls='Variant', cls_file=H, classes=['Variant']); d.update(kw); return d
SET = r'void\s+Variant::set\s*\((?=\s*%s\s+value\s*\))'
GET = r'void\s+Variant::get\s*\((?=\s*%s\s*&\s*value\s*\))'
MC = {'maybe_deallocte_string': 'Variant_maybe_deallocte_string', 'check_argument_type': 'Variant_check_argument_type'}
UNITS = {
    'Variant_maybe_deallocte_string': m(r'void\s+Variant::maybe_deallocte_string\s*\('),
    'Variant_set_bool': m(SET % 'bool', member_calls=MC), 'Variant_set_int32': m(SET % 'int32_t', member_calls=MC),
    'Variant_set_uint32': m(SET % 'uint32_t', member_calls=MC), 'Variant_set_int64': m(SET % 'int64_t', member_calls=MC),
    'Variant_set_uint64': m(SET % 'uint64_t', member_calls=MC), 'Variant_set_double': m(SET % 'double', member_calls=MC),
    'Variant_set_none': m(r'void\s+Variant::set\s*\((?=\s*none_t\s*\))', member_calls=MC),
    'Variant_check_argument_type': dict(file=H, locator=r'inline\s+void\s+check_argument_type\s*\(', cls='Variant', cls_file=H, classes=['Variant']),
    'Variant_get_bool': m(GET % 'bool', member_calls=MC), 'Variant_get_int32': m(GET % 'int32_t', member_calls=MC),
    'Variant_get_uint32': m(GET % 'uint32_t', member_calls=MC), 'Variant_get_int64': m(GET % 'int64_t', member_calls=MC),
    'Variant_get_uint64': m(GET % 'uint64_t', member_calls=MC), 'Variant_get_double': m(GET % 'double', member_calls=MC),
    'Variant_supports_type': m(r'bool\s+Variant::supports_type\s*\(', static_member=True),
    'Variant_set_cstr_len': m(r'void\s+Variant::set\s*\((?=\s*const\s+char\s*\*\s*value\s*,\s*const\s+size_t\s+len)'),
}
FL = ['--malloc-may-fail', '--malloc-fail-null']
def job(fn, replace=(), **kw):
    d = dict(name=fn, bodies=[fn], enforce=[fn], replace=list(replace), expect_kinds=['postcondition'], timeout=300, cbmc_flags=FL); d.update(kw); return d
JOBS = [job('Variant_maybe_deallocte_string')] + \
       [job('Variant_set_' + t, ['Variant_maybe_deallocte_string']) for t in ('bool', 'int32', 'uint32', 'int64', 'uint64', 'double', 'none')] + \
       [job('Variant_check_argument_type')] + \
       [job('Variant_get_' + t, ['Variant_check_argument_type']) for t in ('bool', 'int32', 'uint32', 'int64', 'uint64', 'double')] + \
       [job('Variant_supports_type'), job('Variant_set_cstr_len', cbmc_flags=FL + ['--unwind', '18', '--unwinding-assertions'])]
SPEC = dict(contracts=['c14_variant.h'], stubs=[], units=UNITS, jobs=JOBS,
            trusted_base=['CBMC 6.11.0 (C front end, --dfcc, SAT back end; malloc/realloc/free/memcpy models of the CPROVER library, malloc may fail and return NULL)',
                          'vlib/cxx2c.py idiom map'],
            assumptions=['string blocks shorter than 16 bytes in the jobs that inspect string contents (set(const char*, len)) - labelled bounded',
                         'the HDF5 dataset behind a Property (resize/write/read) is not covered'])
