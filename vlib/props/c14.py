"""C14 property values: the Variant tagged union (kernel).  DESIGN.md section 7."""
from cxx2c import Tok, P, seq_at, match_close, fire
S = 'src/Variant.cpp'; H = 'include/nix/Variant.hpp'
def m(loc, **kw):
    d = dict(file=S, locator=loc, cls='Variant', cls_file=H, classes=['Variant']); d.update(kw); return d
SET = r'void\s+Variant::set\s*\((?=\s*%s\s+value\s*\))'
GET = r'void\s+Variant::get\s*\((?=\s*%s\s*&\s*value\s*\))'
MC = {'maybe_deallocte_string': 'Variant_maybe_deallocte_string', 'check_argument_type': 'Variant_check_argument_type'}
UNITS = {
    'Variant_maybe_deallocte_string': m(r'void\s+Variant::maybe_deallocte_string\s*\('),
    'Variant_set_bool': m(SET % 'bool', member_calls=MC), 'Variant_set_int32': m(SET % 'int32_t', member_calls=MC),
    'Variant_set_uint32': m(SET % 'uint32_t', member_calls=MC), 'Variant_set_int64': m(SET % 'int64_t', member_calls=MC),
    'Variant_set_uint64': m(SET % 'uint64_t', member_calls=MC), 'Variant_set_double': m(SET % 'double', member_calls=MC),
    'Variant_set_none': m(r'void\s+Variant::set\s*\((?=\s*none_t\s*\))', member_calls=MC),
    'Variant_check_argument_type': dict(file=H, locator=r'inline\s+void\s+check_argument_type\s*\(', cls='Variant', cls_file=H, classes=['Variant']),
    'Variant_get_bool': m(GET % 'bool', member_calls=MC), 'Variant_get_int32': m(GET % 'int32_t', member_calls=MC),
    'Variant_get_uint32': m(GET % 'uint32_t', member_calls=MC), 'Variant_get_int64': m(GET % 'int64_t', member_calls=MC),
    'Variant_get_uint64': m(GET % 'uint64_t', member_calls=MC), 'Variant_get_double': m(GET % 'double', member_calls=MC),
    'Variant_supports_type': m(r'bool\s+Variant::supports_type\s*\(', static_member=True),
    'Variant_set_cstr_len': m(r'void\s+Variant::set\s*\((?=\s*const\s+char\s*\*\s*value\s*,\s*const\s+size_t\s+len)'),
}
def set_overloads(ctx, toks):
    """set(other.v_X) -> Variant_set_X(self, other.v_X) (overload chosen by the member's declared type); set(none) -> Variant_set_none(self, 0);
       assert(e) -> __CPROVER_assert(e, "assert")"""
    MAP = {'v_bool': 'bool', 'v_int32': 'int32', 'v_uint32': 'uint32', 'v_int64': 'int64', 'v_uint64': 'uint64', 'v_double': 'double', 'v_string': 'cstr'}
    out = []; i = 0
    while i < len(toks):
        t = toks[i]
        if t.t == 'set' and toks[i + 1].t == '(' and (not out or out[-1].t not in ('.', '->')):
            e = match_close(toks, i + 1)
            arg = toks[i + 2:e]
            if len(arg) == 3 and arg[0].t == 'other' and arg[1].t == '.' and arg[2].t in MAP:
                out.extend([Tok('id', 'Variant_set_' + MAP[arg[2].t], t.ws), P('(', ''), Tok('id', 'self', ''), P(',', '')] + arg + [P(')', '')])
                i = e + 1; fire(ctx, 'set-overload-by-member-type'); continue
            if len(arg) == 1 and arg[0].t in ('none', 'OPT_NONE'):
                out.extend([Tok('id', 'Variant_set_none', t.ws), P('(', ''), Tok('id', 'self', ''), P(',', ''), Tok('num', '0', ' '), P(')', '')])
                i = e + 1; fire(ctx, 'set-none'); continue
        if t.t == 'assert' and toks[i + 1].t == '(':
            e = match_close(toks, i + 1)
            out.extend([Tok('id', '__CPROVER_assert', t.ws), P('(', '')] + toks[i + 2:e] + [P(',', ''), Tok('str', '"assert"', ' '), P(')', '')])
            i = e + 1; fire(ctx, 'assert'); continue
        out.append(t); i += 1
    return out
UNITS['Variant_assign_variant_from'] = m(r'void\s+Variant::assign_variant_from\s*\(', pre_rules=[set_overloads])
TC = {'do_write_value': {'bool': 'do_write_value_bool', 'int32_t': 'do_write_value_int32', 'uint32_t': 'do_write_value_uint32', 'int64_t': 'do_write_value_int64', 'uint64_t': 'do_write_value_uint64',
                         'const char *': 'do_write_value_cstr', 'double': 'do_write_value_double'}}
PROP_UNITS = {'PropertyHDF5_values_set': dict(file='backend/hdf5/PropertyHDF5.cpp', locator=r'void\s+PropertyHDF5::values\s*\((?=\s*const\s+std::vector<Variant>\s*&)', cls='PropertyHDF5', cls_file='backend/hdf5/PropertyHDF5.hpp',
                                              classes=['Variant', 'DataSet', 'NDSize', 'H5DataType'], template_calls=TC, bounded_twin=True, member_calls={'deleteValues': 'PropertyHDF5_deleteValues_rec'},
                                              loops={0: '__CPROVER_assigns(_i_value, nix_exc)\n'
                                                        '__CPROVER_loop_invariant(_i_value <= values->n && nix_exc == EXC_NONE && (ghost_k < _i_value ==> values->data[ghost_k].dtype == dt))\n'
                                                        '__CPROVER_decreases(values->n - _i_value)'})}
PROP_EXTRA = 'DataType gh_dset_type; int gh_extent_calls, gh_writes, gh_delete_calls; ndsize_t gh_extent_n; DataType gh_write_type;\n'
PROP_JOBS = [dict(name='PropertyHDF5_values_set', bodies=['PropertyHDF5_values_set'], enforce=['PropertyHDF5_values_set'], replace=[], includes=['c14_prop.h'], extra_c=PROP_EXTRA,
                  loop_contracts=True, expect_kinds=['postcondition', 'loop_invariant_base', 'loop_invariant_step'], timeout=600),
             dict(name='PropertyHDF5_values_set[bounded]', bodies=['PropertyHDF5_values_set'], enforce=['PropertyHDF5_values_set'], replace=[], includes=['c14_prop.h'], extra_c=PROP_EXTRA,
                  defines=['NIX_NO_LOOP_CONTRACTS', 'PROP_BOUNDED=4'], cbmc_flags=['--unwind', '6', '--unwinding-assertions'], expect_kinds=['postcondition', 'unwind'], timeout=600,
                  bounded='value lists of at most 4 entries, loop unwound completely (twin without loop contract)')]
def unit_none(ctx, toks):
    """this->unit(nix::none)  (the overload that removes the unit)  ->  unit_none()"""
    from cxx2c import seq_at, tokenize, fire
    out = []; i = 0
    while i < len(toks):
        if seq_at(toks, i, ['this', '->', 'unit', '(']) and toks[i + 4].t in ('none', 'OPT_NONE', 'nix') :
            j = i + 4
            while toks[j].t != ')': j += 1
            out.extend(tokenize('%sunit_none()' % toks[i].ws)); i = j + 1; fire(ctx, 'unit-none-overload'); continue
        out.append(toks[i]); i += 1
    return out
def extent_brace(ctx, toks):
    """x.setExtent({n})  (braced initialiser converted to the NDSize parameter)  ->  x.setExtent(NDSize{n})"""
    from cxx2c import Tok
    out = []; i = 0
    while i < len(toks):
        out.append(toks[i])
        if toks[i].t == 'setExtent' and toks[i + 1].t == '(' and toks[i + 2].t == '{':
            out.append(toks[i + 1]); out.append(Tok('id', 'NDSize', '')); i += 2; fire(ctx, 'brace-to-parameter-type'); continue
        i += 1
    return out
UUNITS = {'Property_unit_set': dict(file='src/Property.cpp', locator=r'void\s+Property::unit\s*\((?=\s*const\s+std::string\s*&\s*unit)', cls='Property', cls_file='include/nix/Property.hpp', classes=['Property', 'nstring'],
                                    pre_rules=[unit_none], inherited_methods=['unit_none']),
          'PropertyHDF5_deleteValues': dict(file='backend/hdf5/PropertyHDF5.cpp', locator=r'void\s+PropertyHDF5::deleteValues\s*\(', cls='PropertyHDF5', cls_file='backend/hdf5/PropertyHDF5.hpp',
                                            classes=['PropertyHDF5', 'DataSet', 'NDSize'], inherited_methods=['removeAttr', 'hasAttr'], pre_rules=[extent_brace])}
UEXTRA = 'int gh_deblank_out, gh_unit_sets, gh_unit_set_to, gh_unit_removes, gh_attr_removes, gh_extent_calls; ndsize_t gh_extent_n;\n'
UJOBS = [dict(name=fn, bodies=[fn], enforce=[fn], replace=[], includes=['c14_unit.h'], extra_c=UEXTRA, expect_kinds=['postcondition'], timeout=300) for fn in UUNITS]
UNITS.update(PROP_UNITS); UNITS.update(UUNITS)
FL = ['--malloc-may-fail', '--malloc-fail-null']
def job(fn, replace=(), **kw):
    d = dict(name=fn, bodies=[fn], enforce=[fn], replace=list(replace), expect_kinds=['postcondition'], timeout=300, cbmc_flags=FL, object_bits=8); d.update(kw); return d
JOBS = [job('Variant_maybe_deallocte_string')] + \
       [job('Variant_set_' + t, bodies=['Variant_maybe_deallocte_string', 'Variant_set_' + t]) for t in ('bool', 'int32', 'uint32', 'int64', 'uint64', 'double', 'none')] + \
       [job('Variant_check_argument_type')] + \
       [job('Variant_get_' + t, ['Variant_check_argument_type']) for t in ('bool', 'int32', 'uint32', 'int64', 'uint64', 'double')] + \
       [job('Variant_supports_type'), job('Variant_set_cstr_len', cbmc_flags=FL + ['--unwind', '18', '--unwinding-assertions'], bounded='string length < 16 (memcpy of a symbolic length)'),
        job('Variant_assign_variant_from', ['Variant_set_' + t for t in ('bool', 'int32', 'uint32', 'int64', 'uint64', 'double', 'none', 'cstr')])]
JOBS += PROP_JOBS + UJOBS
SPEC = dict(contracts=['c14_variant.h', 'c14_prop.h', 'c14_unit.h'], stubs=[], include_order=['c14_variant.h'], units=UNITS, jobs=JOBS,
            trusted_base=['CBMC 6.11.0 (C front end, --dfcc, SAT back end; malloc/realloc/free/memcpy models of the CPROVER library, malloc may fail and return NULL)',
                          'vlib/cxx2c.py idiom map'],
            assumptions=['string blocks shorter than 16 bytes in the jobs that inspect string contents (set(const char*, len)) - labelled bounded',
                         'the HDF5 dataset behind a Property (resize/write/read) is not covered'])

SPEC['assumptions'] = list(SPEC.get('assumptions', [])) + ['session 3: Property::unit - util::deblankString is a ghost function on abstract string ids; PropertyHDF5::deleteValues - the data set and its attributes are ghost counters']
