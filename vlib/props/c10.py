"""C10 format-version gate (core).  DESIGN.md section 7."""
V = 'include/nix/Version.hpp'
def m(loc, **kw):
    d = dict(file=V, locator=loc, cls='FormatVersion', cls_file=V, classes=['FormatVersion']); d.update(kw); return d
UNITS = {
    'FormatVersion_x': m(r'\bint\s+x\s*\('),
    'FormatVersion_y': m(r'\bint\s+y\s*\('),
    'FormatVersion_z': m(r'\bint\s+z\s*\('),
    'FormatVersion_index': m(r'\bint\s+operator\s*\[\s*\]\s*\('),
    'FormatVersion_eq': m(r'\bbool\s+operator\s*==\s*\('),
    'FormatVersion_lt': m(r'\bbool\s+operator\s*<\s*\('),
    'FormatVersion_ne': m(r'\bbool\s+operator\s*!=\s*\('),
    'FormatVersion_gt': m(r'\bbool\s+operator\s*>\s*\('),
    'FormatVersion_le': m(r'\bbool\s+operator\s*<=\s*\('),
    'FormatVersion_ge': m(r'\bbool\s+operator\s*>=\s*\('),
    'FormatVersion_canWrite': m(r'\bbool\s+canWrite\s*\('),
    'FormatVersion_canRead': m(r'\bbool\s+canRead\s*\('),
}
def fv_replay(expr):
    return dict(tu='include/nix/Version.hpp', witness_harness='wit_fv2.c', witness_define_fn=True,
                globals=['g_fa0', 'g_fa1', 'g_fa2', 'g_fb0', 'g_fb1', 'g_fb2'], kinds={g: 'int' for g in ['g_fa0', 'g_fa1', 'g_fa2', 'g_fb0', 'g_fb1', 'g_fb2']},
                driver='nix::FormatVersion a({{{g_fa0}, {g_fa1}, {g_fa2}}}), b({{{g_fb0}, {g_fb1}, {g_fb2}}});\nbool r = ' + expr + ';\nstd::printf("OBS val %d\\n", r ? 1 : 0);',
                oracle_body='return {val};',
                oracle_harness='g_fa0 = {g_fa0}; g_fa1 = {g_fa1}; g_fa2 = {g_fa2}; g_fb0 = {g_fb0}; g_fb1 = {g_fb1}; g_fb2 = {g_fb2}; FormatVersion *a, *b; FV_FN(a, b);')
for fn_, ex_ in [('FormatVersion_eq', 'a == b'), ('FormatVersion_lt', 'a < b'), ('FormatVersion_ne', 'a != b'), ('FormatVersion_gt', 'a > b'), ('FormatVersion_le', 'a <= b'),
                 ('FormatVersion_ge', 'a >= b'), ('FormatVersion_canWrite', 'a.canWrite(b)'), ('FormatVersion_canRead', 'a.canRead(b)')]:
    UNITS[fn_]['replay'] = fv_replay(ex_)
def job(fn, replace=(), **kw):
    d = dict(name=fn, bodies=[fn], enforce=[fn], replace=list(replace), expect_kinds=['postcondition'], timeout=300); d.update(kw); return d
JOBS = [
    job('FormatVersion_x'), job('FormatVersion_y'), job('FormatVersion_z'),
    job('FormatVersion_index'),
    job('FormatVersion_eq', covers=['COVER-alias', 'COVER-distinct-equal']),
    job('FormatVersion_lt', ['FormatVersion_index'], cbmc_flags=['--unwind', '4', '--unwinding-assertions'], expect_kinds=['postcondition', 'unwind'], covers=['COVER-alias', 'COVER-lt-by-z']),
    job('FormatVersion_ne', ['FormatVersion_eq']),
    job('FormatVersion_gt', ['FormatVersion_lt']),
    job('FormatVersion_le', ['FormatVersion_gt']),
    job('FormatVersion_ge', ['FormatVersion_lt']),
    job('FormatVersion_canWrite', ['FormatVersion_eq']),
    job('FormatVersion_canRead', ['FormatVersion_x', 'FormatVersion_y']),
]
ALLV = ['FormatVersion_eq', 'FormatVersion_lt', 'FormatVersion_ne', 'FormatVersion_gt', 'FormatVersion_le', 'FormatVersion_ge',
        'FormatVersion_canWrite', 'FormatVersion_canRead']
JOBS += [
    dict(name='lemma_c10_order', lemma='c10_order.c', entry='lemma_c10_order', enforce=[], replace=ALLV, covers=['COVER-chain', 'COVER-equal'], expect_kinds=['assertion'], timeout=300),
    dict(name='lemma_c10_gate', lemma='c10_order.c', entry='lemma_c10_gate', enforce=[], replace=ALLV, covers=['COVER-writable', 'COVER-readable-only', 'COVER-unreadable'], expect_kinds=['assertion'], timeout=300),
]
FH = 'backend/hdf5/FileHDF5.cpp'; FHH = 'backend/hdf5/FileHDF5.hpp'
FHC = dict(cls='FileHDF5', cls_file=FHH, classes=['FormatVersion', 'FileHDF5', 'H5Group', 'nstring'],
           member_types={'root': 'H5Group', 'file_format_version': 'FormatVersion'}, globals={'my_version': 'FormatVersion'},
           overloads={'H5Group_getAttr': {'by': 'last_arg_type', 'nstring': 'H5Group_getAttr_string', 'vec_int': 'H5Group_getAttr_vec_int'}},
           member_calls={'checkHeader': 'FileHDF5_checkHeader', 'createHeader': 'FileHDF5_createHeader'})
UNITS.update({
    'FormatVersion_ctor_vec': m(r'explicit\s+FormatVersion\s*\((?=\s*const\s+std::vector<int>)', ctor=True),
    'FileHDF5_checkHeader': dict(FHC, file=FH, locator=r'bool\s+FileHDF5::checkHeader\s*\('),
    'FileHDF5_ctor_gate': dict(FHC, file=FH, locator=r'FileHDF5::FileHDF5\s*\(',
                               region=dict(start=r'if\s*\(\s*is_create\s*\)\s*\{\s*createHeader', end=r'checkHeader\s*\([^;]*;\s*\}',
                                           params=[('bool', 'is_create'), ('FileMode', 'mode'), ('OpenFlags', 'flags')])),
})
HDR_EXTRA = 'FormatVersion my_version; int ghost_headers_created;\nFormatVersion mk_FormatVersion_1(const vec_int *v) { return mk_FormatVersion_1_impl(v); }\n'
JOBS += [
    job('FormatVersion_ctor_vec'),
    dict(name='FileHDF5_checkHeader', bodies=['FormatVersion_ctor_vec', 'FileHDF5_checkHeader'], extra_c=HDR_EXTRA, enforce=['FileHDF5_checkHeader'],
         replace=ALLV, covers=['COVER-read-ok-newer-patch', 'COVER-write-refused', 'COVER-forced'], expect_kinds=['postcondition'], timeout=600),
    dict(name='FileHDF5_ctor_gate', bodies=['FileHDF5_ctor_gate'], extra_c='FormatVersion my_version; int ghost_headers_created;\n', enforce=['FileHDF5_ctor_gate'],
         replace=['FileHDF5_checkHeader', 'FileHDF5_createHeader'], covers=['COVER-forced-open', 'COVER-refused'], expect_kinds=['postcondition', 'precondition'], timeout=600),
]
SPEC = dict(
    contracts=['c10_version.h', 'c10_header.h'], stubs=['h5header.h'], include_order=['c10_version.h', 'h5header.h', 'c10_header.h'], units=UNITS, jobs=JOBS,
    trusted_base=['CBMC 6.11.0 (C front end, --dfcc contract instrumentation, SAT back end)',
                  'vlib/cxx2c.py idiom map (member functions -> C functions with explicit self, operators -> named functions)'],
    assumptions=['int is 32-bit two\'s complement (bit-precise)'],
)
