"""C10 format-version gate (core).  DESIGN.md section 7."""
V = 'include/nix/Version.hpp'
def m(loc, **kw):
    d = dict(file=V, locator=loc, cls='FormatVersion', cls_file=V, classes=['FormatVersion']); d.update(kw); return d
UNITS = {
    'FormatVersion_x': m(r'\bint\s+x\s*\('),
    'FormatVersion_y': m(r'\bint\s+y\s*\('),
    'FormatVersion_z': m(r'\bint\s+z\s*\('),
    'FormatVersion_index': m(r'\bint\s+operator\s*\[\s*\]\s*\('),
    'FormatVersion_eq': m(r'\bbool\s+operator\s*==\s*\('),
    'FormatVersion_lt': m(r'\bbool\s+operator\s*<\s*\('),
    'FormatVersion_ne': m(r'\bbool\s+operator\s*!=\s*\('),
    'FormatVersion_gt': m(r'\bbool\s+operator\s*>\s*\('),
    'FormatVersion_le': m(r'\bbool\s+operator\s*<=\s*\('),
    'FormatVersion_ge': m(r'\bbool\s+operator\s*>=\s*\('),
    'FormatVersion_canWrite': m(r'\bbool\s+canWrite\s*\('),
    'FormatVersion_canRead': m(r'\bbool\s+canRead\s*\('),
}
def job(fn, replace=(), **kw):
    d = dict(name=fn, bodies=[fn], enforce=[fn], replace=list(replace), expect_kinds=['postcondition'], timeout=300); d.update(kw); return d
JOBS = [
    job('FormatVersion_x'), job('FormatVersion_y'), job('FormatVersion_z'),
    job('FormatVersion_index'),
    job('FormatVersion_eq', covers=['COVER-alias', 'COVER-distinct-equal']),
    job('FormatVersion_lt', ['FormatVersion_index'], cbmc_flags=['--unwind', '4', '--unwinding-assertions'], expect_kinds=['postcondition', 'unwind'], covers=['COVER-alias', 'COVER-lt-by-z']),
    job('FormatVersion_ne', ['FormatVersion_eq']),
    job('FormatVersion_gt', ['FormatVersion_lt']),
    job('FormatVersion_le', ['FormatVersion_gt']),
    job('FormatVersion_ge', ['FormatVersion_lt']),
    job('FormatVersion_canWrite', ['FormatVersion_eq']),
    job('FormatVersion_canRead', ['FormatVersion_x', 'FormatVersion_y']),
]
ALLV = ['FormatVersion_eq', 'FormatVersion_lt', 'FormatVersion_ne', 'FormatVersion_gt', 'FormatVersion_le', 'FormatVersion_ge',
        'FormatVersion_canWrite', 'FormatVersion_canRead']
JOBS += [
    dict(name='lemma_c10_order', lemma='c10_order.c', entry='lemma_c10_order', enforce=[], replace=ALLV, covers=['COVER-chain', 'COVER-equal'], expect_kinds=['assertion'], timeout=300),
    dict(name='lemma_c10_gate', lemma='c10_order.c', entry='lemma_c10_gate', enforce=[], replace=ALLV, covers=['COVER-writable', 'COVER-readable-only', 'COVER-unreadable'], expect_kinds=['assertion'], timeout=300),
]
SPEC = dict(
    contracts=['c10_version.h'], stubs=[], units=UNITS, jobs=JOBS,
    trusted_base=['CBMC 6.11.0 (C front end, --dfcc contract instrumentation, SAT back end)',
                  'vlib/cxx2c.py idiom map (member functions -> C functions with explicit self, operators -> named functions)'],
    assumptions=['int is 32-bit two\'s complement (bit-precise)'],
)
