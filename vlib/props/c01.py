"""C01 array data round trip (kernel): appendData.  DESIGN.md section 7."""
from props.nd_units import ND_UNITS, ND_TRUST, member, UNW, rank_cases
UNITS = {k: ND_UNITS[k] for k in ('NDSize_size', 'NDSize_at', 'NDSize_allocate', 'NDSize_copy_ctor', 'NDSize_fill', 'NDSize_ctor_fill')}
UNITS.update({
    'DataArray_appendData': dict(file='src/DataArray.cpp', locator=r'void\s+DataArray::appendData\s*\(', cls='DataArrayA', cls_decl='DataArray', cls_file='include/nix/DataArray.hpp',
                                 classes=['NDSize', 'DataArrayA'], member_calls={'dataExtent': 'DataArrayA_dataExtent', 'setData': 'DataArrayA_setData'}, inherited_methods=['setData'],
                                 overloads={'DataArrayA_dataExtent': {0: 'DataArrayA_dataExtent_get', 1: 'DataArrayA_dataExtent_set'}}),
})
UNITS['DataArray_ioRead'] = dict(file='src/DataArray.cpp', locator=r'void\s+DataArray::ioRead\s*\(', cls='DataArrayR', cls_decl='DataArray', cls_file='include/nix/DataArray.hpp', classes=['NDSize', 'DataArrayR'],
    member_calls={'polynomCoefficients': 'DataArrayR_polynomCoefficients', 'expansionOrigin': 'DataArrayR_expansionOrigin', 'getDataDirect': 'DataArrayR_getDataDirect', 'convertData': 'DataArrayR_convertData'},
    inherited_methods=['getDataDirect', 'convertData'], calls={'memcpy': 'memcpy_rec'})
READ_EXTRA = ('double gh_tmp_store[4]; int gh_reads, gh_polys, gh_convs, gh_copies, gh_resizes; DataType gh_read_type; const void *gh_read_buf; const NDSize *gh_read_count, *gh_read_offset;\n'
              'const void *gh_poly_in, *gh_poly_out; size_t gh_poly_n; double gh_poly_origin; int gh_poly_after_reads; DataType gh_conv_from, gh_conv_to; const void *gh_conv_buf; size_t gh_conv_n; int gh_conv_after_polys;\n'
              'const void *gh_copy_dst, *gh_copy_src; size_t gh_copy_bytes; int gh_copy_after_convs; size_t gh_resize_n; size_t gh_esize, gh_nelms;\n')
EXTRA = ('int gh_extent_sets, gh_writes; int gh_writes_at_extent_set;\nsize_t gh_set_rank, gh_w_count_rank, gh_w_offset_rank; ndsize_t gh_set_k, gh_w_count_k, gh_w_offset_k;\n')
BODIES = ['NDSize_size', 'NDSize_at', 'NDSize_allocate', 'NDSize_copy_ctor', 'NDSize_fill', 'NDSize_ctor_fill', 'DataArray_appendData']
JOBS = rank_cases(dict(full_unwind=True, name='DataArray_appendData', bodies=BODIES, enforce=['DataArray_appendData'], replace=[], extra_c=EXTRA, cbmc_flags=UNW,
                       expect_kinds=['postcondition'], timeout=900))
for j in JOBS:
    r = int(j['name'].split('rank=')[1].rstrip(']'))
    j['tiers'] = ('quick', 'thorough') if r <= 4 else ('thorough',)
JOBS.append(dict(name='DataArray_ioRead', bodies=['DataArray_ioRead'], enforce=['DataArray_ioRead'], replace=[], includes=['nd.h', 'c01_read.h'], extra_c=READ_EXTRA, expect_kinds=['postcondition'], timeout=600))
UNITS['DataSet_setExtent'] = dict(file='backend/hdf5/h5x/H5DataSet.cpp', locator=r'void\s+DataSet::setExtent\s*\(', cls='DataSet', cls_file='backend/hdf5/h5x/H5DataSet.hpp', classes=['NDSize', 'DataSet', 'DataSpace', 'HErr'],
    inherited_members=['hid'])
JOBS.append(dict(name='DataSet_setExtent', bodies=['NDSize_size', 'DataSet_setExtent'], enforce=['DataSet_setExtent'], replace=[], includes=['nd.h', 'c01_extent.h'],
                 extra_c='size_t gh_cur_rank; ndsize_t *gh_cur_dims; int gh_set_calls, gh_set_refused; long gh_set_hid; const ndsize_t *gh_set_dims;\n', cbmc_flags=UNW, expect_kinds=['postcondition'], timeout=300))
SPEC = dict(contracts=['nd.h', 'dv.h', 'c01_append.h', 'c01_read.h', 'c01_extent.h'], stubs=['dataarray.h'], include_order=['nd.h', 'dataarray.h', 'dv.h', 'c01_append.h'], units=UNITS, jobs=JOBS,
            trusted_base=['CBMC 6.11.0 (C front end, --dfcc, SAT back end)', 'vlib/cxx2c.py idiom map'] + ND_TRUST +
                         ['back end of the DataArray (dataExtent getter/setter, setData) is a ghost record of what it was asked to do'],
            assumptions=['kernel only: appendData\'s extent/offset arithmetic and its rejection conditions; quick tier ranks 0..4 (the property quantifies over ranks 1..4), thorough tier 0..32',
                         'NOT covered: what HDF5 stores and returns, type mapping, chunking, compression, strings, reopen, and the value of the calibration polynomial (symbolic double products do not terminate in CBMC)'])

SPEC['assumptions'] = list(SPEC.get('assumptions', [])) + ['session 3: hdf5::DataSet::setExtent - the data space (rank / extent) and H5Dset_extent are ghosts; NDSize::nelms is an arbitrary value (not used by the pinned code)']
