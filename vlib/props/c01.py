"""C01 array data round trip (kernel): appendData.  DESIGN.md section 7."""
from props.nd_units import ND_UNITS, ND_TRUST, member, UNW, rank_cases
UNITS = {k: ND_UNITS[k] for k in ('NDSize_size', 'NDSize_at', 'NDSize_allocate', 'NDSize_copy_ctor', 'NDSize_fill', 'NDSize_ctor_fill')}
UNITS.update({
    'DataArray_appendData': dict(file='src/DataArray.cpp', locator=r'void\s+DataArray::appendData\s*\(', cls='DataArrayA', cls_decl='DataArray', cls_file='include/nix/DataArray.hpp',
                                 classes=['NDSize', 'DataArrayA'], member_calls={'dataExtent': 'DataArrayA_dataExtent', 'setData': 'DataArrayA_setData'}, inherited_methods=['setData'],
                                 overloads={'DataArrayA_dataExtent': {0: 'DataArrayA_dataExtent_get', 1: 'DataArrayA_dataExtent_set'}}),
})
EXTRA = ('int gh_extent_sets, gh_writes; int gh_writes_at_extent_set;\nsize_t gh_set_rank, gh_w_count_rank, gh_w_offset_rank; ndsize_t gh_set_k, gh_w_count_k, gh_w_offset_k;\n')
BODIES = ['NDSize_size', 'NDSize_at', 'NDSize_allocate', 'NDSize_copy_ctor', 'NDSize_fill', 'NDSize_ctor_fill', 'DataArray_appendData']
JOBS = rank_cases(dict(full_unwind=True, name='DataArray_appendData', bodies=BODIES, enforce=['DataArray_appendData'], replace=[], extra_c=EXTRA, cbmc_flags=UNW,
                       expect_kinds=['postcondition'], timeout=900))
for j in JOBS:
    r = int(j['name'].split('rank=')[1].rstrip(']'))
    j['tiers'] = ('quick', 'thorough') if r <= 4 else ('thorough',)
SPEC = dict(contracts=['nd.h', 'dv.h', 'c01_append.h'], stubs=['dataarray.h'], include_order=['nd.h', 'dataarray.h', 'dv.h', 'c01_append.h'], units=UNITS, jobs=JOBS,
            trusted_base=['CBMC 6.11.0 (C front end, --dfcc, SAT back end)', 'vlib/cxx2c.py idiom map'] + ND_TRUST +
                         ['back end of the DataArray (dataExtent getter/setter, setData) is a ghost record of what it was asked to do'],
            assumptions=['kernel only: appendData\'s extent/offset arithmetic and its rejection conditions; quick tier ranks 0..4 (the property quantifies over ranks 1..4), thorough tier 0..32',
                         'NOT covered: what HDF5 stores and returns, type mapping, chunking, compression, strings, reopen, and the value of the calibration polynomial (symbolic double products do not terminate in CBMC)'])
