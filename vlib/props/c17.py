"""C17 slices and DataView windows (core).  DESIGN.md section 7."""
from props.nd_units import ND_UNITS, ND_JOBS, ND_TRUST
from props.nd_units import closure, UNW, rank_cases
DV = 'src/DataView.cpp'; DVH = 'include/nix/DataView.hpp'
DVC = dict(cls='DataView', cls_file=DVH, classes=['NDSize', 'DataArray', 'DataView'],
           member_types={'array': 'DataArray', 'offset': 'NDSize', 'count': 'NDSize'})
UNITS = dict(ND_UNITS)
UNITS.update({
    'DataView_ctor': dict(DVC, file=DVH, locator=r'\bDataView\s*\((?=\s*DataArray\s+da)', ctor=True),
    'DataView_transform_coordinates': dict(DVC, file=DV, locator=r'NDSize\s+DataView::transform_coordinates\s*\('),
    'positionInData': dict(file='src/util/dataAccess.cpp', locator=r'bool\s+positionInData\s*\(', classes=['NDSize', 'DataArray']),
    'positionAndExtentInData': dict(file='src/util/dataAccess.cpp', locator=r'bool\s+positionAndExtentInData\s*\(', classes=['NDSize', 'DataArray']),
    'DataView_ioRead': dict(DVC, file=DV, locator=r'void\s+DataView::ioRead\s*\('),
    'DataView_ioWrite': dict(DVC, file=DV, locator=r'void\s+DataView::ioWrite\s*\('),
    'DataView_dataExtent': dict(DVC, file=DV, locator=r'NDSize\s+DataView::dataExtent\s*\((?=\s*\))'),
})
# NDSize helpers are linked as bodies (see nd_units.job): value-returning contracts make every later access a case split
ND_BODIES = ['NDSize_size', 'NDSize_bool', 'NDSize_at']
def io_cases(j):
    # the property quantifies over arrays of rank 1..3: ranks 0..4 run in the quick tier, every rank 0..32 in the thorough tier
    out = []
    for d in rank_cases(j):
        r = int(d['name'].split('rank=')[1].rstrip(']'))
        d['tiers'] = ('quick', 'thorough') if r <= 4 else ('thorough',)
        d['split_workers'] = 3
        out.append(d)
    return out
ND_REPL = ['NDSize_plus_cc', 'NDSize_minus_cc', 'NDSize_copy_ctor', 'NDSize_gt', 'NDSize_le', 'NDSize_lt', 'NDSize_ge']
JOBS = list(ND_JOBS)
JOBS += [
    dict(name='DataView_ctor', bodies=ND_BODIES + ['DataView_ctor'], enforce=['DataView_ctor'], replace=ND_REPL, cbmc_flags=UNW,
         expect_kinds=['postcondition'], timeout=900),
    dict(name='DataView_transform_coordinates', bodies=ND_BODIES + ['DataView_transform_coordinates'], enforce=['DataView_transform_coordinates'],
         replace=ND_REPL, cbmc_flags=UNW, expect_kinds=['postcondition'], timeout=900),
] + io_cases(dict(split=True, name='DataView_ioRead', bodies=ND_BODIES + ['DataView_ioRead'], enforce=['DataView_ioRead'], replace=ND_REPL + ['DataView_transform_coordinates'],
         cbmc_flags=UNW, expect_kinds=['postcondition', 'precondition'], timeout=900)) + io_cases(dict(split=True, name='DataView_ioWrite', bodies=ND_BODIES + ['DataView_ioWrite'], enforce=['DataView_ioWrite'], replace=ND_REPL + ['DataView_transform_coordinates'],
         cbmc_flags=UNW, expect_kinds=['postcondition', 'precondition'], timeout=900)) + [
    dict(name='DataView_dataExtent', bodies=ND_BODIES + ['DataView_dataExtent'], enforce=['DataView_dataExtent'], replace=ND_REPL,
         cbmc_flags=UNW, expect_kinds=['postcondition'], timeout=900),
] + rank_cases(dict(name='positionInData', bodies=ND_BODIES + ['positionInData'], enforce=['positionInData'], replace=ND_REPL, cbmc_flags=UNW,
                    expect_kinds=['postcondition'], timeout=600)) + \
    []   # positionAndExtentInData: contract written (dv.h) but the job does not terminate within 20 min even for rank 2; not claimed
SPEC = dict(
    contracts=['nd.h', 'dv.h'], stubs=['dataarray.h'], include_order=['nd.h', 'dataarray.h', 'dv.h'], units=UNITS, jobs=JOBS,
    trusted_base=['CBMC 6.11.0 (C front end, --dfcc contract instrumentation, SAT back end)',
                  'vlib/cxx2c.py idiom map'] + ND_TRUST,
    assumptions=['NDSize rank <= 32', 'ndsize_t arithmetic is 64-bit modular (bit-precise)'],
)
