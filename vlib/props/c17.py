"""C17 slices and DataView windows (core).  DESIGN.md section 7."""
from props.nd_units import ND_UNITS, ND_JOBS, ND_TRUST
from props.nd_units import closure, UNW, rank_cases
DV = 'src/DataView.cpp'; DVH = 'include/nix/DataView.hpp'
DVC = dict(cls='DataView', cls_file=DVH, classes=['NDSize', 'DataArray', 'DataView'],
           member_types={'array': 'DataArray', 'offset': 'NDSize', 'count': 'NDSize'})
UNITS = dict(ND_UNITS)
UNITS.update({
    'DataView_ctor': dict(DVC, file=DVH, locator=r'\bDataView\s*\((?=\s*DataArray\s+da)', ctor=True),
    'DataView_transform_coordinates': dict(DVC, file=DV, locator=r'NDSize\s+DataView::transform_coordinates\s*\('),
    'positionInData': dict(file='src/util/dataAccess.cpp', locator=r'bool\s+positionInData\s*\(', classes=['NDSize', 'DataArray']),
    'positionAndExtentInData': dict(file='src/util/dataAccess.cpp', locator=r'bool\s+positionAndExtentInData\s*\(', classes=['NDSize', 'DataArray']),
    'DataView_ioRead': dict(DVC, file=DV, locator=r'void\s+DataView::ioRead\s*\('),
    'DataView_ioWrite': dict(DVC, file=DV, locator=r'void\s+DataView::ioWrite\s*\('),
    'DataView_dataExtent': dict(DVC, file=DV, locator=r'NDSize\s+DataView::dataExtent\s*\((?=\s*\))'),
})
from cxx2c import Tok, P, seq_at, fire, match_close, tokenize, split_args
def single_element_lookup(ctx, toks):
    """vector<optional<pair>> V = positionToIndex({A}, {B}, {C}, match, D);  with single-element brace lists and only V[0] used
       ==  the scalar lookup:  opt_pair V0 = positionToIndex_pair1v(A, B, C, match, D);  V[0] -> V0.
       std::vector<std::string> elements are read here: vec_string (length only) -> vec_nstr"""
    for t in toks:
        if t.k == 'id' and t.t == 'vec_string': t.t = 'vec_nstr'
    out = []; i = 0; names = set()
    while i < len(toks):
        if toks[i].t == 'vec_opt_pair' and toks[i + 1].k == 'id' and toks[i + 2].t == '=' and toks[i + 3].t == 'positionToIndex' and toks[i + 4].t == '(':
            e = match_close(toks, i + 4)
            args = split_args(toks[i + 5:e])
            if len(args) != 5 or not all(a and a[0].t == '{' and a[-1].t == '}' and not any(x.t == ',' for x in a) for a in args[:3]):
                raise Exception('positionToIndex call is not the single-element form')
            nm = toks[i + 1].t; names.add(nm)
            out.extend(tokenize('%sopt_pair %s0 = positionToIndex_pair1v(' % (toks[i].ws, nm)))
            for k, a in enumerate(args):
                if k: out.append(P(',', ''))
                out.extend(a[1:-1] if k < 3 else a)
            out.append(P(')', ''))
            ctx.env[nm + '0'] = ('opt_pair', False)
            i = e + 1; fire(ctx, 'single-element-vector-call'); continue
        out.append(toks[i]); i += 1
    toks = out; out = []; i = 0
    while i < len(toks):
        if toks[i].t in names and seq_at(toks, i + 1, ['[', '0', ']']):
            out.append(Tok('id', toks[i].t + '0', toks[i].ws)); i += 4; fire(ctx, 'region-live-in'); continue
        if toks[i].t in names:
            raise Exception('lookup result %s used other than as [0]' % toks[i].t)
        out.append(toks[i]); i += 1
    return out
UNITS['slice_assemble_dim'] = dict(file='src/util/dataAccess.cpp', locator=r'DataView\s+dataSlice\s*\(', classes=['NDSize', 'DataArray', 'nstring', 'Dimension'],
    pre_rules=[single_element_lookup], calls={'positionToIndex': 'positionToIndex_scalarv'}, subst={'vec_string': 'vec_nstr'},
    region=dict(start=r'Dimension\s+dim\s*=\s*array\.getDimension\(i\s*\+\s*1\)\s*;', end=r'count\[i\]\s*\+=[^;]*;\s*\}',
                params=[('const DataArray &', 'array'), ('const std::vector<double> &', 'start'), ('const std::vector<double> &', 'end'), ('const std::vector<double> &', 'my_start'),
                        ('const std::vector<double> &', 'my_end'), ('const std::vector<std::string> &', 'my_units'), ('RangeMatch', 'match'), ('NDSize &', 'count'), ('NDSize &', 'offset'), ('size_t', 'i')]))
def fill_rules(ctx, toks):
    """the vectors of this region are ghost records (vec_double_g / vec_nstr_g); rd.axis(1, k)[0] -> axis_first(1, k) (the tick at k)"""
    from cxx2c import Tok, P, match_close
    sampled = {toks[k + 1].t for k in range(len(toks) - 1) if toks[k].t == 'SampledDimension' and toks[k + 1].k == 'id'}
    out = []; i = 0
    while i < len(toks):
        t = toks[i]
        if t.k == 'id' and t.t == 'axis' and toks[i + 1].t == '(':
            e = match_close(toks, i + 1)
            if toks[e + 1].t == '[' and toks[e + 2].t == '0' and toks[e + 3].t == ']':
                out.append(Tok('id', 'axis_first', t.ws)); out.extend(toks[i + 1:e + 1]); i = e + 4; continue
        if t.k == 'id' and t.t in sampled and toks[i + 1].t == '[':
            e = match_close(toks, i + 1)       # SampledDimension::operator[](index) returns the coordinate BY VALUE: X[e] -> X.at(e)
            out.append(t); out.append(P('.', '')); out.append(Tok('id', 'at', '')); out.append(P('(', '')); out.extend(toks[i + 2:e]); out.append(P(')', '')); i = e + 1; continue
        out.append(t); i += 1
    return out
UNITS['fill_pad_dim'] = dict(file='src/util/dataAccess.cpp', locator=r'void\s+fillPositionsExtentsAndUnits\s*\(', classes=['NDSize', 'Dimension', 'SampledDimension', 'RangeDimension', 'nstring', 'vec_double_g', 'vec_nstr_g'],
    pre_rules=[fill_rules],
    region=dict(start=r'DimensionType\s+dt\s*=\s*dim\.dimensionType\(\)\s*;', end=r'ends\.push_back\(end\);\s*\}\s*\}(?=\s*\}\s*\})',
                params=[('const Dimension &', 'dim'), ('size_t', 'i'), ('vec_double_g &', 'starts'), ('vec_double_g &', 'ends'), ('vec_nstr_g &', 'units'), ('NDSize &', 'shape'), ('const char *', 'double_fail_msg')]))
SLICE_EXTRA = ('opt_ndsize gh_ge; opt_pair gh_pair; double gh_pair_start, gh_pair_end; RangeMatch gh_pair_match; int gh_pair_calls; ndsize_t gh_pair_dim, gh_ge_dim; int gh_pair_unit, gh_ge_unit;\n')
# NDSize helpers are linked as bodies (see nd_units.job): value-returning contracts make every later access a case split
ND_BODIES = ['NDSize_size', 'NDSize_bool', 'NDSize_at']
def io_cases(j):
    # the property quantifies over arrays of rank 1..3: ranks 0..4 run in the quick tier, every rank 0..32 in the thorough tier
    out = []
    for d in rank_cases(j):
        r = int(d['name'].split('rank=')[1].rstrip(']'))
        d['tiers'] = ('quick', 'thorough') if r <= 4 else ('thorough',)
        d['split_workers'] = 3
        out.append(d)
    return out
ND_REPL = ['NDSize_plus_cc', 'NDSize_minus_cc', 'NDSize_copy_ctor', 'NDSize_gt', 'NDSize_le', 'NDSize_lt', 'NDSize_ge']
JOBS = list(ND_JOBS)
JOBS += [
    dict(name='DataView_ctor', bodies=ND_BODIES + ['DataView_ctor'], enforce=['DataView_ctor'], replace=ND_REPL, cbmc_flags=UNW,
         expect_kinds=['postcondition'], timeout=900),
    dict(name='DataView_transform_coordinates', bodies=ND_BODIES + ['DataView_transform_coordinates'], enforce=['DataView_transform_coordinates'],
         replace=ND_REPL, cbmc_flags=UNW, expect_kinds=['postcondition'], timeout=900),
] + io_cases(dict(split=True, name='DataView_ioRead', bodies=ND_BODIES + ['DataView_ioRead'], enforce=['DataView_ioRead'], replace=ND_REPL + ['DataView_transform_coordinates'],
         cbmc_flags=UNW, expect_kinds=['postcondition', 'precondition'], timeout=900)) + io_cases(dict(split=True, name='DataView_ioWrite', bodies=ND_BODIES + ['DataView_ioWrite'], enforce=['DataView_ioWrite'], replace=ND_REPL + ['DataView_transform_coordinates'],
         cbmc_flags=UNW, expect_kinds=['postcondition', 'precondition'], timeout=900)) + [
    dict(name='DataView_dataExtent', bodies=ND_BODIES + ['DataView_dataExtent'], enforce=['DataView_dataExtent'], replace=ND_REPL,
         cbmc_flags=UNW, expect_kinds=['postcondition'], timeout=900),
] + rank_cases(dict(name='positionInData', bodies=ND_BODIES + ['positionInData'], enforce=['positionInData'], replace=ND_REPL, cbmc_flags=UNW,
                    expect_kinds=['postcondition'], timeout=600)) + \
    [dict(name='slice_assemble_dim', bodies=['NDSize_size', 'NDSize_at', 'slice_assemble_dim'], enforce=['slice_assemble_dim'], replace=['positionToIndex_scalarv'], extra_c=SLICE_EXTRA,
          includes=['nd.h', 'dataarray.h', 'dv.h', 'c17_slice.h'], defines=['ND_FULL_ALLOC'], cbmc_flags=UNW, expect_kinds=['postcondition', 'precondition'], timeout=900)] + \
    []   # positionAndExtentInData: contract written (dv.h); with NDSize_isub_scalar replaced by its contract the job terminates but the element-wise clause is lost
         # (that contract speaks about ghost_k only), with its body linked the job does not terminate within 30 min even for rank 1: not claimed
FILL_EXTRA = 'int gh_push_starts, gh_push_ends, gh_push_units, gh_unit_pushed; double gh_start_pushed, gh_end_pushed; double *gh_ticks;\n'
JOBS.append(dict(name='fill_pad_dim', bodies=['NDSize_size', 'NDSize_at', 'fill_pad_dim'], enforce=['fill_pad_dim'], replace=[], extra_c=FILL_EXTRA,
                 includes=['nd.h', 'c17_fill.h'], defines=['ND_FULL_ALLOC'], cbmc_flags=UNW, expect_kinds=['postcondition'], timeout=600))
SPEC = dict(
    contracts=['nd.h', 'dv.h', 'c17_slice.h', 'c17_fill.h'], stubs=['dataarray.h'], include_order=['nd.h', 'dataarray.h', 'dv.h'], units=UNITS, jobs=JOBS,
    trusted_base=['CBMC 6.11.0 (C front end, --dfcc contract instrumentation, SAT back end)',
                  'vlib/cxx2c.py idiom map'] + ND_TRUST,
    assumptions=['NDSize rank <= 32', 'ndsize_t arithmetic is 64-bit modular (bit-precise)'],
)

SPEC['assumptions'] = list(SPEC.get('assumptions', [])) + ['session 3: fill_pad_dim - the axis is abstracted to the coordinates the code reads, the vectors are ghost records of what is appended; that the loop visits the dimensions in order (appended entry lands at position i) is by inspection']
