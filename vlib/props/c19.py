"""C19 validator (kernel): the rule predicates of src/valid/checks.cpp.  DESIGN.md section 7, 12."""
from props.nd_units import ND_UNITS, ND_TRUST, UNW
CK = 'src/valid/checks.cpp'; CH = 'include/nix/valid/checks.hpp'
CL = ['NDSize', 'DataArray', 'Dimension', 'RangeDimension', 'SetDimension', 'DataFrameDimension']
def loop(breach):
    lim = 'C19_MIN(it, self->data.extent.rank)'
    return {0: '__CPROVER_assigns(it, mismatch, nix_exc)\n'
               '__CPROVER_loop_invariant(it <= dims->n && nix_exc == EXC_NONE)\n'
               '__CPROVER_loop_invariant((ghost_k < %s && %s(ghost_k)) ==> mismatch)\n'
               '__CPROVER_loop_invariant(mismatch ==> (it >= 1 && it - 1 < self->data.extent.rank && %s(it - 1)))\n'
               '__CPROVER_decreases(dims->n - it)' % (lim, breach, breach)}
def pred(name, breach):
    return dict(file=CK, locator=r'bool\s+%s::operator\s*\(\s*\)\s*\(' % name, cls=name, cls_file=CH, classes=CL + [name], member_types={'data': 'DataArray'},
                loops=loop(breach), bounded_twin=True)
UNITS = {k: ND_UNITS[k] for k in ('NDSize_size', 'NDSize_at')}
UNITS.update({
    'dimTicksMatchData_call': pred('dimTicksMatchData', 'TICKS_BREACH'),
    'dimLabelsMatchData_call': pred('dimLabelsMatchData', 'LABELS_BREACH'),
    'dimDataFrameTicksMatchData_call': pred('dimDataFrameTicksMatchData', 'ROWS_BREACH'),
    'dimEquals_call': dict(file=CK, locator=r'bool\s+dimEquals::operator\s*\(\s*\)\s*\(', cls='dimEquals', cls_file=CH, classes=CL + ['dimEquals']),
})
def strings_with_content(ctx, toks):
    """std::vector<std::string> whose elements are read: vec_string (length only) -> vec_nstr (elements are abstract string ids)"""
    for t in toks:
        if t.k == 'id' and t.t == 'vec_string': t.t = 'vec_nstr'
    return toks
UNITS['tagUnitsMatchRefsUnits_call'] = dict(file=CK, locator=r'bool\s+tagUnitsMatchRefsUnits::operator\s*\(\s*\)\s*\(', cls='tagUnitsMatchRefsUnits', cls_file=CH,
    classes=['DataArray', 'nstring', 'tagUnitsMatchRefsUnits'], member_types={'units': 'vec_nstr'}, pre_rules=[strings_with_content])
EXTRA = 'const Dimension *gh_dims_base;\n'
def job(fn, **kw):
    d = dict(name=fn, bodies=['NDSize_size', 'NDSize_at', fn], enforce=[fn], replace=[], extra_c=EXTRA, loop_contracts=True, defines=['NIX_TMP_LITERAL'],
             expect_kinds=['postcondition', 'loop_invariant_base', 'loop_invariant_step'], timeout=900); d.update(kw); return d
def bjob(fn):
    # twin without loop contracts (robust against a rewritten loop): descriptor vectors up to 4 entries, complete unwinding - BOUNDED, not counted
    return job(fn, name=fn + '[bounded]', loop_contracts=False, defines=['NIX_TMP_LITERAL', 'NIX_NO_LOOP_CONTRACTS', 'C19_BOUNDED=4'], cbmc_flags=['--unwind', '6', '--unwinding-assertions'],
               expect_kinds=['postcondition', 'unwind'], bounded='descriptor vectors of at most 4 entries, loop unwound completely')
JOBS = [bjob('dimTicksMatchData_call'), bjob('dimLabelsMatchData_call'), bjob('dimDataFrameTicksMatchData_call'), job('dimTicksMatchData_call'), job('dimLabelsMatchData_call'), job('dimDataFrameTicksMatchData_call'),
        job('dimEquals_call', loop_contracts=False, expect_kinds=['postcondition']),
        dict(name='tagUnitsMatchRefsUnits_call', bodies=['tagUnitsMatchRefsUnits_call'], enforce=['tagUnitsMatchRefsUnits_call'], replace=[], includes=['c19_units.h'],
             extra_c='bool gh_scal[NSTR_IDS][NSTR_IDS];\n', cbmc_flags=['--unwind', '5', '--unwinding-assertions'], expect_kinds=['postcondition', 'unwind'], timeout=900,
             bounded='at most 2 referenced arrays, 3 tag units, 3 dimensions per array, 4 distinct unit strings; loops unwound completely under that bound')]
SPEC = dict(contracts=['nd.h', 'dv.h', 'c19_valid.h', 'c19_units.h'], stubs=['dataarray.h'], include_order=['nd.h', 'dataarray.h', 'dv.h', 'c19_valid.h'], units=UNITS, jobs=JOBS,
            trusted_base=['CBMC 6.11.0 (C front end, --dfcc, SAT back end)', 'vlib/cxx2c.py idiom map'] + ND_TRUST +
                         ['DataArray / Dimension handles abstracted to the state the predicates read (extent; descriptor kind, tick / label / row count)',
                          'Dimension::index() of the d-th descriptor is d+1 (descriptors numbered 1..n without gaps: property C13)',
                          'check::fits_in_size_t is the identity on this platform (sizeof(ndsize_t) == sizeof(size_t))'],
            assumptions=['KERNEL ONLY: the rule tables of src/valid/validate.cpp (initializer lists of lambdas: which predicate is attached to which entity, as error or warning) '
                         'and the walk in File::validate are NOT covered; a rule removed from a table is invisible to this check',
                         'quantifiers over descriptors are bounded by the rank limit 32; descriptors beyond the data rank are ignored by the predicates (and flagged by dimEquals)'])
