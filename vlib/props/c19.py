"""C19 validator (kernel): the rule predicates of src/valid/checks.cpp.  DESIGN.md section 7, 12."""
from props.nd_units import ND_UNITS, ND_TRUST, UNW
CK = 'src/valid/checks.cpp'; CH = 'include/nix/valid/checks.hpp'
CL = ['NDSize', 'DataArray', 'Dimension', 'RangeDimension', 'SetDimension', 'DataFrameDimension']
def loop(breach):
    lim = 'C19_MIN(it, self->data.extent.rank)'
    return {0: '__CPROVER_assigns(it, mismatch, nix_exc)\n'
               '__CPROVER_loop_invariant(it <= dims->n && nix_exc == EXC_NONE)\n'
               '__CPROVER_loop_invariant((ghost_k < %s && %s(ghost_k)) ==> mismatch)\n'
               '__CPROVER_loop_invariant(mismatch ==> (it >= 1 && it - 1 < self->data.extent.rank && %s(it - 1)))\n'
               '__CPROVER_decreases(dims->n - it)' % (lim, breach, breach)}
def pred(name, breach):
    return dict(file=CK, locator=r'bool\s+%s::operator\s*\(\s*\)\s*\(' % name, cls=name, cls_file=CH, classes=CL + [name], member_types={'data': 'DataArray'},
                loops=loop(breach), bounded_twin=True)
UNITS = {k: ND_UNITS[k] for k in ('NDSize_size', 'NDSize_at')}
UNITS.update({
    'dimTicksMatchData_call': pred('dimTicksMatchData', 'TICKS_BREACH'),
    'dimLabelsMatchData_call': pred('dimLabelsMatchData', 'LABELS_BREACH'),
    'dimDataFrameTicksMatchData_call': pred('dimDataFrameTicksMatchData', 'ROWS_BREACH'),
    'dimEquals_call': dict(file=CK, locator=r'bool\s+dimEquals::operator\s*\(\s*\)\s*\(', cls='dimEquals', cls_file=CH, classes=CL + ['dimEquals']),
})
def strings_with_content(ctx, toks):
    """std::vector<std::string> whose elements are read: vec_string (length only) -> vec_nstr (elements are abstract string ids)"""
    for t in toks:
        if t.k == 'id' and t.t == 'vec_string': t.t = 'vec_nstr'
    return toks
UNITS['tagUnitsMatchRefsUnits_call'] = dict(file=CK, locator=r'bool\s+tagUnitsMatchRefsUnits::operator\s*\(\s*\)\s*\(', cls='tagUnitsMatchRefsUnits', cls_file=CH,
    classes=['DataArray', 'nstring', 'tagUnitsMatchRefsUnits'], member_types={'units': 'vec_nstr'}, pre_rules=[strings_with_content], calls={'getDimensionsUnits': 'getDimensionsUnits_list'})
def string_values(ctx, toks):
    """X = "literal";  with X a std::string -> X = nstring_lit("literal");   CALL(...).value_or("literal") on an optional string -> opt_nstr_value_or(CALL(...), nstring_lit("literal"))"""
    from cxx2c import Tok, P, match_open, tokenize, fire
    out = []; i = 0
    while i < len(toks):
        t = toks[i]
        if t.k == 'str' and out and out[-1].t == '=' and i + 1 < len(toks) and toks[i + 1].t == ';':
            out.extend(tokenize(' nstring_lit(%s)' % t.t)); i += 1; fire(ctx, 'string-literal-assign'); continue
        if t.t == '.' and out and out[-1].t == ')' and i + 4 < len(toks) and toks[i + 1].t == 'value_or' and toks[i + 2].t == '(' and toks[i + 3].k == 'str' and toks[i + 4].t == ')':
            o = match_open(out, len(out) - 1)
            call = out[o - 1:]; del out[o - 1:]
            ws = call[0].ws; call[0].ws = ''
            out.extend(tokenize('%sopt_nstr_value_or(' % ws)); out.extend(call); out.extend(tokenize(', nstring_lit(%s))' % toks[i + 3].t)); i += 5; fire(ctx, 'optional-value-or'); continue
        out.append(t); i += 1
    return out
UNITS['getDimensionUnit'] = dict(post_rules=[string_values], file='src/util/dataAccess.cpp', locator=r'string\s+getDimensionUnit\s*\(', classes=['Dimension', 'SampledDimension', 'RangeDimension', 'DataFrameDimension', 'nstring'])
def units_list(ctx, toks):
    """std::vector<std::string> of this unit is the ghost list vec_nstr_g;  for (auto &dim : darray.dimensions()) -> hoisted vector + typed loop variable"""
    from cxx2c import Tok, P, seq_at, match_close, tokenize, fire
    out = []; i = 0
    while i < len(toks):
        if toks[i].t == 'for' and seq_at(toks, i + 1, ['(', 'auto', '&']) and toks[i + 5].t == ':':
            e = match_close(toks, i + 1)
            ctx.env['rng_'] = ('vec_Dimension', False)
            out.extend(tokenize('%svec_Dimension rng_ =' % toks[i].ws)); out.extend(toks[i + 6:e]); out.extend(tokenize('; for (Dimension &%s : rng_)' % toks[i + 4].t))
            i = e + 1; fire(ctx, 'range-for-over-call'); continue
        out.append(toks[i]); i += 1
    return out
UNITS['getDimensionsUnits'] = dict(file='src/valid/helper.cpp', locator=r'std::vector<std::string>\s+getDimensionsUnits\s*\(', classes=['DataArray', 'Dimension', 'nstring'], pre_rules=[units_list], bounded_twin=True, ret_default='(vec_string){0}',
    loops={0: '__CPROVER_assigns(_i_dim, gh_du_pushes, units.n, nix_exc)\n__CPROVER_loop_invariant(_i_dim <= rng_.n && gh_du_pushes == _i_dim && units.n == _i_dim && nix_exc == EXC_NONE)\n__CPROVER_decreases(rng_.n - _i_dim)'})
WALK_TYPES = {'blocks': 'vec_Block', 'dataArrays': 'vec_DataArray', 'dimensions': 'vec_Dimension', 'multiTags': 'vec_MultiTag', 'tags': 'vec_Tag', 'features': 'vec_Feature', 'findSources': 'vec_Source',
              'findSections': 'vec_Section', 'properties': 'vec_Property', 'asRangeDimension': 'RangeDimension', 'asSetDimension': 'SetDimension', 'asSampledDimension': 'SampledDimension'}
def walk_types(ctx, toks):
    """File::validate declares everything with auto: the type of  auto X = [obj.]getter();  is read off the getter (table WALK_TYPES, the declared return types of the
       nix front end), the loop variable of  for (auto &x : V)  is V's element type, and the overloaded free function valid::validate(x) is named for x's type"""
    from cxx2c import Tok, P, seq_at, match_close, fire, ExtractError
    types = {}
    out = []; i = 0
    while i < len(toks):
        t = toks[i]
        if t.t == 'auto' and toks[i + 1].k == 'id' and toks[i + 2].t == '=':
            j = i + 3
            while toks[j].t != ';': j += 1
            # the getter is the identifier before the last '('
            k = j - 1
            while toks[k].t != '(': k -= 1
            g = toks[k - 1].t
            if g not in WALK_TYPES: raise ExtractError('auto initialised from unknown getter %s' % g)
            types[toks[i + 1].t] = WALK_TYPES[g]; ctx.env[toks[i + 1].t] = (WALK_TYPES[g], False)
            out.append(Tok('id', WALK_TYPES[g], t.ws)); i += 1; fire(ctx, 'auto-from-getter'); continue
        if t.t == 'for' and seq_at(toks, i + 1, ['(', 'auto', '&']) and toks[i + 5].t == ':' and toks[i + 7].t == ')':
            v = toks[i + 6].t
            if v not in types or not types[v].startswith('vec_'): raise ExtractError('range-for over %s of unknown type' % v)
            elt = types[v][4:]; types[toks[i + 4].t] = elt
            out.extend([t, toks[i + 1], Tok('id', elt, ''), toks[i + 3], toks[i + 4], toks[i + 5], toks[i + 6], toks[i + 7]]); i += 8; fire(ctx, 'auto-loop-variable'); continue
        if t.t == 'validate' and toks[i + 1].t == '(' and toks[i + 2].k == 'id' and toks[i + 3].t == ')':
            x = toks[i + 2].t
            if x not in types: raise ExtractError('validate(%s): type unknown' % x)
            k = len(out)
            while k and out[k - 1].t in ('valid', '::'): k -= 1
            ws = out[k].ws if k < len(out) else t.ws
            del out[k:]; out.append(Tok('id', 'validate_' + types[x], ws)); i += 1; fire(ctx, 'overload-by-argument-type'); continue
        out.append(t); i += 1
    return out
UNITS['File_validate'] = dict(file='src/File.cpp', locator=r'valid::Result\s+File::validate\s*\(', cls='File', cls_file='include/nix/File.hpp', pre_rules=[walk_types], inherited_methods=['findSections'],
    classes=['File', 'Block', 'DataArray', 'Dimension', 'RangeDimension', 'SetDimension', 'SampledDimension', 'MultiTag', 'Tag', 'Feature', 'Source', 'Section', 'Property', 'Result'])
WALKX = 'Ent gh_items[K_COUNT][W_MAX]; size_t gh_n[K_COUNT]; size_t gh_validated[K_COUNT], gh_val_range, gh_val_set, gh_val_sampled, gh_results_made, gh_concats;\n'
DUX = 'size_t gh_du_pushes, gh_ndims; Dimension *gh_dims;\n'
EXTRA = 'const Dimension *gh_dims_base;\n'
def job(fn, **kw):
    d = dict(name=fn, bodies=['NDSize_size', 'NDSize_at', fn], enforce=[fn], replace=[], extra_c=EXTRA, loop_contracts=True, defines=['NIX_TMP_LITERAL'],
             expect_kinds=['postcondition', 'loop_invariant_base', 'loop_invariant_step'], timeout=900); d.update(kw); return d
def bjob(fn):
    # twin without loop contracts (robust against a rewritten loop): descriptor vectors up to 4 entries, complete unwinding - BOUNDED, not counted
    return job(fn, name=fn + '[bounded]', loop_contracts=False, defines=['NIX_TMP_LITERAL', 'NIX_NO_LOOP_CONTRACTS', 'C19_BOUNDED=4'], cbmc_flags=['--unwind', '6', '--unwinding-assertions'],
               expect_kinds=['postcondition', 'unwind'], bounded='descriptor vectors of at most 4 entries, loop unwound completely')
JOBS = [bjob('dimTicksMatchData_call'), bjob('dimLabelsMatchData_call'), bjob('dimDataFrameTicksMatchData_call'), job('dimTicksMatchData_call'), job('dimLabelsMatchData_call'), job('dimDataFrameTicksMatchData_call'),
        job('dimEquals_call', loop_contracts=False, expect_kinds=['postcondition']),
        dict(name='tagUnitsMatchRefsUnits_call', bodies=['tagUnitsMatchRefsUnits_call'], enforce=['tagUnitsMatchRefsUnits_call'], replace=[], includes=['c19_units.h'],
             extra_c='bool gh_scal[NSTR_IDS][NSTR_IDS];\n', cbmc_flags=['--unwind', '5', '--unwinding-assertions'], expect_kinds=['postcondition', 'unwind'], timeout=900,
             bounded='at most 2 referenced arrays, 3 tag units, 3 dimensions per array, 4 distinct unit strings; loops unwound completely under that bound')]
JOBS += [dict(name='getDimensionUnit', bodies=['getDimensionUnit'], enforce=['getDimensionUnit'], replace=[], includes=['c19_dimunit.h'], extra_c=DUX, expect_kinds=['postcondition'], timeout=300),
         dict(name='getDimensionsUnits', bodies=['getDimensionsUnits'], enforce=['getDimensionsUnits'], replace=['getDimensionUnit'], includes=['c19_dimunit.h'], extra_c=DUX, loop_contracts=True,
              expect_kinds=['postcondition', 'loop_invariant_base', 'loop_invariant_step'], timeout=300),
         dict(name='getDimensionsUnits[bounded]', bodies=['getDimensionsUnits'], enforce=['getDimensionsUnits'], replace=['getDimensionUnit'], includes=['c19_dimunit.h'], extra_c=DUX, loop_contracts=False,
              defines=['NIX_NO_LOOP_CONTRACTS', 'C19_BOUNDED=3'], cbmc_flags=['--unwind', '5', '--unwinding-assertions'], expect_kinds=['postcondition', 'unwind'], timeout=300,
              bounded='at most 3 descriptors, loop unwound completely (twin without loop contract)')]
JOBS.append(dict(name='File_validate[bounded]', bodies=['File_validate'], enforce=['File_validate'], replace=[], includes=['c19_walk.h'], extra_c=WALKX, cbmc_flags=['--unwind', '4', '--unwinding-assertions'],
                 expect_kinds=['postcondition', 'unwind'], timeout=900, bounded='every container holds at most 2 entries (blocks, arrays, descriptors, tags, multi-tags, features, sources, sections, properties); all loops unwound completely'))
SPEC = dict(contracts=['nd.h', 'dv.h', 'c19_valid.h', 'c19_units.h', 'c19_dimunit.h', 'c19_walk.h'], stubs=['dataarray.h'], include_order=['nd.h', 'dataarray.h', 'dv.h', 'c19_valid.h'], units=UNITS, jobs=JOBS,
            trusted_base=['CBMC 6.11.0 (C front end, --dfcc, SAT back end)', 'vlib/cxx2c.py idiom map'] + ND_TRUST +
                         ['DataArray / Dimension handles abstracted to the state the predicates read (extent; descriptor kind, tick / label / row count)',
                          'Dimension::index() of the d-th descriptor is d+1 (descriptors numbered 1..n without gaps: property C13)',
                          'check::fits_in_size_t is the identity on this platform (sizeof(ndsize_t) == sizeof(size_t))'],
            assumptions=['KERNEL ONLY: the rule tables of src/valid/validate.cpp (initializer lists of lambdas: which predicate is attached to which entity, as error or warning) '
                         'and the walk in File::validate are NOT covered; a rule removed from a table is invisible to this check',
                         'quantifiers over descriptors are bounded by the rank limit 32; descriptors beyond the data rank are ignored by the predicates (and flagged by dimEquals)'])

SPEC['assumptions'] = list(SPEC.get('assumptions', [])) + ['session 3: getDimensionUnit / getDimensionsUnits - descriptors are records of what is read (kind, unit, column); File::validate is a BOUNDED stand-in (<= 2 entries per container; every parent of a kind has the same children; valid::validate(...) is a ghost counter per entity kind); NDSize::nelms is an arbitrary value (not used by the pinned predicates)']
