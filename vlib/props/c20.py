"""C20 tree searches (kernel): the work-list step of Source::findSources.  DESIGN.md 12."""
from cxx2c import Tok, P, seq_at, fire, match_close, tokenize, split_args
def brace_push(ctx, toks):
    """todo.push({A, B})  ->  todo.push(mk_SourceCont(A, B))   (aggregate initialisation of the queue's element type SourceCont)"""
    out = []; i = 0
    while i < len(toks):
        if toks[i].t == 'push' and toks[i + 1].t == '(' and toks[i + 2].t == '{':
            e = match_close(toks, i + 2)
            out.extend([toks[i], toks[i + 1], Tok('id', 'mk_SourceCont', ''), P('(', '')]); out.extend(toks[i + 3:e]); out.append(P(')', ''))
            i = e + 1; fire(ctx, 'aggregate-init'); continue
        out.append(toks[i]); i += 1
    return out
CL = ['Source', 'SourceCont', 'queue_SourceCont', 'SourceFilterFn']
UNITS = {'source_bfs_step': dict(file='src/Source.cpp', locator=r'std::vector<Source>\s+Source::findSources\s*\(', classes=CL, pre_rules=[brace_push], bounded_twin=True, field_types={'SourceCont': {'entity': 'Source'}},
    region=dict(start=r'SourceCont\s+current\s*=\s*todo\.front\(\)\s*;', end=r'todo\.push\(\{[^;]*;\s*\}\s*\}(?=\s*\}\s*return\s+results)',
                params=[('const util::Filter<Source>::type &', 'filter'), ('size_t', 'max_depth'), ('std::queue<SourceCont> &', 'todo'), ('std::vector<Source> &', 'results')]),
    loops={0: '__CPROVER_assigns(it, gh_enq)\n__CPROVER_loop_invariant(it <= children.n && gh_enq == it)\n__CPROVER_decreases(children.n - it)'})}
def filter_ctor(ctx, toks):
    """nix::util::SourceFilter<nix::T>(KEY) / MetadataFilter<nix::T>(KEY)  (construction of a filter functor)  ->  mk_SourceFilter(KEY) / mk_MetadataFilter(KEY)"""
    out = []; i = 0
    while i < len(toks):
        if toks[i].t in ('SourceFilter', 'MetadataFilter') and i + 1 < len(toks) and toks[i + 1].t == '<':
            j = i + 2; d = 1
            while d:
                if toks[j].t == '<': d += 1
                elif toks[j].t == '>': d -= 1
                j += 1
            if toks[j].t == '(':
                k = len(out)
                while k and out[k - 1].t in ('nix', 'util', '::'): k -= 1
                ws = out[k].ws if k < len(out) else toks[i].ws
                del out[k:]
                out.append(Tok('id', 'mk_' + toks[i].t, ws)); i = j; fire(ctx, 'filter-ctor'); continue
        out.append(toks[i]); i += 1
    return out
def tuple_worklist(ctx, toks):
    """the work list of Section::findSections:  std::tuple<Section, size_t> -> SectionCont {_0, _1};  std::list<SectionCont> -> list_SectionCont;
       std::get<N>(X) -> X._N;  std::make_tuple(a, b) -> mk_SectionCont(a, b);
       for (const auto &s : EXPR) over a call result -> std::vector<Section> _rng = EXPR; for (const Section &s : _rng)"""
    out = []; i = 0
    def skipq(k):
        while k and out[k - 1].t in ('std', '::'): k -= 1
        return k
    while i < len(toks):
        t = toks[i]
        if t.t == 'tuple' and seq_at(toks, i + 1, ['<', 'Section', ',', 'size_t', '>']):
            k = skipq(len(out)); ws = out[k].ws if k < len(out) else t.ws; del out[k:]
            out.append(Tok('id', 'SectionCont', ws)); i += 6; fire(ctx, 'tuple-type'); continue
        if t.t == 'list' and toks[i + 1].t == '<':
            # element type was rewritten already if it is out[..]; here: list < std :: tuple < Section , size_t > >
            j = i + 2; d = 1
            while d:
                if toks[j].t == '<': d += 1
                elif toks[j].t == '>': d -= 1
                elif toks[j].t == '>>': d -= 2
                j += 1
            k = skipq(len(out)); ws = out[k].ws if k < len(out) else t.ws; del out[k:]
            out.append(Tok('id', 'list_SectionCont', ws)); i = j; fire(ctx, 'list-type'); continue
        if t.t == 'get' and toks[i + 1].t == '<' and toks[i + 3].t == '>' and toks[i + 4].t == '(':
            e = match_close(toks, i + 4)
            k = skipq(len(out)); ws = out[k].ws if k < len(out) else t.ws; del out[k:]
            inner = toks[i + 5:e]
            if inner: inner[0].ws = ws
            out.extend(inner); out.append(P('.', '')); out.append(Tok('id', '_' + toks[i + 2].t, '')); i = e + 1; fire(ctx, 'tuple-get'); continue
        if t.t == 'make_tuple' and toks[i + 1].t == '(':
            k = skipq(len(out)); ws = out[k].ws if k < len(out) else t.ws; del out[k:]
            out.append(Tok('id', 'mk_SectionCont', ws)); i += 1; fire(ctx, 'make-tuple'); continue
        out.append(t); i += 1
    toks = out; out = []; i = 0
    while i < len(toks):
        if toks[i].t == 'for' and seq_at(toks, i + 1, ['(', 'const', 'auto', '&']) and toks[i + 6].t == ':':
            e = match_close(toks, i + 1)
            rng = toks[i + 7:e]
            ctx.env['rng_'] = ('vec_Section', False); out.extend(tokenize('%svec_Section rng_ =' % toks[i].ws)); out.extend(rng); out.extend(tokenize('; for (const Section &%s : rng_)' % toks[i + 5].t))
            i = e + 1; fire(ctx, 'range-for-over-call'); continue
        out.append(toks[i]); i += 1
    return out
SCL = ['Section', 'SectionCont', 'list_SectionCont', 'SectionFilterFn']
SUNITS = {
    'addChildrenIfNotMaxDepth': dict(file='src/Section.cpp', locator=r'void\s+addChildrenIfNotMaxDepth\s*\(', classes=SCL, pre_rules=[tuple_worklist], field_types={'SectionCont': {'_0': 'Section'}}, bounded_twin=True,
        loops={0: '__CPROVER_assigns(_i_s, gh_enq)\n__CPROVER_loop_invariant(_i_s <= rng_.n && gh_enq == _i_s)\n__CPROVER_decreases(rng_.n - _i_s)'}),
    'section_bfs_step': dict(file='src/Section.cpp', locator=r'std::vector<Section>\s+Section::findSections\s*\(', classes=SCL, pre_rules=[tuple_worklist], field_types={'SectionCont': {'_0': 'Section'}},
        region=dict(start=r'current\s*=\s*todo\.front\(\)\s*;', end=r'addChildrenIfNotMaxDepth\(current,\s*todo,\s*max_depth\);(?=\s*\}\s*return\s+results)',
                    params=[('const util::Filter<Section>::type &', 'filter'), ('size_t', 'max_depth'), ('std::list<std::tuple<Section, size_t>> &', 'todo'), ('std::vector<Section> &', 'results'),
                            ('std::tuple<Section, size_t> &', 'current')])),
}
def link_none(ctx, toks):
    """link() == none  ->  linkIsNone()   (the section has no linked section)"""
    out = []; i = 0
    while i < len(toks):
        if seq_at(toks, i, ['link', '(', ')', '==', 'none']) or seq_at(toks, i, ['link', '(', ')', '==', 'OPT_NONE']):
            out.extend(tokenize('%slinkIsNone()' % toks[i].ws)); i += 5; fire(ctx, 'link-none'); continue
        out.append(toks[i]); i += 1
    return out
SUNITS['section_inherit_sources'] = dict(file='src/Section.cpp', locator=r'std::vector<Property>\s+Section::inheritedProperties\s*\(', cls='Section', cls_file='include/nix/Section.hpp', classes=['Section', 'Property'],
    pre_rules=[link_none], inherited_methods=['linkIsNone'],
    region=dict(start=r'std::vector<Property>\s+own\s*=\s*properties\(\)\s*;', end=r'const\s+std::vector<Property>\s+linked\s*=[^;]*;', params=[], ret='std::vector<Property>', ret_expr='linked'))
def append_idiom(ctx, toks):
    """X.insert(X.end(), Y.begin(), Y.end())  (append Y to X)  ->  X.append(Y);   std::vector<Section> secs = root.findSections(..) is the answer value vec_SectionA"""
    out = []; i = 0
    while i < len(toks):
        t = toks[i]
        if t.k == 'id' and seq_at(toks, i + 1, ['.', 'insert', '(', t.t, '.', 'end', '(', ')', ',']) and seq_at(toks, i + 11, ['.', 'begin', '(', ')', ',', toks[i + 10].t, '.', 'end', '(', ')', ')']):
            out.extend(tokenize('%svec_Section_append(%s, %s)' % (t.ws, t.t, toks[i + 10].t))); i += 22; fire(ctx, 'vector-append'); continue
        if t.t == 'vec_Section' and toks[i + 1].t == 'secs':
            out.append(Tok('id', 'vec_SectionA', t.ws)); ctx.env['secs'] = ('vec_SectionA', False); i += 1; continue
        out.append(t); i += 1
    return out
SUNITS['file_find_root'] = dict(file='src/File.cpp', locator=r'std::vector<Section>\s+File::findSections\s*\(', classes=['Section', 'SectionFilterFn', 'vec_SectionA'], pre_rules=[append_idiom],
    calls={'findSections': 'findSections_a'},
    region=dict(start=r'if\s*\(\s*filter\(root\)\s*\)', end=r'results\.insert\(results\.end\(\),\s*secs\.begin\(\),\s*secs\.end\(\)\);',
                params=[('const util::Filter<Section>::type &', 'filter'), ('size_t', 'max_depth'), ('std::vector<Section> &', 'results'), ('Section &', 'root')]))
def source_append(ctx, toks):
    """result.insert(result.end(), matches.begin(), matches.end()) -> vec_Source_append(result, matches); the answer vector matches is the value type vec_SourceA"""
    out = []; i = 0
    while i < len(toks):
        t = toks[i]
        if t.k == 'id' and seq_at(toks, i + 1, ['.', 'insert', '(', t.t, '.', 'end', '(', ')', ',']) and seq_at(toks, i + 11, ['.', 'begin', '(', ')', ',', toks[i + 10].t, '.', 'end', '(', ')', ')']):
            out.extend(tokenize('%svec_Source_append(%s, %s)' % (t.ws, t.t, toks[i + 10].t))); i += 22; fire(ctx, 'vector-append'); continue
        out.append(t); i += 1
    return out
UNITS['block_find_probe'] = dict(file='src/Block.cpp', locator=r'std::vector<Source>\s+Block::findSources\s*\(', classes=['Source', 'SourceFilterFn', 'vec_SourceA'], pre_rules=[source_append],
    calls={'findSources': 'findSources_a'},
    region=dict(start=r'matches\s*=\s*probe\.findSources\(', end=r'result\.insert\(result\.end\(\),\s*matches\.begin\(\),\s*matches\.end\(\)\);',
                params=[('const util::Filter<Source>::type &', 'filter'), ('size_t', 'max_depth'), ('const Source &', 'probe'), ('vec_SourceA &', 'matches'), ('std::vector<Source> &', 'result')]))
BCL = ['Source', 'Section', 'Block', 'File', 'DataArray', 'Tag', 'MultiTag', 'nstring', 'EntFilter']
def br(cls, meth, ret, byblock=False):
    f = 'src/%s.cpp' % cls
    la = r'(?=\s*const\s+Block\s*&\s*b\s*\))' if byblock else r'(?=\s*\))'
    return dict(file=f, cls=cls, cls_file='include/nix/%s.hpp' % cls, classes=BCL, pre_rules=[filter_ctor], inherited_methods=['id', 'name'], locator=r'%s\s+%s::%s\s*\(%s' % (ret, cls, meth, la))
BUNITS = {
    'Source_referringDataArrays': br('Source', 'referringDataArrays', r'std::vector<nix::DataArray>'),
    'Source_referringTags': br('Source', 'referringTags', r'std::vector<nix::Tag>'),
    'Source_referringMultiTags': br('Source', 'referringMultiTags', r'std::vector<nix::MultiTag>'),
    'Source_parentSource': br('Source', 'parentSource', r'nix::Source'),
    'Section_referringBlocks': br('Section', 'referringBlocks', r'std::vector<nix::Block>'),
    'Section_referringDataArrays_b': br('Section', 'referringDataArrays', r'std::vector<nix::DataArray>', True),
    'Section_referringTags_b': br('Section', 'referringTags', r'std::vector<nix::Tag>', True),
    'Section_referringMultiTags_b': br('Section', 'referringMultiTags', r'std::vector<nix::MultiTag>', True),
    'Section_referringSources_b': br('Section', 'referringSources', r'std::vector<nix::Source>', True),
}
UNITS.update(BUNITS); UNITS.update(SUNITS)
def filewide_rules(kind, resvar):
    def rule(ctx, toks):
        """std::vector<nix::T> temp = referringX(b); -> vec_EntA temp = referringX_blk(b);   RES.insert(RES.end(), temp.begin(), temp.end()) -> vec_Ent_append(RES, temp)"""
        out = []; i = 0
        while i < len(toks):
            t = toks[i]
            if t.t.startswith('vec_') and toks[i + 1].t == 'temp' and toks[i + 2].t == '=':
                out.extend(tokenize('%svec_EntA temp = %s_blk' % (t.ws, toks[i + 3].t))); ctx.env['temp'] = ('vec_EntA', False); i += 4; fire(ctx, 'answer-value'); continue
            if t.k == 'id' and t.t == resvar and seq_at(toks, i + 1, ['.', 'insert', '(', resvar, '.', 'end', '(', ')', ',', 'temp', '.', 'begin', '(', ')', ',', 'temp', '.', 'end', '(', ')', ')']):
                out.extend(tokenize('%svec_Ent_append(%s, temp)' % (t.ws, resvar))); i += 22; fire(ctx, 'vector-append'); continue
            out.append(t); i += 1
        return out
    return rule
FWUNITS = {}
for _fn, _meth, _ret, _res in (('section_filewide_arrays', 'referringDataArrays', 'DataArray', 'arrays'), ('section_filewide_tags', 'referringTags', 'Tag', 'tags'),
                               ('section_filewide_mtags', 'referringMultiTags', 'MultiTag', 'tags'), ('section_filewide_sources', 'referringSources', 'Source', 'srcs')):
    FWUNITS[_fn] = dict(file='src/Section.cpp', cls='Section', cls_file='include/nix/Section.hpp', classes=BCL + ['vec_EntA'], pre_rules=[filewide_rules(_meth, _res)], inherited_methods=['id', 'name', _meth + '_blk'],
        locator=r'std::vector<nix::%s>\s+Section::%s\s*\((?=\s*\))' % (_ret, _meth),
        region=dict(start=r'std::vector<nix::%s>\s+temp\s*=' % _ret, end=r'%s\.insert\(%s\.end\(\),\s*temp\.begin\(\),\s*temp\.end\(\)\);' % (_res, _res),
                    params=[('Block &', 'b'), ('std::vector<nix::%s> &' % _ret, _res)]))
UNITS.update(FWUNITS)
BEXTRA = 'int gh_q_calls, gh_q_container, gh_parent_calls; query_kind gh_q_kind; EntFilter gh_q_filter; vec_Ent gh_answer;\n'
EXTRA = ('SourceCont gh_cur; int gh_pops, gh_filter_calls, gh_filter_node, gh_filter_ok, gh_res_pushes, gh_res_node; size_t gh_enq; Source *gh_children; size_t gh_nchildren; int gh_children_of;\n')
JOBS = [dict(name='source_bfs_step', bodies=['source_bfs_step'], enforce=['source_bfs_step'], replace=[], extra_c=EXTRA, loop_contracts=True,
             expect_kinds=['postcondition', 'loop_invariant_base', 'loop_invariant_step'], timeout=300),
        dict(name='source_bfs_step[bounded]', bodies=['source_bfs_step'], enforce=['source_bfs_step'], replace=[], extra_c=EXTRA, loop_contracts=False, defines=['NIX_NO_LOOP_CONTRACTS', 'C20_BOUNDED=3'],
             cbmc_flags=['--unwind', '5', '--unwinding-assertions'], expect_kinds=['postcondition', 'unwind'], timeout=300, bounded='at most 3 children, loop unwound completely (twin without loop contract)')]
JOBS.append(dict(name='block_find_probe', bodies=['block_find_probe'], enforce=['block_find_probe'], replace=[], extra_c=EXTRA + 'int gh_bs_calls, gh_bs_node, gh_bs_filter, gh_bs_appends, gh_bs_append_serial; size_t gh_bs_depth;\n', expect_kinds=['postcondition'], timeout=300))
for j in JOBS: j['includes'] = ['c20_search.h']
JOBS += [dict(name=fn, bodies=[fn], enforce=[fn], replace=[], extra_c=BEXTRA, includes=['c20_backref.h'], expect_kinds=['postcondition'], timeout=300) for fn in BUNITS]
SEXTRA = ('SectionCont gh_front; int gh_pops, gh_filter_calls, gh_filter_node, gh_filter_ok, gh_res_pushes, gh_res_node, gh_expand_calls, gh_expand_node; size_t gh_expand_depth, gh_enq, gh_nchildren, gh_parent_depth; Section *gh_children; int gh_children_of;\n'
          'int gh_link_none, gh_prop_calls_self, gh_prop_calls_link, gh_inh_calls;\n'
          'int gh_fs_calls, gh_fs_node, gh_fs_filter, gh_fs_after_report, gh_fs_appends, gh_fs_append_serial, gh_fs_append_after_report; size_t gh_fs_depth;\n')
JOBS += [dict(name='addChildrenIfNotMaxDepth', bodies=['addChildrenIfNotMaxDepth'], enforce=['addChildrenIfNotMaxDepth'], replace=[], extra_c=SEXTRA, includes=['c20_section.h'], loop_contracts=True,
              expect_kinds=['postcondition', 'loop_invariant_base', 'loop_invariant_step'], timeout=300),
         dict(name='addChildrenIfNotMaxDepth[bounded]', bodies=['addChildrenIfNotMaxDepth'], enforce=['addChildrenIfNotMaxDepth'], replace=[], extra_c=SEXTRA, includes=['c20_section.h'], loop_contracts=False,
              defines=['NIX_NO_LOOP_CONTRACTS', 'C20_BOUNDED=3'], cbmc_flags=['--unwind', '5', '--unwinding-assertions'], expect_kinds=['postcondition', 'unwind'], timeout=300,
              bounded='at most 3 children, loop unwound completely (twin without loop contract)'),
         dict(name='section_inherit_sources', bodies=['section_inherit_sources'], enforce=['section_inherit_sources'], replace=[], extra_c=SEXTRA, includes=['c20_section.h'], expect_kinds=['postcondition'], timeout=300),
         dict(name='file_find_root', bodies=['file_find_root'], enforce=['file_find_root'], replace=[], extra_c=SEXTRA, includes=['c20_section.h'], expect_kinds=['postcondition'], timeout=300),
         dict(name='section_bfs_step', bodies=['section_bfs_step'], enforce=['section_bfs_step'], replace=['addChildrenIfNotMaxDepth'], extra_c=SEXTRA, includes=['c20_section.h'],
              expect_kinds=['postcondition', 'precondition'], timeout=300)]
FWX = 'int gh_fw_calls, gh_fw_block, gh_fw_kind, gh_fw_appends, gh_fw_append_serial;\n'
JOBS += [dict(name=fn, bodies=[fn], enforce=[fn], replace=[], extra_c=BEXTRA + FWX, includes=['c20_backref.h'], expect_kinds=['postcondition'], timeout=300) for fn in FWUNITS]
SPEC = dict(contracts=['c20_search.h', 'c20_backref.h', 'c20_section.h'], stubs=[], units=UNITS, jobs=JOBS,
            trusted_base=['CBMC 6.11.0 (C front end, --dfcc, SAT back end)', 'vlib/cxx2c.py idiom map incl. region units',
                          'ASSUMED: std::queue is first-in first-out; std::vector::push_back appends; the filter is a pure predicate; Source::sources() lists the children in index order',
                          'struct SourceCont {Source entity; size_t depth;} restated in the contract header'],
            assumptions=['KERNEL ONLY: the step of the work-list traversal of Source::findSources (what is dequeued, filtered, reported, enqueued with which depth). That the loop runs until the queue is empty and starts from '
                         '{*this, 0} is read off the four remaining lines, not proved; the equivalence with a brute-force traversal of an arbitrary tree (an induction over the tree) is NOT proved; '
                         'Section::findSections / findRelated (std::list of std::tuple), File::findSections, Block::findSources, the back-reference queries and inheritedProperties (lambdas, std::function) are NOT covered'])

SPEC['assumptions'] = list(SPEC.get('assumptions', [])) + ['session 3: Section::findSections units, File::findSections / Block::findSources loop bodies, back-reference queries, inheritedProperties sources - std::list / std::tuple / vectors / filters / containers are ghost records; ASSUMED: the enumeration of a container with a filter returns exactly the entities the filter accepts (getEntities, not under contract); the shadowing merge of inheritedProperties is NOT covered']
