"""C20 tree searches (kernel): the work-list step of Source::findSources.  DESIGN.md 12."""
from cxx2c import Tok, P, seq_at, fire, match_close, tokenize, split_args
def brace_push(ctx, toks):
    """todo.push({A, B})  ->  todo.push(mk_SourceCont(A, B))   (aggregate initialisation of the queue's element type SourceCont)"""
    out = []; i = 0
    while i < len(toks):
        if toks[i].t == 'push' and toks[i + 1].t == '(' and toks[i + 2].t == '{':
            e = match_close(toks, i + 2)
            out.extend([toks[i], toks[i + 1], Tok('id', 'mk_SourceCont', ''), P('(', '')]); out.extend(toks[i + 3:e]); out.append(P(')', ''))
            i = e + 1; fire(ctx, 'aggregate-init'); continue
        out.append(toks[i]); i += 1
    return out
CL = ['Source', 'SourceCont', 'queue_SourceCont', 'SourceFilterFn']
UNITS = {'source_bfs_step': dict(file='src/Source.cpp', locator=r'std::vector<Source>\s+Source::findSources\s*\(', classes=CL, pre_rules=[brace_push], bounded_twin=True, field_types={'SourceCont': {'entity': 'Source'}},
    region=dict(start=r'SourceCont\s+current\s*=\s*todo\.front\(\)\s*;', end=r'todo\.push\(\{[^;]*;\s*\}\s*\}(?=\s*\}\s*return\s+results)',
                params=[('const util::Filter<Source>::type &', 'filter'), ('size_t', 'max_depth'), ('std::queue<SourceCont> &', 'todo'), ('std::vector<Source> &', 'results')]),
    loops={0: '__CPROVER_assigns(it, gh_enq)\n__CPROVER_loop_invariant(it <= children.n && gh_enq == it)\n__CPROVER_decreases(children.n - it)'})}
def filter_ctor(ctx, toks):
    """nix::util::SourceFilter<nix::T>(KEY) / MetadataFilter<nix::T>(KEY)  (construction of a filter functor)  ->  mk_SourceFilter(KEY) / mk_MetadataFilter(KEY)"""
    out = []; i = 0
    while i < len(toks):
        if toks[i].t in ('SourceFilter', 'MetadataFilter') and i + 1 < len(toks) and toks[i + 1].t == '<':
            j = i + 2; d = 1
            while d:
                if toks[j].t == '<': d += 1
                elif toks[j].t == '>': d -= 1
                j += 1
            if toks[j].t == '(':
                k = len(out)
                while k and out[k - 1].t in ('nix', 'util', '::'): k -= 1
                ws = out[k].ws if k < len(out) else toks[i].ws
                del out[k:]
                out.append(Tok('id', 'mk_' + toks[i].t, ws)); i = j; fire(ctx, 'filter-ctor'); continue
        out.append(toks[i]); i += 1
    return out
BCL = ['Source', 'Section', 'Block', 'File', 'DataArray', 'Tag', 'MultiTag', 'nstring', 'EntFilter']
def br(cls, meth, ret, byblock=False):
    f = 'src/%s.cpp' % cls
    la = r'(?=\s*const\s+Block\s*&\s*b\s*\))' if byblock else r'(?=\s*\))'
    return dict(file=f, cls=cls, cls_file='include/nix/%s.hpp' % cls, classes=BCL, pre_rules=[filter_ctor], inherited_methods=['id', 'name'], locator=r'%s\s+%s::%s\s*\(%s' % (ret, cls, meth, la))
BUNITS = {
    'Source_referringDataArrays': br('Source', 'referringDataArrays', r'std::vector<nix::DataArray>'),
    'Source_referringTags': br('Source', 'referringTags', r'std::vector<nix::Tag>'),
    'Source_referringMultiTags': br('Source', 'referringMultiTags', r'std::vector<nix::MultiTag>'),
    'Source_parentSource': br('Source', 'parentSource', r'nix::Source'),
    'Section_referringBlocks': br('Section', 'referringBlocks', r'std::vector<nix::Block>'),
    'Section_referringDataArrays_b': br('Section', 'referringDataArrays', r'std::vector<nix::DataArray>', True),
    'Section_referringTags_b': br('Section', 'referringTags', r'std::vector<nix::Tag>', True),
    'Section_referringMultiTags_b': br('Section', 'referringMultiTags', r'std::vector<nix::MultiTag>', True),
    'Section_referringSources_b': br('Section', 'referringSources', r'std::vector<nix::Source>', True),
}
UNITS.update(BUNITS)
BEXTRA = 'int gh_q_calls, gh_q_container, gh_parent_calls; query_kind gh_q_kind; EntFilter gh_q_filter; vec_Ent gh_answer;\n'
EXTRA = ('SourceCont gh_cur; int gh_pops, gh_filter_calls, gh_filter_node, gh_filter_ok, gh_res_pushes, gh_res_node; size_t gh_enq; Source *gh_children; size_t gh_nchildren; int gh_children_of;\n')
JOBS = [dict(name='source_bfs_step', bodies=['source_bfs_step'], enforce=['source_bfs_step'], replace=[], extra_c=EXTRA, loop_contracts=True,
             expect_kinds=['postcondition', 'loop_invariant_base', 'loop_invariant_step'], timeout=300),
        dict(name='source_bfs_step[bounded]', bodies=['source_bfs_step'], enforce=['source_bfs_step'], replace=[], extra_c=EXTRA, loop_contracts=False, defines=['NIX_NO_LOOP_CONTRACTS', 'C20_BOUNDED=3'],
             cbmc_flags=['--unwind', '5', '--unwinding-assertions'], expect_kinds=['postcondition', 'unwind'], timeout=300, bounded='at most 3 children, loop unwound completely (twin without loop contract)')]
for j in JOBS: j['includes'] = ['c20_search.h']
JOBS += [dict(name=fn, bodies=[fn], enforce=[fn], replace=[], extra_c=BEXTRA, includes=['c20_backref.h'], expect_kinds=['postcondition'], timeout=300) for fn in BUNITS]
SPEC = dict(contracts=['c20_search.h', 'c20_backref.h'], stubs=[], units=UNITS, jobs=JOBS,
            trusted_base=['CBMC 6.11.0 (C front end, --dfcc, SAT back end)', 'vlib/cxx2c.py idiom map incl. region units',
                          'ASSUMED: std::queue is first-in first-out; std::vector::push_back appends; the filter is a pure predicate; Source::sources() lists the children in index order',
                          'struct SourceCont {Source entity; size_t depth;} restated in the contract header'],
            assumptions=['KERNEL ONLY: the step of the work-list traversal of Source::findSources (what is dequeued, filtered, reported, enqueued with which depth). That the loop runs until the queue is empty and starts from '
                         '{*this, 0} is read off the four remaining lines, not proved; the equivalence with a brute-force traversal of an arbitrary tree (an induction over the tree) is NOT proved; '
                         'Section::findSections / findRelated (std::list of std::tuple), File::findSections, Block::findSources, the back-reference queries and inheritedProperties (lambdas, std::function) are NOT covered'])
