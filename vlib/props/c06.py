"""C06 MultiTag retrieval (kernel): two statement regions of src/util/dataAccess.cpp.  DESIGN.md 7, 12."""
from cxx2c import Tok, P, seq_at, fire, tokenize
from props.nd_units import ND_UNITS, ND_TRUST, UNW, rank_cases
DA = 'src/util/dataAccess.cpp'
SUBS = [(['end_positions', '[', 'dim_index', ']', '[', 'i', ']'], 'end_pos'), (['start_positions', '[', 'dim_index', ']', '[', 'i', ']'], 'start_pos'),
        (['units', '[', 'dim_index', ']'], 'unit'), (['dimensions', '[', 'dim_index', ']'], 'dimension')]
def live_ins(ctx, toks):
    """element accesses of the enclosing function's vectors become the region's scalar live-in parameters"""
    out = []; i = 0
    while i < len(toks):
        for seq, name in SUBS:
            if seq_at(toks, i, seq):
                out.append(Tok('id', name, toks[i].ws)); i += len(seq); fire(ctx, 'region-live-in'); break
        else:
            out.append(toks[i]); i += 1
    return out
def rename(mapping):
    def rule(ctx, toks):
        for t in toks:
            if t.k == 'id' and t.t in mapping: t.t = mapping[t.t]
        return toks
    return rule
CL = ['NDSize', 'DataArray', 'DataView', 'nstring', 'Dimension', 'vec_DataView']
UNITS = {k: ND_UNITS[k] for k in ('NDSize_size', 'NDSize_at', 'NDSize_bool', 'NDSize_allocate', 'NDSize_fill', 'NDSize_ctor_fill', 'NDSize_copy_ctor')}
UNITS.update({
    'mtag_assemble_dim': dict(file=DA, locator=r'void\s+getOffsetAndCount\s*\((?=\s*const\s+MultiTag\s*&\s*tag\s*,\s*const\s+DataArray\s*&\s*array\s*,\s*const\s+vector)', classes=CL,
        pre_rules=[live_ins], calls={'positionToIndex': 'positionToIndex_scalar'},
        region=dict(start=r'if\s*\(\s*opt_range\s*\)\s*\{', end=r'\}\s*\}\s*(?=\}\s*offsets\.push_back)',
                    params=[('boost::optional<std::pair<ndsize_t, ndsize_t>>', 'opt_range'), ('NDSize &', 'data_offset'), ('NDSize &', 'data_count'), ('NDSize &', 'temp_offset'),
                            ('size_t', 'dim_index'), ('size_t', 'i'), ('double', 'start_pos'), ('double', 'end_pos'), ('const std::string &', 'unit'), ('const Dimension &', 'dimension')])),
    'mtag_indexed_slice': dict(file=DA, locator=r'std::vector<DataView>\s+featureData\s*\((?=\s*const\s+MultiTag\s*&\s*tag\s*,\s*std::vector<ndsize_t>\s+position_indices\s*,\s*const\s+Feature)', classes=CL,
        post_rules=[rename({'DataArray_dataExtent': 'DataArray_dataExtent_copy'})],
        region=dict(start=r'NDSize\s+offset\(data\.dataExtent\(\)\.size\(\),\s*0\);\s*offset\[0\]', end=r'views\.push_back\(io\);(?=\s*\}\s*\}\s*else)',
                    params=[('const DataArray &', 'data'), ('const std::vector<ndsize_t> &', 'position_indices'), ('size_t', 'idx'), ('vec_DataView &', 'views')])),
})
FD = r'std::vector<DataView>\s+featureData\s*\((?=\s*const\s+MultiTag\s*&\s*tag\s*,\s*std::vector<ndsize_t>\s+position_indices\s*,\s*const\s+Feature)'
UNITS['mtag_feature_gate'] = dict(file=DA, locator=FD, classes=CL + ['MultiTag', 'Feature'], calls={'taggedData': 'taggedData_mtag_counted'},
    region=dict(start=r'if\s*\(\s*feature\.linkType\(\)\s*==\s*LinkType::Tagged\s*\)', end=r'(?=if\s*\(\s*feature\.linkType\(\)\s*==\s*LinkType::Indexed\s*\))', ret='std::vector<DataView>', ret_expr='views',
                params=[('const MultiTag &', 'tag'), ('std::vector<ndsize_t> &', 'position_indices'), ('const Feature &', 'feature'), ('const DataArray &', 'data'), ('RangeMatch', 'match'), ('std::vector<DataView>', 'views')]))
UNITS['mtag_untagged_whole'] = dict(file=DA, locator=FD, classes=CL,
    region=dict(start=r'NDSize\s+offset\(data\.dataExtent\(\)\.size\(\),\s*0\);\s*DataView\s+io\s*=\s*DataView\(data,\s*data\.dataExtent\(\)', end=r'views\.push_back\(io\);(?=\s*\}\s*\}\s*return\s+views)',
                params=[('const DataArray &', 'data'), ('vec_DataView &', 'views')]))
UNITS['mtag_index_gate'] = dict(file=DA, locator=r'void\s+getOffsetAndCount\s*\((?=\s*const\s+MultiTag\s*&\s*tag\s*,\s*const\s+DataArray\s*&\s*array\s*,\s*const\s+vector)', classes=CL,
    # starts at the statement before the gate so that a guard for the empty list is part of the region
    region=dict(start=r'if\s*\(\s*extents\s*\)\s*\{\s*extent_size\s*=', end=r'(?=size_t\s+dimcount_sizet\s*=)',
                params=[('const std::vector<ndsize_t> &', 'indices'), ('const DataArray &', 'positions'), ('const DataArray &', 'extents'), ('NDSize &', 'extent_size')]))
def index_list_ctor(ctx, toks):
    """std::vector<ndsize_t> NAME(1, X);  (count, value constructor)  ->  vec_ndsize NAME = mk_vec_ndsize_fill(1, X);"""
    out = []; i = 0
    while i < len(toks):
        if toks[i].t == 'vec_ndsize' and i + 2 < len(toks) and toks[i + 1].k == 'id' and toks[i + 2].t == '(':
            out.extend([toks[i], toks[i + 1]]); out.extend(tokenize(' = mk_vec_ndsize_fill')); i += 2; fire(ctx, 'vector-fill-ctor'); continue
        out.append(toks[i]); i += 1
    return out
def list_call_index(ctx, toks):
    """featureData(...)[0]  (element of the returned vector)  ->  featureData_mtag_list(...).data[0]"""
    from cxx2c import match_close
    out = []; i = 0
    while i < len(toks):
        out.append(toks[i])
        if toks[i].t == 'featureData_mtag_list' and toks[i + 1].t == '(':
            e = match_close(toks, i + 1)
            out.extend(toks[i + 1:e + 1]); i = e + 1
            if toks[i].t == '[':
                out.append(P('.', '')); out.append(Tok('id', 'data', '')); fire(ctx, 'call-result-index')
            continue
        i += 1
    return out
def single_overload(ctx, toks):
    """overload resolution by argument type, for the one case a changed body may produce: featureData(tag, <scalar position>, <Feature>[, match]) is the
       single-position overload taking the feature (its own unit), not the list overload"""
    from cxx2c import match_close, split_args
    for i, t in enumerate(toks):
        if t.t == 'featureData' and toks[i + 1].t == '(':
            e = match_close(toks, i + 1)
            args = split_args(toks[i + 2:e])
            if len(args) in (3, 4) and len(args[1]) == 1 and args[1][0].t == 'position_index' and [x.t for x in args[2]][:1] != ['feature_index']:
                t.t = 'featureData_mtag_pos_feature'; fire(ctx, 'overload-by-argument-type')
    return toks
import props.c05 as _c05
SINGLE_DEFAULTS = _c05.default_args({'featureData_mtag_pos_feature': ('include/nix/util/dataAccess.hpp', r'DataView\s+featureData\s*\((?=\s*const\s+MultiTag\s*&\s*tag\s*,\s*ndsize_t\s+position_index\s*,\s*const\s+Feature)', 4)})
LSUBS = [(['start_positions', '[', 'dim_index', ']'], 'starts_d'), (['end_positions', '[', 'dim_index', ']'], 'ends_d'), (['units', '[', 'dim_index', ']'], 'unit_d'),
         (['dimensions', '[', 'dim_index', ']'], 'dimension_d')]
def lookup_rules(ctx, toks):
    """region live-ins (the vectors of dimension dim_index), ghost vector types, and  vector<string> temp_units(N, U);  ->  vec_string_g temp_units = mk_vec_string_g_fill(N, U);"""
    out = []; i = 0
    while i < len(toks):
        for seq, name in LSUBS:
            if seq_at(toks, i, seq):
                out.append(Tok('id', name, toks[i].ws)); i += len(seq); fire(ctx, 'region-live-in'); break
        else:
            out.append(toks[i]); i += 1
    toks = out; out = []; i = 0
    while i < len(toks):
        t = toks[i]
        if t.t == 'vec_string' and toks[i + 1].k == 'id' and toks[i + 2].t == '(':
            out.extend(tokenize('%svec_string_g %s = mk_vec_string_g_fill' % (t.ws, toks[i + 1].t))); ctx.env[toks[i + 1].t] = ('vec_string_g', False); i += 2; fire(ctx, 'vector-fill-ctor'); continue
        if t.t == 'vec_opt_pair' and toks[i + 1].k == 'id':
            out.append(Tok('id', 'vec_opt_pair_g', t.ws)); i += 1; continue
        out.append(t); i += 1
    return out
UNITS['mtag_lookup_dim'] = dict(file=DA, locator=r'void\s+getOffsetAndCount\s*\((?=\s*const\s+MultiTag\s*&\s*tag\s*,\s*const\s+DataArray\s*&\s*array\s*,\s*const\s+vector)',
    classes=['vec_double_g', 'vec_string_g', 'vec_opt_pair_g', 'vec_rows_g', 'Dimension', 'nstring'], pre_rules=[lookup_rules], calls={'positionToIndex': 'positionToIndex_vec'},
    region=dict(start=r'vector<string>\s+temp_units\(', end=r'data_indices\.push_back\(ranges\);',
                params=[('vec_double_g &', 'starts_d'), ('vec_double_g &', 'ends_d'), ('const std::string &', 'unit_d'), ('RangeMatch', 'match'), ('const Dimension &', 'dimension_d'), ('vec_rows_g &', 'data_indices')]))
LKX = 'int gh_lk_calls, gh_lk_starts, gh_lk_ends, gh_lk_unit, gh_lk_rows_pushed, gh_lk_row_serial, gh_unspecified; size_t gh_lk_units_n; RangeMatch gh_lk_match;\n'
SCL = ['MultiTag', 'Feature', 'DataView']
UNITS['featureData_mtag_pos_index'] = dict(file=DA, locator=r'DataView\s+featureData\s*\((?=\s*const\s+MultiTag\s*&\s*tag\s*,\s*ndsize_t\s+position_index\s*,\s*ndsize_t\s+feature_index)', classes=SCL,
    pre_rules=[index_list_ctor, single_overload, SINGLE_DEFAULTS], post_rules=[list_call_index], calls={'featureData': 'featureData_mtag_list'})
UNITS['featureData_mtag_pos_feature'] = dict(file=DA, locator=r'DataView\s+featureData\s*\((?=\s*const\s+MultiTag\s*&\s*tag\s*,\s*ndsize_t\s+position_index\s*,\s*const\s+Feature)', classes=SCL,
    pre_rules=[index_list_ctor], post_rules=[list_call_index], calls={'featureData': 'featureData_mtag_list'})
SGX = 'int gh_list_calls, gh_get_calls; size_t gh_list_n; ndsize_t gh_list_first, gh_list_feature; RangeMatch gh_list_match; DataView gh_answer[1];\n'
EXTRA = ('size_t gh_max_idx; int gh_mtagged_calls;\n' + 'opt_ndsize gh_ge; opt_pair gh_pair; double gh_pair_start, gh_pair_end; RangeMatch gh_pair_match; int gh_pair_calls; int gh_pushed;\nint gh_views; size_t gh_view_count_rank, gh_view_offset_rank; ndsize_t gh_view_count_k, gh_view_offset_k; const ndsize_t *gh_view_extent_dims;\n'
         'int gh_tagged_calls, gh_backend_feature_gets, gh_backend_reference_gets; ndsize_t gh_backend_get_index;\n')
ACC = ['NDSize_size', 'NDSize_at', 'NDSize_bool', 'NDSize_allocate', 'NDSize_fill', 'NDSize_ctor_fill', 'NDSize_copy_ctor']
JOBS = [dict(name='mtag_assemble_dim', bodies=['NDSize_size', 'NDSize_at', 'mtag_assemble_dim'], enforce=['mtag_assemble_dim'], replace=['positionToIndex_scalar'], extra_c=EXTRA,
             defines=['ND_FULL_ALLOC'], cbmc_flags=UNW, expect_kinds=['postcondition', 'assigns'], timeout=900)]
for j in rank_cases(dict(name='mtag_indexed_slice', bodies=ACC + ['mtag_indexed_slice'], enforce=['mtag_indexed_slice'], replace=['positionAndExtentInData', 'mk_DataView_3'], extra_c=EXTRA,
                         cbmc_flags=UNW, expect_kinds=['postcondition'], timeout=1500)):
    r = int(j['name'].split('rank=')[1].rstrip(']'))
    j['tiers'] = ('quick', 'thorough') if r <= 3 else ('thorough',)
    JOBS.append(j)
JOBS.append(dict(name='mtag_feature_gate', bodies=['NDSize_size', 'NDSize_at', 'mtag_feature_gate'], enforce=['mtag_feature_gate'], replace=['std_max_element_idx'], extra_c=EXTRA,
                 defines=['NIX_TMP_LITERAL'], cbmc_flags=UNW, expect_kinds=['postcondition'], timeout=900))
JOBS.append(dict(name='mtag_index_gate', bodies=['NDSize_size', 'NDSize_at', 'mtag_index_gate'], enforce=['mtag_index_gate'], replace=['std_max_element_idx'], extra_c=EXTRA,
                 defines=['NIX_TMP_LITERAL'], cbmc_flags=UNW, expect_kinds=['postcondition'], timeout=900))
for j in rank_cases(dict(name='mtag_untagged_whole', bodies=ACC + ['mtag_untagged_whole'], enforce=['mtag_untagged_whole'], replace=['mk_DataView_3'], extra_c=EXTRA,
                         cbmc_flags=UNW, expect_kinds=['postcondition'], timeout=900)):
    r = int(j['name'].split('rank=')[1].rstrip(']'))
    j['tiers'] = ('quick', 'thorough') if r <= 3 else ('thorough',)
    JOBS.append(j)
JOBS += [dict(name=fn, bodies=[fn], enforce=[fn], replace=[], includes=['c06_single.h'], extra_c=SGX, expect_kinds=['postcondition'], timeout=300) for fn in ('featureData_mtag_pos_index', 'featureData_mtag_pos_feature')]
JOBS.append(dict(name='mtag_lookup_dim', bodies=['mtag_lookup_dim'], enforce=['mtag_lookup_dim'], replace=[], includes=['c06_lookup.h'], extra_c=LKX, expect_kinds=['postcondition'], timeout=300))
SPEC = dict(contracts=['nd.h', 'dv.h', 'c05_tag.h', 'c06_mtag.h', 'c06_single.h', 'c06_lookup.h'], stubs=['dataarray.h'], include_order=['nd.h', 'dataarray.h', 'dv.h', 'c05_tag.h', 'c06_mtag.h'], units=UNITS, jobs=JOBS,
            trusted_base=['CBMC 6.11.0 (C front end, --dfcc, SAT back end)', 'vlib/cxx2c.py idiom map incl. region units; vector element accesses of the enclosing function become scalar live-in parameters of the region'] + ND_TRUST +
                         ['ghost inputs: the index pair of the region and GreaterOrEqual(position) (C07 contracts, not connected here); assumed: DataView construction and positionAndExtentInData contracts (see C05)'],
            assumptions=['KERNEL ONLY: the two regions named above. Reading the positions/extents rows, padding of unspecified dimensions, unit scaling, the index-list gate (max_element) and the list = map(single) loop structure are NOT covered'])

SPEC['assumptions'] = list(SPEC.get('assumptions', [])) + ['session 3: mtag_lookup_dim / single-position feature retrievals - the vectors, the axis lookup and the list retrieval are ghost records of their arguments', 'KNOWN FINDING KF-C06-exclusive-padding: in Exclusive mode a dimension the positions do not specify loses its last element (reported on every run, not counted)']
