"""Units of include/nix/NDSize.hpp shared by several properties."""
H = 'include/nix/NDSize.hpp'
def member(loc, **kw):
    d = dict(file=H, locator=loc, cls='NDSize', cls_file=H, cls_decl='NDSizeBase', classes=['NDSize'], subst={'T': 'ndsize_t'}); d.update(kw); return d
def free(loc, **kw):
    d = dict(file=H, locator=loc, classes=['NDSize'], subst={'T': 'ndsize_t'}); d.update(kw); return d
def cmp_loop(rel):
    return {0: '__CPROVER_assigns(i, nix_exc)\n'
               '__CPROVER_loop_invariant(i <= size && size == lhs->rank && nix_exc == EXC_NONE)\n'
               '__CPROVER_loop_invariant(__CPROVER_forall { size_t jj; (jj < ND_MAXRANK) ==> ((jj < i) ==> (lhs->dims[jj] %s rhs->dims[jj])) })\n'
               '__CPROVER_decreases(size - i)' % rel}
EQ_LOOP = {0: '__CPROVER_assigns(i, nix_exc)\n'
              '__CPROVER_loop_invariant(i <= lhs->rank && lhs->rank == rhs->rank && nix_exc == EXC_NONE)\n'
              '__CPROVER_loop_invariant(__CPROVER_forall { size_t jj; (jj < ND_MAXRANK) ==> ((jj < i) ==> (lhs->dims[jj] == rhs->dims[jj])) })\n'
              '__CPROVER_decreases(lhs->rank - i)'}
ND_UNITS = {
    'NDSize_size': member(r'\bsize_t\s+size\s*\('),
    'NDSize_bool': member(r'explicit\s+operator\s+bool\s*\('),
    'NDSize_at': member(r'const\s+T\s*&\s*operator\s*\[\s*\]\s*\('),
    'NDSize_iadd': member(r'NDSizeBase<T>\s*&\s*operator\s*\+=\s*\((?=\s*const\s+NDSizeBase)'),
    'NDSize_isub': member(r'NDSizeBase<T>\s*&\s*operator\s*-=\s*\((?=\s*const\s+NDSizeBase)'),
    'NDSize_iadd_scalar': member(r'NDSizeBase<T>\s*&\s*operator\s*\+=\s*\((?=\s*T\s+val)'),
    'NDSize_isub_scalar': member(r'NDSizeBase<T>\s*&\s*operator\s*-=\s*\((?=\s*T\s+val)'),
    'NDSize_copy_ctor': member(r'\bNDSizeBase\s*\((?=\s*const\s+NDSizeBase\s*&\s*other)', ctor=True, member_calls={'allocate': 'NDSize_allocate'}),
    'NDSize_allocate': member(r'\bvoid\s+allocate\s*\('),
    'NDSize_plus': free(r'NDSizeBase<T>\s+operator\s*\+\s*\((?=\s*NDSizeBase<T>\s+lhs\s*,\s*const\s+NDSizeBase)'),
    'NDSize_minus': free(r'NDSizeBase<T>\s+operator\s*-\s*\((?=\s*NDSizeBase<T>\s+lhs\s*,\s*const\s+NDSizeBase)'),
    'NDSize_fill': member(r'\bvoid\s+fill\s*\((?=\s*T\s+value)'),
    'NDSize_ctor_fill': member(r'explicit\s+NDSizeBase\s*\((?=\s*size_t\s+rank\s*,\s*T\s+fill_value)', ctor=True, member_calls={'allocate': 'NDSize_allocate', 'fill': 'NDSize_fill'}),
    'NDSize_lt': free(r'inline\s+bool\s+operator\s*<\s*\((?=\s*const\s+NDSizeBase)', loops=cmp_loop('<')),
    'NDSize_le': free(r'inline\s+bool\s+operator\s*<=\s*\((?=\s*const\s+NDSizeBase)', loops=cmp_loop('<=')),
    'NDSize_gt': free(r'inline\s+bool\s+operator\s*>\s*\((?=\s*const\s+NDSizeBase)'),
    'NDSize_ge': free(r'inline\s+bool\s+operator\s*>=\s*\((?=\s*const\s+NDSizeBase)'),
    'NDSize_eq': free(r'inline\s+bool\s+operator\s*==\s*\((?=\s*const\s+NDSizeBase)', loops=EQ_LOOP),
}
UNW = ['--unwind', '33', '--unwinding-assertions']
ACCESSORS = ('NDSize_size', 'NDSize_at', 'NDSize_bool', 'NDSize_allocate', 'NDSize_iadd', 'NDSize_isub')
CALLS = {'NDSize_iadd': ['NDSize_size'], 'NDSize_isub': ['NDSize_size'], 'NDSize_copy_ctor': ['NDSize_allocate'],
         'NDSize_plus': ['NDSize_iadd'], 'NDSize_minus': ['NDSize_isub'], 'NDSize_lt': ['NDSize_size', 'NDSize_at'], 'NDSize_le': ['NDSize_size', 'NDSize_at'],
         'NDSize_eq': ['NDSize_size', 'NDSize_at'], 'NDSize_gt': ['NDSize_le'], 'NDSize_ge': ['NDSize_lt']}
def closure(names):
    out = []
    def add(n):
        for c in CALLS.get(n, []):
            if c in ACCESSORS: add(c)
        if n not in out: out.append(n)
    for n in names: add(n)
    return out
def job(fn, replace=(), **kw):
    # accessor leaves (size, operator[], operator bool) are linked as extracted BODIES into their callers instead of
    # being replaced by their contracts: a contract that returns a pointer makes every later dereference a case split
    # over all objects (6 minutes instead of 2 seconds).  They are verified against their own contracts separately.
    rep = [r for r in replace if r not in ACCESSORS]
    bodies = closure([r for r in replace if r in ACCESSORS]) + [fn]
    d = dict(name=fn, bodies=bodies, enforce=[fn], replace=rep, expect_kinds=['postcondition'], timeout=600, cbmc_flags=UNW); d.update(kw); return d
ND_JOBS = [
    job('NDSize_size'), job('NDSize_bool'), job('NDSize_at'),
    job('NDSize_iadd', ['NDSize_size'], cbmc_flags=UNW, expect_kinds=['postcondition', 'unwind']),
    job('NDSize_isub', ['NDSize_size'], cbmc_flags=UNW, expect_kinds=['postcondition', 'unwind']),
    job('NDSize_iadd_scalar', cbmc_flags=UNW, expect_kinds=['postcondition', 'unwind']),
    job('NDSize_isub_scalar', cbmc_flags=UNW, expect_kinds=['postcondition', 'unwind']),
    job('NDSize_iadd', ['NDSize_size'], name='NDSize_iadd[elements]', defines=['ND_FULL_ALLOC'], cbmc_flags=UNW),
    job('NDSize_isub', ['NDSize_size'], name='NDSize_isub[elements]', defines=['ND_FULL_ALLOC'], cbmc_flags=UNW),
    job('NDSize_iadd_scalar', name='NDSize_iadd_scalar[elements]', defines=['ND_FULL_ALLOC'], cbmc_flags=UNW),
    job('NDSize_isub_scalar', name='NDSize_isub_scalar[elements]', defines=['ND_FULL_ALLOC'], cbmc_flags=UNW),
    job('NDSize_allocate'),
    job('NDSize_copy_ctor', ['NDSize_allocate'], cbmc_flags=UNW),
    job('NDSize_lt', ['NDSize_size', 'NDSize_at'], loop_contracts=True, expect_kinds=['postcondition', 'loop_invariant_step', 'loop_invariant_base']),
    job('NDSize_le', ['NDSize_size', 'NDSize_at'], loop_contracts=True, expect_kinds=['postcondition', 'loop_invariant_step', 'loop_invariant_base']),
    job('NDSize_gt', ['NDSize_le']),
    job('NDSize_ge', ['NDSize_lt']),
    job('NDSize_eq', ['NDSize_size', 'NDSize_at'], loop_contracts=True, expect_kinds=['postcondition', 'loop_invariant_step', 'loop_invariant_base']),
]
def rank_cases(j):
    out = []
    for r in range(33):
        d = dict(j); d['name'] = '%s[rank=%d]' % (j['name'], r); d['defines'] = list(j.get('defines', [])) + ['ND_RANK_CASE=%d' % r]
        # loops over the rank run exactly r times in this case: unwind r+2 (the unwinding assertions keep it complete)
        fl = list(d.get('cbmc_flags', []))
        if '--unwind' in fl and not j.get('full_unwind'):
            fl[fl.index('--unwind') + 1] = str(max(r + 2, 16))   # (the contracts library has loops over the assigns-clause targets)
        d['cbmc_flags'] = fl
        out.append(d)
    return out
ND_JOBS = [j for j in ND_JOBS if j['name'] != 'NDSize_copy_ctor'] + rank_cases([j for j in ND_JOBS if j['name'] == 'NDSize_copy_ctor'][0])
ND_JOBS += rank_cases(dict(name='NDSize_plus_cc', bodies=closure(['NDSize_copy_ctor', 'NDSize_iadd']) + ['NDSize_plus'], extra_c='NDSize NDSize_plus_cc(const NDSize *a, const NDSize *b) { return NDSize_plus_cc_impl(a, b); }\n',
                    enforce=['NDSize_plus_cc'], replace=[], cbmc_flags=UNW, expect_kinds=['postcondition'], timeout=1500))
ND_JOBS += rank_cases(dict(name='NDSize_minus_cc', bodies=closure(['NDSize_copy_ctor', 'NDSize_isub']) + ['NDSize_minus'], extra_c='NDSize NDSize_minus_cc(const NDSize *a, const NDSize *b) { return NDSize_minus_cc_impl(a, b); }\n',
                    enforce=['NDSize_minus_cc'], replace=[], cbmc_flags=UNW, expect_kinds=['postcondition'], timeout=1500))
ND_TRUST = ['NDSize type invariant: rank <= 32 (H5S_MAX_RANK), dims has exactly rank elements; loops over the rank are closed by complete unwinding (33) with unwinding assertions, quantifiers over elements are bounded by 32']
