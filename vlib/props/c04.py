"""C04 delete leaves no dangling reference (kernel): removeAllLinks under a loop contract; deletions by handle resolve by id (units shared with C03)."""
import props.c03 as c03
UNITS = {k: v for k, v in c03.UNITS.items() if k.endswith('_h') and 'delete' in k}
UNITS['H5Group_removeAllLinks'] = dict(file='backend/hdf5/h5x/H5Group.cpp', locator=r'bool\s+H5Group::removeAllLinks\s*\(', cls='H5Group', cls_file='backend/hdf5/h5x/H5Group.hpp', classes=['nstring', 'H5Group'], inherited_methods=['deleteLink'], bounded_twin=True,
    loops={0: '__CPROVER_assigns(gname, gh_links, gh_deleted)\n'
              '__CPROVER_loop_invariant(gh_links >= 0 && gh_links < 1000000000L && gh_deleted >= 0 && gh_deleted < 1000000000L && gh_links + gh_deleted == __CPROVER_loop_entry(gh_links) + __CPROVER_loop_entry(gh_deleted) && ((gname.id == 0) == (gh_links == 0)))\n'
              '__CPROVER_decreases(gh_links)'})
JOBS = [j for j in c03.JOBS if j['name'] in UNITS]
JOBS.append(dict(name='H5Group_removeAllLinks', bodies=['H5Group_removeAllLinks'], enforce=['H5Group_removeAllLinks'], replace=[], includes=['c04_links.h'], loop_contracts=True,
                 extra_c='int gh_child_exists; long gh_links, gh_deleted; int gh_some_path;\n', expect_kinds=['postcondition', 'loop_invariant_base', 'loop_invariant_step', 'loop_decreases'], timeout=300))
JOBS.append(dict(name='H5Group_removeAllLinks[bounded]', bodies=['H5Group_removeAllLinks'], enforce=['H5Group_removeAllLinks'], replace=[], includes=['c04_links.h'], loop_contracts=False,
                 defines=['NIX_NO_LOOP_CONTRACTS', 'C04_BOUNDED=3'], cbmc_flags=['--unwind', '5', '--unwinding-assertions'], extra_c='int gh_child_exists; long gh_links, gh_deleted; int gh_some_path;\n',
                 expect_kinds=['postcondition', 'unwind'], timeout=300, bounded='at most 3 hard links, loop unwound completely (twin without loop contract: robust against a rewritten loop)'))
SPEC = dict(c03.SPEC, contracts=c03.SPEC['contracts'] + ['c04_links.h'], units=UNITS, jobs=JOBS)
SPEC['trusted_base'] = list(c03.SPEC['trusted_base']) + ['ASSUMED (HDF5 manual): H5Iget_name returns a path of the object while a hard link exists and an empty name afterwards; H5Ldelete removes exactly the link it is given - modelled as a ghost link counter']
SPEC['assumptions'] = ['KERNEL ONLY: decided are (1) H5Group::removeAllLinks removes EVERY hard link of an existing child (terminates with link count 0, for any number of links) and touches nothing for a missing child; '
                       '(2) deletions by handle (File::deleteBlock/deleteSection, Block::deleteSource, Source::deleteSource, Section::deleteSection/deleteProperty) resolve the handle by its id. '
                       'Recursive deletion of sub-sections / sub-sources (shared_ptr back-end objects), which holders re-check their link targets, validity of stale handles and "everything else untouched" are NOT covered']
