"""C04 delete leaves no dangling reference (kernel): removeAllLinks under a loop contract; deletions by handle resolve by id (units shared with C03)."""
import props.c03 as c03
UNITS = {k: v for k, v in c03.UNITS.items() if k.endswith('_h') and 'delete' in k}
UNITS['H5Group_removeAllLinks'] = dict(file='backend/hdf5/h5x/H5Group.cpp', locator=r'bool\s+H5Group::removeAllLinks\s*\(', cls='H5Group', cls_file='backend/hdf5/h5x/H5Group.hpp', classes=['nstring', 'H5Group'], inherited_methods=['deleteLink'], bounded_twin=True,
    loops={0: '__CPROVER_assigns(gname, gh_links, gh_deleted)\n'
              '__CPROVER_loop_invariant(gh_links >= 0 && gh_links < 1000000000L && gh_deleted >= 0 && gh_deleted < 1000000000L && gh_links + gh_deleted == __CPROVER_loop_entry(gh_links) + __CPROVER_loop_entry(gh_deleted) && ((gname.id == 0) == (gh_links == 0)))\n'
              '__CPROVER_decreases(gh_links)'})
from cxx2c import Tok, P, seq_at, fire, match_close, tokenize
def children_loop(elt):
    def rule(ctx, toks):
        """for (auto &child : ENTITY.children())  (range-for over a call result)  ->  vec_<T> rng_ = ENTITY.children(); for (T &child : rng_)"""
        out = []; i = 0
        while i < len(toks):
            if toks[i].t == 'for' and seq_at(toks, i + 1, ['(', 'auto', '&']) and toks[i + 5].t == ':':
                e = match_close(toks, i + 1)
                ctx.env['rng_'] = ('vec_' + elt, False)
                out.extend(tokenize('%svec_%s rng_ =' % (toks[i].ws, elt))); out.extend(toks[i + 6:e]); out.extend(tokenize('; for (%s &%s : rng_)' % (elt, toks[i + 4].t)))
                i = e + 1; fire(ctx, 'range-for-over-call'); continue
            out.append(toks[i]); i += 1
        return out
    return rule
def shared_ptr_entity(ctx, toks):
    """std::shared_ptr<base::ISource> isource = block()->getEntity<base::ISource>(KEY);  ->  Source isource = getSourceEntity(KEY);   (a back-end object handle as an entity record)"""
    out = []; i = 0
    while i < len(toks):
        if toks[i].t == 'shared_ptr' and toks[i + 1].t == '<':
            j = i + 2
            while toks[j].t != '>': j += 1
            k = len(out)
            while k and out[k - 1].t in ('std', '::'): k -= 1
            ws = out[k].ws if k < len(out) else toks[i].ws
            del out[k:]; out.append(Tok('id', 'Source', ws)); i = j + 1; fire(ctx, 'shared-ptr-handle'); continue
        if seq_at(toks, i, ['block', '(', ')', '->', 'getEntity', '<']):
            j = i + 6
            while toks[j].t != '>': j += 1
            out.append(Tok('id', 'getSourceEntity', toks[i].ws)); i = j + 1; fire(ctx, 'get-entity'); continue
        out.append(toks[i]); i += 1
    return out
def unlink_stub(ctx, toks):
    """in these units H5Group::removeAllLinks is the ghost record H5Group_unlink_all (its own contract: c04_links.h)"""
    for t in toks:
        if t.k == 'id' and t.t == 'H5Group_removeAllLinks': t.t = 'H5Group_unlink_all'
    return toks
STL = {0: '__CPROVER_assigns(_i_child, gh_child_deletes)\n__CPROVER_loop_invariant(_i_child <= rng_.n && gh_child_deletes == _i_child)\n__CPROVER_decreases(rng_.n - _i_child)'}
def st(file, cls, meth, elt, hdr, **kw):
    d = dict(file=file, cls=cls, cls_file=hdr, classes=[cls, 'Source', 'Section', 'H5Group', 'nstring'], locator=r'bool\s+%s::%s\s*\((?=\s*const\s+(?:std::)?string\s*&\s*name_or_id)' % (cls, meth),
             pre_rules=[children_loop(elt)], post_rules=[unlink_stub], loops=STL, bounded_twin=True); d.update(kw); return d
STUNITS = {
    'SourceHDF5_deleteSource': st('backend/hdf5/SourceHDF5.cpp', 'SourceHDF5', 'deleteSource', 'Source', 'backend/hdf5/SourceHDF5.hpp', member_functors={'source_group': 'SourceHDF5_source_group'}),
    'SectionHDF5_deleteSection': st('backend/hdf5/SectionHDF5.cpp', 'SectionHDF5', 'deleteSection', 'Section', 'backend/hdf5/SectionHDF5.hpp', member_functors={'section_group': 'SectionHDF5_section_group'}),
    'FileHDF5_deleteSection': st('backend/hdf5/FileHDF5.cpp', 'FileHDF5', 'deleteSection', 'Section', 'backend/hdf5/FileHDF5.hpp', member_types={'metadata': 'H5Group'}),
    'BlockHDF5_deleteSource': st('backend/hdf5/BlockHDF5.cpp', 'BlockHDF5', 'deleteSource', 'Source', 'backend/hdf5/BlockHDF5.hpp', pre_rules=[shared_ptr_entity, children_loop('Source')], inherited_methods=['getSourceEntity'], member_functors={'source_group': 'BlockHDF5_source_group'}),
}
UNITS.update(STUNITS)
JOBS = [j for j in c03.JOBS if j['name'] in UNITS]
JOBS.append(dict(name='H5Group_removeAllLinks', bodies=['H5Group_removeAllLinks'], enforce=['H5Group_removeAllLinks'], replace=[], includes=['c04_links.h'], loop_contracts=True,
                 extra_c='int gh_child_exists; long gh_links, gh_deleted; int gh_some_path;\n', expect_kinds=['postcondition', 'loop_invariant_base', 'loop_invariant_step', 'loop_decreases'], timeout=300))
JOBS.append(dict(name='H5Group_removeAllLinks[bounded]', bodies=['H5Group_removeAllLinks'], enforce=['H5Group_removeAllLinks'], replace=[], includes=['c04_links.h'], loop_contracts=False,
                 defines=['NIX_NO_LOOP_CONTRACTS', 'C04_BOUNDED=3'], cbmc_flags=['--unwind', '5', '--unwinding-assertions'], extra_c='int gh_child_exists; long gh_links, gh_deleted; int gh_some_path;\n',
                 expect_kinds=['postcondition', 'unwind'], timeout=300, bounded='at most 3 hard links, loop unwound completely (twin without loop contract: robust against a rewritten loop)'))
STX = 'int gh_group_present, gh_found, gh_unlink_answer, gh_key, gh_lookups, gh_unlinks, gh_unlink_name, gh_unlink_after_children, gh_children_asked; size_t gh_child_deletes, gh_nchildren; Ent *gh_children; Ent gh_entity;\n'
for fn in STUNITS:
    JOBS.append(dict(name=fn, bodies=[fn], enforce=[fn], replace=[], includes=['c04_subtree.h'], loop_contracts=True, extra_c=STX, expect_kinds=['postcondition', 'loop_invariant_base', 'loop_invariant_step'], timeout=300))
    JOBS.append(dict(name=fn + '[bounded]', bodies=[fn], enforce=[fn], replace=[], includes=['c04_subtree.h'], loop_contracts=False, defines=['NIX_NO_LOOP_CONTRACTS', 'C04_BOUNDED=3'],
                     cbmc_flags=['--unwind', '5', '--unwinding-assertions'], extra_c=STX, expect_kinds=['postcondition', 'unwind'], timeout=300, bounded='at most 3 children, loop unwound completely (twin without loop contract)'))
SPEC = dict(c03.SPEC, contracts=c03.SPEC['contracts'] + ['c04_links.h', 'c04_subtree.h'], units=UNITS, jobs=JOBS)
SPEC['trusted_base'] = list(c03.SPEC['trusted_base']) + ['ASSUMED (HDF5 manual): H5Iget_name returns a path of the object while a hard link exists and an empty name afterwards; H5Ldelete removes exactly the link it is given - modelled as a ghost link counter']
SPEC['assumptions'] = ['KERNEL ONLY: decided are (1) H5Group::removeAllLinks removes EVERY hard link of an existing child (terminates with link count 0, for any number of links) and touches nothing for a missing child; '
                       '(2) deletions by handle (File::deleteBlock/deleteSection, Block::deleteSource, Source::deleteSource, Section::deleteSection/deleteProperty) resolve the handle by its id. '
                       'Recursive deletion of sub-sections / sub-sources (shared_ptr back-end objects), which holders re-check their link targets, validity of stale handles and "everything else untouched" are NOT covered']

SPEC['assumptions'] = list(SPEC.get('assumptions', [])) + ['session 3: recursion step of SourceHDF5::deleteSource / SectionHDF5::deleteSection / FileHDF5::deleteSection / BlockHDF5::deleteSource - handles, shared_ptr objects, the child list and removeAllLinks are ghost records; that the step reaches every descendant is an induction over the tree, NOT mechanised']
