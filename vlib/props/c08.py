"""C08 rejected operation leaves no trace / C03 unique names (kernel): the front-end gates of the create operations.  DESIGN.md 12."""
from props.nd_units import ND_TRUST
B = 'src/Block.cpp'; F = 'src/File.cpp'; S = 'src/Section.cpp'; SO = 'src/Source.cpp'; UC = 'src/util/util.cpp'; UH = 'include/nix/util/util.hpp'
CL = ['nstring', 'File', 'Block', 'Source', 'Section', 'DataArray', 'Tag', 'MultiTag', 'Group', 'Property', 'Variant', 'NDSize']
def m(file, cls, hdr, loc, **kw):
    d = dict(file=file, locator=loc, cls=cls, cls_file=hdr, classes=CL); d.update(kw); return d
UNITS = {
    'checkEntityType': dict(file=UC, locator=r'void\s+checkEntityType\s*\(', classes=CL),
    'checkEntityName': dict(file=UC, locator=r'void\s+checkEntityName\s*\(', classes=CL),
    'checkEntityNameAndType': dict(file=UC, locator=r'void\s+checkEntityNameAndType\s*\(', classes=CL),
    'checkNameOrId': dict(file=UC, locator=r'void\s+checkNameOrId\s*\(', classes=CL),
    'checkEntityInput': dict(file=UH, locator=r'template\s*<typename\s+T>\s*bool\s+checkEntityInput\s*\(', classes=CL, subst={'T': 'DataArray'}),
    'File_createBlock': m(F, 'File', 'include/nix/File.hpp', r'Block\s+File::createBlock\s*\('),
    'File_createSection': m(F, 'File', 'include/nix/File.hpp', r'Section\s+File::createSection\s*\('),
    'Block_createSource': m(B, 'Block', 'include/nix/Block.hpp', r'Source\s+Block::createSource\s*\('),
    'Block_createDataArray': m(B, 'Block', 'include/nix/Block.hpp', r'DataArray\s+Block::createDataArray\s*\('),
    'Block_createTag': m(B, 'Block', 'include/nix/Block.hpp', r'Tag\s+Block::createTag\s*\('),
    'Block_createMultiTag': m(B, 'Block', 'include/nix/Block.hpp', r'MultiTag\s+Block::createMultiTag\s*\(', calls={'checkEntityInput': 'checkEntityInput_1'}),
    'Block_createGroup': m(B, 'Block', 'include/nix/Block.hpp', r'Group\s+Block::createGroup\s*\('),
    'Source_createSource': m(SO, 'Source', 'include/nix/Source.hpp', r'Source\s+Source::createSource\s*\('),
    'Section_createSection': m(S, 'Section', 'include/nix/Section.hpp', r'Section\s+Section::createSection\s*\('),
    'Section_createProperty_dtype': m(S, 'Section', 'include/nix/Section.hpp', r'Property\s+Section::createProperty\s*\((?=\s*const\s+std::string\s*&\s*name\s*,\s*const\s+DataType\s*&)', calls={'createProperty': 'createProperty_dtype'}),
    'Section_createProperty_values': m(S, 'Section', 'include/nix/Section.hpp', r'Property\s+Section::createProperty\s*\((?=\s*const\s+std::string\s*&\s*name\s*,\s*const\s+std::vector<Variant>\s*&)', calls={'createProperty': 'createProperty_values'}),
    'Section_createProperty_value': m(S, 'Section', 'include/nix/Section.hpp', r'Property\s+Section::createProperty\s*\((?=\s*const\s+std::string\s*&\s*name\s*,\s*const\s+Variant\s*&)', calls={'createProperty': 'createProperty_value'}),
}
EXTRA = 'bool gh_exists[NAME_IDS]; int gh_creates; int gh_created_id; int gh_has_queries, gh_deletes, gh_key_id;\n'
HELPERS = ['checkEntityType', 'checkEntityName', 'checkEntityNameAndType', 'checkNameOrId', 'checkEntityInput']
def job(fn, replace=(), **kw):
    d = dict(name=fn, bodies=[fn], enforce=[fn], replace=list(replace), extra_c=EXTRA, expect_kinds=['postcondition'], timeout=300); d.update(kw); return d
JOBS = [job('checkEntityType'), job('checkEntityName'), job('checkEntityNameAndType', ['checkEntityName', 'checkEntityType']), job('checkNameOrId'), job('checkEntityInput')]
for fn in UNITS:
    if fn in HELPERS: continue
    JOBS.append(job(fn, ['checkEntityNameAndType', 'checkEntityName', 'checkEntityInput'], expect_kinds=['postcondition', 'precondition']))
TRUST = ['CBMC 6.11.0 (C front end, --dfcc, SAT back end)', 'vlib/cxx2c.py idiom map',
         'strings abstracted to (id, empty?, contains "/"?); util::nameCheck is "no slash" (its one-line body uses std::string::find and is a definitional stub)',
         'entity handles are opaque; the back end is a ghost record: the answer of the has-query per name and the create calls received',
         'ASSUMED: the has-query of the back end answers whether a child with that name exists (HDF5 link table, H5Lexists)']
ASSUME = ['KERNEL ONLY: of the rejection classes in the statement only "duplicate or invalid name, empty type, unusable positions array, empty value list" at the create functions of File, Block, Source and Section are decided; '
          'plus PropertyHDF5::values (a value of another type anywhere in the list is rejected before the dataset is resized or written). '
          'Of what the back-end constructors and setters do between their libhdf5 calls, decided are: BlockHDF5::createMultiTag (no half-built multi-tag), MultiTagHDF5::positions / extents, '
          'EntityWithMetadataHDF5::metadata(id), SectionHDF5::link(id) (a rejected assignment keeps the old link); other constructors / setters (FeatureHDF5::data, DataFrameHDF5, ...) are NOT covered']
def frame_rules(ctx, toks):
    """std::set<std::string> names; -> set_nstr names = {0};   std::pair<std::set<std::string>::iterator, bool> inserted = names.insert(X); -> bool inserted_second = set_nstr_insert(&names, X);
       inserted.second -> inserted_second;   Variant::supports_type -> Variant_supports_type;   std::string msg = "literal"; -> const char *msg = "literal";"""
    from cxx2c import Tok, P, seq_at, match_close, tokenize, fire
    out = []; i = 0
    def skipq(k):
        while k and out[k - 1].t in ('std', '::'): k -= 1
        return k
    while i < len(toks):
        t = toks[i]
        if t.t == 'set' and toks[i + 1].t == '<' and toks[i + 4].k == 'id' and toks[i + 5].t == ';' if i + 5 < len(toks) else False:
            pass
        if t.t == 'set' and toks[i + 1].t == '<':
            j = i + 2
            while toks[j].t != '>': j += 1
            if toks[j + 1].k == 'id' and toks[j + 2].t == ';':
                k = skipq(len(out)); ws = out[k].ws if k < len(out) else t.ws; del out[k:]
                out.extend(tokenize('%sset_nstr %s = {0}' % (ws, toks[j + 1].t))); i = j + 2; fire(ctx, 'set-decl'); continue
        if t.t == 'pair' and toks[i + 1].t == '<':
            j = i + 1; d = 0
            while True:
                if toks[j].t == '<': d += 1
                elif toks[j].t == '>': d -= 1
                elif toks[j].t == '>>': d -= 2
                j += 1
                if d <= 0: break
            if toks[j].k == 'id' and toks[j + 1].t == '=' and toks[j + 3].t == '.' and toks[j + 4].t == 'insert':
                e = match_close(toks, j + 5)
                k = skipq(len(out)); ws = out[k].ws if k < len(out) else t.ws; del out[k:]
                out.extend(tokenize('%sbool %s_second = set_nstr_insert(&%s,' % (ws, toks[j].t, toks[j + 2].t))); out.extend(toks[j + 6:e]); out.append(P(')', '')); i = e + 1; fire(ctx, 'set-insert'); continue
        if t.k == 'id' and seq_at(toks, i + 1, ['.', 'second']) and t.t == 'inserted':
            out.append(Tok('id', 'inserted_second', t.ws)); i += 3; continue
        if seq_at(toks, i, ['Variant', '::', 'supports_type']):
            out.append(Tok('id', 'Variant_supports_type', t.ws)); i += 3; fire(ctx, 'static-method'); continue
        if t.t in ('string', 'nstring') and toks[i + 1].k == 'id' and toks[i + 2].t == '=' and toks[i + 3].k == 'str' and toks[i + 4].t == ';':
            k = skipq(len(out)); ws = out[k].ws if k < len(out) else t.ws; del out[k:]
            out.extend(tokenize('%sconst char *%s = %s' % (ws, toks[i + 1].t, toks[i + 3].t))); i += 4; fire(ctx, 'string-literal-local'); continue
        out.append(t); i += 1
    return out
UNITS['Block_createDataFrame'] = m('include/nix/Block.hpp', 'Block', 'include/nix/Block.hpp', r'DataFrame\s+createDataFrame\s*\((?=\s*const\s+std::string\s*&\s*name)', classes=CL + ['Column', 'set_nstr', 'DataFrame'], pre_rules=[frame_rules], bounded_twin=True,
    loops={0: '__CPROVER_assigns(_i_c, nix_exc, gh_col_problem)\n__CPROVER_loop_invariant(_i_c <= cols->n && nix_exc == EXC_NONE && gh_col_problem == 0)\n__CPROVER_decreases(cols->n - _i_c)'})
JOBS.append(job('Block_createDataFrame', ['checkEntityNameAndType', 'checkEntityName', 'checkEntityInput'], extra_c=EXTRA + 'int gh_col_problem;\n', loop_contracts=True,
                expect_kinds=['postcondition', 'precondition', 'loop_invariant_base', 'loop_invariant_step']))
JOBS.append(job('Block_createDataFrame', ['checkEntityNameAndType', 'checkEntityName', 'checkEntityInput'], name='Block_createDataFrame[bounded]', extra_c=EXTRA + 'int gh_col_problem;\n', loop_contracts=False,
                defines=['NIX_NO_LOOP_CONTRACTS', 'DF_BOUNDED=3'], cbmc_flags=['--unwind', '5', '--unwinding-assertions'], expect_kinds=['postcondition', 'precondition', 'unwind'],
                bounded='at most 3 columns, loop unwound completely (twin without loop contract)'))
import props.c14 as c14        # the value setter every Property assignment ends in (shared with C14)
GATE_UNITS = dict(UNITS); GATE_JOBS = list(JOBS)
UNITS = dict(UNITS); UNITS.update(c14.PROP_UNITS); JOBS = JOBS + c14.PROP_JOBS
def relink_rules(ctx, toks):
    """std::shared_ptr<IDataArray> ida = block()->getEntity<IDataArray>(KEY);  ->  DataArrayP ida = getArrayEntity(KEY);   auto target = [std::]dynamic_pointer_cast<DataArrayHDF5>(ida); -> DataArrayP target = ida;
       target->group() -> target.group()   (the pointer-like handle is a record here)"""
    from cxx2c import Tok, P, seq_at, match_close, tokenize, fire
    out = []; i = 0
    def skipq(k):
        while k and out[k - 1].t in ('std', '::', 'base'): k -= 1
        return k
    while i < len(toks):
        t = toks[i]
        if t.t == 'shared_ptr' and toks[i + 1].t == '<':
            j = i + 2
            while toks[j].t != '>': j += 1
            k = skipq(len(out)); ws = out[k].ws if k < len(out) else t.ws; del out[k:]
            out.append(Tok('id', 'DataArrayP', ws)); i = j + 1; fire(ctx, 'shared-ptr-handle'); continue
        if seq_at(toks, i, ['block', '->', 'getEntity', '<']):
            j = i + 4
            while toks[j].t != '>': j += 1
            out.append(Tok('id', 'getArrayEntity', t.ws)); i = j + 1; fire(ctx, 'get-entity'); continue
        if seq_at(toks, i, ['block', '(', ')', '->', 'getEntity', '<']):
            j = i + 6
            while toks[j].t != '>': j += 1
            out.append(Tok('id', 'getArrayEntity', t.ws)); i = j + 1; fire(ctx, 'get-entity'); continue
        if t.t == 'auto' and toks[i + 1].k == 'id' and toks[i + 2].t == '=':
            j = i + 3
            while toks[j].t in ('std', '::'): j += 1
            if toks[j].t == 'dynamic_pointer_cast' and toks[j + 1].t == '<':
                k = j + 2
                while toks[k].t != '>': k += 1
                e = match_close(toks, k + 1)
                out.extend(tokenize('%sDataArrayP %s =' % (t.ws, toks[i + 1].t))); out.extend(toks[k + 2:e]); ctx.env[toks[i + 1].t] = ('DataArrayP', False); i = e + 1; fire(ctx, 'pointer-cast'); continue
        if t.k == 'id' and t.t == 'target' and seq_at(toks, i + 1, ['->', 'group', '(', ')']):
            out.extend(tokenize('%starget.group()' % t.ws)); i += 5; fire(ctx, 'pointer-method'); continue
        out.append(t); i += 1
    return out
def section_link_rules(ctx, toks):
    """metadata(none) / link(none) (the overload that removes the link) -> metadata_none() / link_none();  util::IdFilter<Section>(id) -> mk_IdFilter(id);
       auto found = tmp.findSections(..) -> std::vector<Section> found = ..;  auto target = dynamic_pointer_cast<SectionHDF5>(E) -> SectionP target = E;  target->group() -> target.group();
       in these units the link queries of the own group are the ghosts hasGroup_sl / createLink_sl"""
    from cxx2c import Tok, P, seq_at, match_close, tokenize, fire
    pre = []; i = 0
    while i < len(toks):          # Section::impl() on found.front(): the back-end handle of the front-end entity (a field of the record)
        t = toks[i]
        if t.t == 'front' and seq_at(toks, i + 1, ['(', ')', '.', 'impl', '(', ')']):
            pre.extend([t, toks[i + 1], toks[i + 2], toks[i + 3], Tok('id', 'impl_', '')]); i += 7; fire(ctx, 'handle-of-entity'); continue
        pre.append(t); i += 1
    toks = pre
    out = []; i = 0
    def skipq(k):
        while k and out[k - 1].t in ('std', '::', 'util'): k -= 1
        return k
    while i < len(toks):
        t = toks[i]
        if t.t in ('metadata', 'link') and toks[i + 1].t == '(' and toks[i + 2].t in ('none', 'OPT_NONE') and toks[i + 3].t == ')':
            out.extend(tokenize('%s%s_none()' % (t.ws, t.t))); i += 4; fire(ctx, 'none-overload'); continue
        if t.t == 'IdFilter' and toks[i + 1].t == '<':
            j = i + 2
            while toks[j].t != '>': j += 1
            k = skipq(len(out)); ws = out[k].ws if k < len(out) else t.ws; del out[k:]
            out.append(Tok('id', 'mk_IdFilter', ws)); i = j + 1; fire(ctx, 'filter-ctor'); continue
        if t.t == 'auto' and toks[i + 1].t == 'found':
            out.extend(tokenize('%svec_Section' % t.ws)); ctx.env['found'] = ('vec_Section', False); i += 1; fire(ctx, 'auto-from-getter'); continue
        if t.t == 'auto' and toks[i + 1].t == 'target' and toks[i + 2].t == '=':
            j = i + 3
            while toks[j].t in ('std', '::'): j += 1
            if toks[j].t == 'dynamic_pointer_cast':
                k = j + 1
                while toks[k].t != '>': k += 1
                e = match_close(toks, k + 1)
                out.extend(tokenize('%sSectionP target =' % t.ws)); out.extend(toks[k + 2:e]); ctx.env['target'] = ('SectionP', False); i = e + 1; fire(ctx, 'pointer-cast'); continue
        if t.t == 'target' and seq_at(toks, i + 1, ['->', 'group', '(', ')']):
            out.extend(tokenize('%starget.group()' % t.ws)); i += 5; fire(ctx, 'pointer-method'); continue
        if t.t == 'front' and seq_at(toks, i + 1, ['(', ')', '.', 'impl', '(', ')']):
            out.extend([t, toks[i + 1], toks[i + 2], toks[i + 3], Tok('id', 'impl_', '')]); i += 7; fire(ctx, 'handle-of-entity'); continue     # Section::impl(): the back-end handle of the front-end entity
        out.append(t); i += 1
    return out
def sl_names(ctx, toks):
    for t in toks:
        if t.k == 'id' and t.t == 'H5Group_hasGroup': t.t = 'H5Group_hasGroup_sl'
        elif t.k == 'id' and t.t == 'H5Group_createLink': t.t = 'H5Group_createLink_sl'
    return toks
SLCL = ['EntityWithMetadataHDF5', 'SectionHDF5', 'File', 'Section', 'SectionP', 'H5Group', 'nstring', 'IdFilterT']
SLUNITS = {'EntityWithMetadataHDF5_metadata_set': dict(file='backend/hdf5/EntityWithMetadataHDF5.cpp', locator=r'void\s+EntityWithMetadataHDF5::metadata\s*\((?=\s*const\s+std::string\s*&)', cls='EntityWithMetadataHDF5',
                                                      cls_file='backend/hdf5/EntityWithMetadataHDF5.hpp', classes=SLCL, pre_rules=[section_link_rules], post_rules=[sl_names], inherited_methods=['group', 'file', 'metadata_none']),
           'SectionHDF5_link_set': dict(file='backend/hdf5/SectionHDF5.cpp', locator=r'void\s+SectionHDF5::link\s*\((?=\s*const\s+std::string\s*&)', cls='SectionHDF5', cls_file='backend/hdf5/SectionHDF5.hpp', classes=SLCL,
                                       pre_rules=[section_link_rules], post_rules=[sl_names], inherited_methods=['group', 'file', 'link_none'])}
SLX = ('int gh_sl_found, gh_sl_target_grp, gh_sl_has_old, gh_sl_key, gh_sl_empty_id, gh_sl_searches, gh_sl_search_key, gh_sl_unlinks, gh_sl_links, gh_sl_link_target, gh_sl_link_after_unlinks, gh_sl_name_ok; Section gh_sl_hit[1];\n')
def create_mtag_rules(ctx, toks):
    """hasEntity({ID, ObjectType::DataArray}) -> hasEntity_DataArray(ID);  make_shared<MultiTagHDF5>(file(), block(), GROUP, id, type, name, POSITIONS) -> mk_MultiTagP(GROUP, POSITIONS);
       g->openGroup(NAME) (one argument: create) -> g->openGroup_create(NAME);  shared_ptr<IMultiTag> -> MultiTagP"""
    from cxx2c import Tok, P, seq_at, match_close, tokenize, fire, split_args
    out = []; i = 0
    def skipq(k):
        while k and out[k - 1].t in ('std', '::'): k -= 1
        return k
    while i < len(toks):
        t = toks[i]
        if t.t == 'hasEntity' and toks[i + 1].t == '(' and toks[i + 2].t == '{':
            e = match_close(toks, i + 2)
            args = split_args(toks[i + 3:e])
            out.append(Tok('id', 'hasEntity_DataArray', t.ws)); out.append(P('(', '')); out.extend(args[0]); out.append(P(')', '')); i = e + 2; fire(ctx, 'identity-brace'); continue
        if t.t == 'make_shared' and toks[i + 1].t == '<':
            j = i + 2
            while toks[j].t != '>': j += 1
            e = match_close(toks, j + 1)
            args = split_args(toks[j + 2:e])
            k = skipq(len(out)); ws = out[k].ws if k < len(out) else t.ws; del out[k:]
            out.extend(tokenize('%smk_MultiTagP(' % ws)); out.extend(args[2]); out.append(P(',', '')); out.extend(args[6]); out.append(P(')', '')); i = e + 1; fire(ctx, 'make-shared'); continue
        if t.t == 'openGroup' and toks[i + 1].t == '(':
            e = match_close(toks, i + 1)
            if len(split_args(toks[i + 2:e])) == 1:
                out.append(Tok('id', 'openGroup_create', t.ws)); i += 1; continue
        out.append(t); i += 1
    return out
CMUNITS = {'BlockHDF5_createMultiTag': dict(file='backend/hdf5/BlockHDF5.cpp', locator=r'shared_ptr<IMultiTag>\s+BlockHDF5::createMultiTag\s*\(', cls='BlockHDF5', cls_file='backend/hdf5/BlockHDF5.hpp',
    classes=['BlockHDF5', 'H5Group', 'DataArray', 'nstring', 'MultiTagP'], pre_rules=[create_mtag_rules], member_functors={'multi_tag_group': 'BlockHDF5_multi_tag_group'}, inherited_methods=['hasEntity_DataArray'],
    subst={'shared_ptr<IMultiTag>': 'MultiTagP'}, ret_default='(MultiTagP){1}')}
CMX = 'int gh_cm_in_block, gh_cm_groups_created, gh_cm_objects, gh_cm_asked_id, gh_cm_created_name;\n'
MT = 'backend/hdf5/MultiTagHDF5.cpp'; MTH = 'backend/hdf5/MultiTagHDF5.hpp'
RLCL = ['MultiTagHDF5', 'H5Group', 'DataArrayP', 'nstring']
RUNITS = {'MultiTagHDF5_positions_set': dict(file=MT, locator=r'void\s+MultiTagHDF5::positions\s*\((?=\s*const\s+std::string\s*&)', cls='MultiTagHDF5', cls_file=MTH, classes=RLCL, pre_rules=[relink_rules],
                                              inherited_methods=['group', 'forceUpdatedAt', 'getArrayEntity'], member_calls={'positions': 'MultiTagHDF5_positions', 'checkDimensions': 'MultiTagHDF5_checkDimensions'}),
          'MultiTagHDF5_extents_set': dict(file=MT, locator=r'void\s+MultiTagHDF5::extents\s*\((?=\s*const\s+std::string\s*&)', cls='MultiTagHDF5', cls_file=MTH, classes=RLCL, pre_rules=[relink_rules],
                                            inherited_methods=['group', 'forceUpdatedAt', 'getArrayEntity'], member_calls={'positions': 'MultiTagHDF5_positions', 'checkDimensions': 'MultiTagHDF5_checkDimensions'})}
RUNITS['FeatureHDF5_data_set'] = dict(file='backend/hdf5/FeatureHDF5.cpp', locator=r'void\s+FeatureHDF5::data\s*\((?=\s*const\s+std::string\s*&)', cls='FeatureHDF5', cls_file='backend/hdf5/FeatureHDF5.hpp',
    classes=['FeatureHDF5', 'H5Group', 'DataArrayP', 'nstring'], pre_rules=[relink_rules], inherited_methods=['group', 'forceUpdatedAt', 'getArrayEntity'])
RLX = ('int gh_rl_found, gh_rl_target_grp, gh_rl_target_shape, gh_rl_pos_shape, gh_rl_has_old, gh_rl_removes, gh_rl_links, gh_rl_link_target, gh_rl_link_after_removes, gh_rl_updates, gh_rl_name_ok, gh_rl_remove_name_ok;\n')
UNITS.update(RUNITS); UNITS.update(SLUNITS); UNITS.update(CMUNITS)
JOBS = JOBS + [dict(name=fn, bodies=[fn], enforce=[fn], replace=[], includes=['c08_relink.h'], extra_c=RLX, defines=['RL_NAME="%s"' % ('positions' if 'positions' in fn else ('extents' if 'extents' in fn else 'data'))], expect_kinds=['postcondition'], timeout=300) for fn in RUNITS]
JOBS = JOBS + [dict(name=fn, bodies=[fn], enforce=[fn], replace=[], includes=['c08_relink.h'], extra_c=RLX + SLX, defines=['RL_NAME="%s"' % ('metadata' if 'metadata' in fn else 'link')], expect_kinds=['postcondition'], timeout=300) for fn in SLUNITS]
JOBS = JOBS + [dict(name='BlockHDF5_createMultiTag', bodies=['BlockHDF5_createMultiTag'], enforce=['BlockHDF5_createMultiTag'], replace=[], includes=['c08_relink.h'], extra_c=RLX + SLX + CMX, defines=['RL_NAME="multi_tags"'], expect_kinds=['postcondition'], timeout=300)]
SPEC = dict(contracts=['nd.h', 'c08_gate.h', 'c14_prop.h', 'c08_relink.h'], stubs=[], include_order=['nd.h', 'c08_gate.h'], units=UNITS, jobs=JOBS, trusted_base=TRUST, assumptions=ASSUME)
