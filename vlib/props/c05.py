"""C05 Tag retrieval (kernel): gates and feature dispatch.  DESIGN.md section 7, 12."""
from cxx2c import Tok, P, seq_at, fire, match_close, tokenize
from props.nd_units import ND_UNITS, ND_TRUST, UNW, rank_cases
DA = 'src/util/dataAccess.cpp'; T = 'src/Tag.cpp'; TH = 'include/nix/Tag.hpp'
def none_cmp(ctx, toks):
    """X == none / X == nix::none  with X a class-typed handle -> Cls_isNone(&X)"""
    out = []; i = 0
    while i < len(toks):
        t = toks[i]
        if t.k == 'id' and t.t in ctx.env and ctx.env[t.t][0] == 'DataArray' and (seq_at(toks, i + 1, ['==', 'none']) or seq_at(toks, i + 1, ['==', 'OPT_NONE'])):
            out.extend(tokenize('%sDataArray_isNone(%s%s)' % (t.ws, '' if ctx.env[t.t][1] else '&', t.t))); i += 3; fire(ctx, 'none-compare'); continue
        out.append(t); i += 1
    return out
def drop_unused_vectors(ctx, toks):
    """vector<double> positions = tag.position(); / extents: read but never used in taggedData: kept as opaque values"""
    for t in toks:
        if t.k == 'id' and t.t == 'vec_double': t.t = 'vec_double_u'
    return toks
def tagged_counting(ctx, toks):
    """in featureData the call taggedData(tag, data, match) is counted (ghost) so that the dispatch is observable"""
    out = []; i = 0
    while i < len(toks):
        if toks[i].t == 'taggedData_tag' and toks[i + 1].t == '(':
            out.append(Tok('id', 'taggedData_tag_counted', toks[i].ws)); i += 1; continue
        out.append(toks[i]); i += 1
    return out
CL = ['NDSize', 'DataArray', 'DataView', 'Tag', 'Feature']
UNITS = {k: ND_UNITS[k] for k in ('NDSize_size', 'NDSize_at', 'NDSize_bool', 'NDSize_allocate', 'NDSize_fill', 'NDSize_ctor_fill')}
UNITS.update({
    'Tag_getFeature': dict(file=T, locator=r'Feature\s+Tag::getFeature\s*\((?=\s*ndsize_t\s+index)', cls='Tag', cls_file=TH, classes=CL),
    'Tag_getReference': dict(file=T, locator=r'DataArray\s+Tag::getReference\s*\((?=\s*size_t\s+index)', cls='Tag', cls_file=TH, classes=CL),
    'taggedData_tag': dict(file=DA, locator=r'DataView\s+taggedData\s*\((?=\s*const\s+Tag\s*&\s*tag\s*,\s*const\s+DataArray\s*&\s*array)', classes=CL,
                           pre_rules=[drop_unused_vectors], calls={'getOffsetAndCount': 'getOffsetAndCount_tag'}),
    'featureData_tag': dict(file=DA, locator=r'DataView\s+featureData\s*\((?=\s*const\s+Tag\s*&\s*tag\s*,\s*const\s+Feature\s*&\s*feature)', classes=CL,
                            post_rules=[none_cmp, tagged_counting], calls={'taggedData': 'taggedData_tag'}),
    'featureData_tag_index': dict(file=DA, locator=r'DataView\s+featureData\s*\((?=\s*const\s+Tag\s*&\s*tag\s*,\s*ndsize_t\s+feature_index)', classes=CL,
                                  calls={'featureData': 'featureData_tag'}),
})
EXTRA = ('int gh_views; size_t gh_view_count_rank, gh_view_offset_rank; ndsize_t gh_view_count_k, gh_view_offset_k; const ndsize_t *gh_view_extent_dims;\n'
         'int gh_tagged_calls, gh_backend_feature_gets, gh_backend_reference_gets; ndsize_t gh_backend_get_index;\n'
         )
ACC = ['NDSize_size', 'NDSize_at', 'NDSize_bool', 'NDSize_allocate', 'NDSize_fill', 'NDSize_ctor_fill']
def job(fn, replace=(), **kw):
    d = dict(name=fn, bodies=ACC + [fn], enforce=[fn], replace=list(replace), extra_c=EXTRA, cbmc_flags=UNW, expect_kinds=['postcondition'], timeout=900); d.update(kw); return d
JOBS = [job('Tag_getFeature', ['Tag_backend_getFeature']), job('Tag_getReference', ['Tag_backend_getReference']),
        job('taggedData_tag', ['getOffsetAndCount_tag', 'positionAndExtentInData', 'mk_DataView_3']),
        job('featureData_tag_index', ['Tag_getFeature', 'featureData_tag'])]
for j in rank_cases(job('featureData_tag', ['taggedData_tag', 'mk_DataView_3'], split=True, split_workers=3)):
    r = int(j['name'].split('rank=')[1].rstrip(']'))
    j['tiers'] = ('quick', 'thorough') if r <= 3 else ('thorough',)
    JOBS.append(j)
SPEC = dict(contracts=['nd.h', 'dv.h', 'c05_tag.h'], stubs=['dataarray.h'], include_order=['nd.h', 'dataarray.h', 'dv.h', 'c05_tag.h'], units=UNITS, jobs=JOBS,
            trusted_base=['CBMC 6.11.0 (C front end, --dfcc, SAT back end)', 'vlib/cxx2c.py idiom map'] + ND_TRUST +
                         ['Tag / Feature / DataArray handles abstracted to the state these functions read (counts, link type, extent, none-ness)',
                          'assumed: the contract of the DataView constructor (proved for the constructor itself in C17) restated on the construction expression mk_DataView_3',
                          'assumed: positionAndExtentInData contract (contracts/dv.h; its job does not terminate, see DESIGN 12)'],
            assumptions=['KERNEL ONLY: getOffsetAndCount (the per-dimension index assembly, padding of unspecified dimensions, unit scaling) is behind a contract that leaves its result unconstrained; '
                         'the sentence "returns exactly the block of elements whose coordinate c satisfies p <= c <= p+e" is therefore NOT decided here (per-axis index rules: C07)'])
