"""C05 Tag retrieval (kernel): gates and feature dispatch.  DESIGN.md section 7, 12."""
from cxx2c import Tok, P, seq_at, fire, match_close, tokenize
from props.nd_units import ND_UNITS, ND_TRUST, UNW, rank_cases
DA = 'src/util/dataAccess.cpp'; T = 'src/Tag.cpp'; TH = 'include/nix/Tag.hpp'
def none_cmp(ctx, toks):
    """X == none / X == nix::none  with X a class-typed handle -> Cls_isNone(&X)"""
    out = []; i = 0
    while i < len(toks):
        t = toks[i]
        if t.k == 'id' and t.t in ctx.env and ctx.env[t.t][0] == 'DataArray' and (seq_at(toks, i + 1, ['==', 'none']) or seq_at(toks, i + 1, ['==', 'OPT_NONE'])):
            out.extend(tokenize('%sDataArray_isNone(%s%s)' % (t.ws, '' if ctx.env[t.t][1] else '&', t.t))); i += 3; fire(ctx, 'none-compare'); continue
        out.append(t); i += 1
    return out
def drop_unused_vectors(ctx, toks):
    """vector<double> positions = tag.position(); / extents: read but never used in taggedData: kept as opaque values"""
    for t in toks:
        if t.k == 'id' and t.t == 'vec_double': t.t = 'vec_double_u'
    return toks
def tagged_counting(ctx, toks):
    """in featureData the call taggedData(tag, data, match) is counted (ghost) so that the dispatch is observable"""
    out = []; i = 0
    while i < len(toks):
        if toks[i].t == 'taggedData_tag' and toks[i + 1].t == '(':
            out.append(Tok('id', 'taggedData_tag_counted', toks[i].ws)); i += 1; continue
        out.append(toks[i]); i += 1
    return out
def single_element_vectors(ctx, toks):
    """vector<optional<pair>> ranges = positionToIndex({A}, {B}, {C}, match, D);  with single-element brace lists and only
       ranges[0] used  ==  the scalar lookup:  opt_pair ranges0 = positionToIndex_pair1(A, B, C, match, D);  ranges[0] -> ranges0;
       position[i] / extent[i] / units[i] / dimensions[i] are the region's scalar live-in parameters"""
    SUBS = [(['position', '[', 'i', ']'], 'position_i'), (['extent', '[', 'i', ']'], 'extent_i'), (['units', '[', 'i', ']'], 'unit_i'),
            (['dimensions', '[', 'i', ']'], 'dimension_i'), (['ranges', '[', '0', ']'], 'ranges0')]
    out = []; i = 0
    while i < len(toks):
        for seq, name in SUBS:
            if seq_at(toks, i, seq):
                out.append(Tok('id', name, toks[i].ws)); i += len(seq); fire(ctx, 'region-live-in'); break
        else:
            out.append(toks[i]); i += 1
    toks = out; out = []; i = 0
    while i < len(toks):
        if toks[i].t == 'vec_opt_pair' and toks[i + 1].t == 'ranges' and toks[i + 2].t == '=' and toks[i + 3].t == 'positionToIndex' and toks[i + 4].t == '(':
            e = match_close(toks, i + 4)
            from cxx2c import split_args
            args = split_args(toks[i + 5:e])
            new = []
            for a in args:
                if a and a[0].t == '{' and a[-1].t == '}': a = a[1:-1]
                new.append(a)
            out.extend(tokenize('%sopt_pair ranges0 = positionToIndex_pair1(' % toks[i].ws))
            for k, a in enumerate(new):
                if k: out.append(P(',', ''))
                out.extend(a)
            out.append(P(')', ''))
            ctx.env['ranges0'] = ('opt_pair', False)
            i = e + 1; fire(ctx, 'single-element-vector-call'); continue
        out.append(toks[i]); i += 1
    return out
def default_args(table):
    """a call with fewer arguments than parameters takes the rest from the DEFAULT ARGUMENTS of the declaration in the header (read on every run):
       table = {C++ callee name: (header file, regex locating the declaration up to its '(', number of parameters)}"""
    import re as _re, unit as _U
    def rule(ctx, toks):
        out = []; i = 0
        while i < len(toks):
            t = toks[i]
            if t.k == 'id' and t.t in table and i + 1 < len(toks) and toks[i + 1].t == '(' and (i == 0 or toks[i - 1].t not in ('.', '->')):
                hdr, rx, npar = table[t.t]
                e = match_close(toks, i + 1)
                from cxx2c import split_args
                args = split_args(toks[i + 2:e]) if e > i + 2 else []
                if len(args) < npar:
                    src = _U.repo_text(hdr)
                    ms = list(_re.finditer(rx, src))
                    if len(ms) != 1: raise ExtractError('default arguments of %s: declaration matched %d times in %s' % (t.t, len(ms), hdr))
                    a = ms[0].end(); d = 1; b = a
                    while d:
                        if src[b] == '(': d += 1
                        elif src[b] == ')': d -= 1
                        b += 1
                    params = []; cur = ''; d = 0
                    for ch in src[a:b - 1]:
                        if ch in '(<{': d += 1
                        elif ch in ')>}': d -= 1
                        if ch == ',' and d == 0: params.append(cur); cur = ''
                        else: cur += ch
                    params.append(cur)
                    if len(params) != npar: raise ExtractError('default arguments of %s: %d parameters declared, %d expected' % (t.t, len(params), npar))
                    out.extend(toks[i:e])
                    for k in range(len(args), npar):
                        if '=' not in params[k]: raise ExtractError('call of %s with %d arguments: parameter %d has no default' % (t.t, len(args), k + 1))
                        out.append(P(',', '')); out.extend(tokenize(' ' + _re.sub(r'\b(\w+)::(\w+)\b', r'\1_\2', params[k].split('=', 1)[1].strip().replace('nix::', ''))))
                        fire(ctx, 'default-argument')
                    out.append(toks[e]); i = e + 1; continue
            out.append(t); i += 1
        return out
    return rule
DAH = 'include/nix/util/dataAccess.hpp'
DEFAULTS = default_args({'featureData': (DAH, r'DataView\s+featureData\s*\((?=\s*const\s+Tag\s*&\s*tag\s*,\s*const\s+Feature\s*&)', 3),
                         'taggedData': (DAH, r'DataView\s+taggedData\s*\((?=\s*const\s+Tag\s*&\s*tag\s*,\s*const\s+DataArray\s*&)', 3)})
CL = ['NDSize', 'DataArray', 'DataView', 'Tag', 'Feature', 'nstring', 'Dimension']
UNITS = {k: ND_UNITS[k] for k in ('NDSize_size', 'NDSize_at', 'NDSize_bool', 'NDSize_allocate', 'NDSize_fill', 'NDSize_ctor_fill')}
UNITS.update({
    'Tag_getFeature': dict(file=T, locator=r'Feature\s+Tag::getFeature\s*\((?=\s*ndsize_t\s+index)', cls='Tag', cls_file=TH, classes=CL),
    'Tag_getReference': dict(file=T, locator=r'DataArray\s+Tag::getReference\s*\((?=\s*size_t\s+index)', cls='Tag', cls_file=TH, classes=CL),
    'taggedData_tag': dict(file=DA, locator=r'DataView\s+taggedData\s*\((?=\s*const\s+Tag\s*&\s*tag\s*,\s*const\s+DataArray\s*&\s*array)', classes=CL,
                           pre_rules=[drop_unused_vectors], calls={'getOffsetAndCount': 'getOffsetAndCount_tag'}),
    'featureData_tag': dict(file=DA, locator=r'DataView\s+featureData\s*\((?=\s*const\s+Tag\s*&\s*tag\s*,\s*const\s+Feature\s*&\s*feature)', classes=CL,
                            pre_rules=[DEFAULTS], post_rules=[none_cmp, tagged_counting], calls={'taggedData': 'taggedData_tag'}),
    'featureData_tag_index': dict(file=DA, locator=r'DataView\s+featureData\s*\((?=\s*const\s+Tag\s*&\s*tag\s*,\s*ndsize_t\s+feature_index)', classes=CL, pre_rules=[DEFAULTS],
                                  calls={'featureData': 'featureData_tag'}),
})
UNITS['tag_assemble_dim'] = dict(file=DA, locator=r'void\s+getOffsetAndCount\s*\((?=\s*const\s+Tag\s*&\s*tag)', classes=CL,
    pre_rules=[single_element_vectors], calls={'positionToIndex': 'positionToIndex_scalar'},
    region=dict(start=r'vector<optional<pair<ndsize_t,\s*ndsize_t>>>\s+ranges\s*=\s*positionToIndex\(', end=r'temp_count\[i\]\s*\+=\s*c;\s*\}',
                params=[('NDSize &', 'temp_offset'), ('NDSize &', 'temp_count'), ('size_t', 'i'), ('double', 'position_i'), ('double', 'extent_i'),
                        ('const std::string &', 'unit_i'), ('RangeMatch', 'match'), ('const Dimension &', 'dimension_i')]))
def string_literal_local(ctx, toks):
    """std::string NAME("literal");  (a message text handed to a may-throw helper)  ->  const char *NAME = "literal";"""
    out = []; i = 0
    while i < len(toks):
        if toks[i].t in ('string', 'nstring') and i + 5 < len(toks) and toks[i + 1].k == 'id' and toks[i + 2].t == '(' and toks[i + 3].k == 'str' and toks[i + 4].t == ')' and toks[i + 5].t == ';':
            j = len(out)
            while j and out[j - 1].t in ('std', '::'): j -= 1
            del out[j:]
            out.extend(tokenize('%sconst char *%s = %s' % (toks[i].ws, toks[i + 1].t, toks[i + 3].t))); i += 5; fire(ctx, 'string-literal-local'); continue
        out.append(toks[i]); i += 1
    return out
UNITS['getMaxExtent'] = dict(file=DA, pre_rules=[string_literal_local], locator=r'void\s+getMaxExtent\s*\(', classes=CL + ['SampledDimension', 'RangeDimension'])
def dispatch_rules_for(prefix):
    def rule(ctx, toks): return _dispatch_rules(ctx, toks, prefix)
    return rule
def dispatch_rules(ctx, toks): return _dispatch_rules(ctx, toks, 'positionToIndex_')
def _dispatch_rules(ctx, toks, prefix):
    """T dim; dim = dimension;  ->  T dim = Dimension_as(dimension);   positionToIndex(...) in the branch of kind T -> positionToIndex_<kind>(...)  (overload by the type of the last argument);
       the result vector is the answer value vec_opt_pair_v"""
    KIND = {'SampledDimension': 'sampled', 'SetDimension': 'set', 'DataFrameDimension': 'dataframe', 'RangeDimension': 'range'}
    out = []; i = 0; cur = None
    while i < len(toks):
        t = toks[i]
        if t.t in KIND and seq_at(toks, i + 1, ['dim', ';', 'dim', '=', 'dimension', ';']):
            cur = KIND[t.t]
            out.extend(tokenize('%s%s dim = Dimension_as(dimension);' % (t.ws, t.t))); ctx.env['dim'] = (t.t, False); i += 7; fire(ctx, 'handle-conversion'); continue
        if t.t == 'positionToIndex' and toks[i + 1].t == '(':
            if cur is None: raise ExtractError('positionToIndex call outside a branch of known kind')
            out.append(Tok('id', prefix + cur, t.ws)); i += 1; fire(ctx, 'overload-by-argument-type'); continue
        if t.t == 'vec_opt_pair':
            out.append(Tok('id', 'vec_opt_pair_v', t.ws)); i += 1; continue
        out.append(t); i += 1
    return out
from cxx2c import ExtractError
UNITS['positionToIndex_dispatch'] = dict(file=DA, locator=r'vector<optional<pair<ndsize_t,\s*ndsize_t>>>\s+positionToIndex\s*\((?=\s*const\s+vector<double>\s*&\s*start_positions\s*,\s*const\s+vector<double>\s*&\s*end_positions\s*,\s*const\s+vector<string>\s*&\s*units\s*,\s*const\s+RangeMatch\s+range_matching\s*,\s*const\s+Dimension\s*&)',
    classes=['Dimension', 'SampledDimension', 'SetDimension', 'RangeDimension', 'DataFrameDimension'], pre_rules=[dispatch_rules], subst={'vec_opt_pair': 'vec_opt_pair_v', 'vec_string': 'vec_ustr'}, ret_default='(vec_opt_pair_v){0}')
UNITS['positionToIndex_dispatch1'] = dict(file=DA, locator=r'optional<ndsize_t>\s+positionToIndex\s*\((?=\s*double\s+position\s*,\s*const\s+string\s*&\s*unit\s*,\s*const\s+PositionMatch\s+match\s*,\s*const\s+Dimension\s*&)',
    classes=['Dimension', 'SampledDimension', 'SetDimension', 'RangeDimension', 'DataFrameDimension', 'nstring'], pre_rules=[dispatch_rules_for('positionToIndex1_')], ret_default='OPT_NONE_ndsize')
def listconv_rules(ctx, toks):
    """vector<double> NAME(count) / NAME(static_cast<size_t>(count));  (a vector of count elements created here) -> vec_double_s NAME = mk_vec_double_s(count);
       dimension.unit() ? *dimension.unit() : "none"  ->  the optional's value or the literal:  opt_nstr_or_none(dimension.unit())"""
    out = []; i = 0
    while i < len(toks):
        t = toks[i]
        if t.t == 'vec_double' and toks[i + 1].k == 'id' and toks[i + 1].t in ('scaled_start', 'scaled_end') and toks[i + 2].t == '(':
            out.extend(tokenize('%svec_double_s %s = mk_vec_double_s' % (t.ws, toks[i + 1].t))); ctx.env[toks[i + 1].t] = ('vec_double_s', False); i += 2; fire(ctx, 'vector-count-ctor'); continue
        if seq_at(toks, i, ['dimension', '.', 'unit', '(', ')', '?', '*', 'dimension', '.', 'unit', '(', ')', ':']) and toks[i + 13].k == 'str':
            out.extend(tokenize('%sopt_nstr_or(dimension.unit(), nstring_lit(%s))' % (t.ws, toks[i + 13].t))); i += 14; fire(ctx, 'optional-or-literal'); continue
        out.append(t); i += 1
    return out
def units_len(ctx, toks):
    """units.size() of the (reference) parameter units -> units->n"""
    out = []; i = 0
    while i < len(toks):
        if seq_at(toks, i, ['units', '.', 'size', '(', ')']):
            out.extend(tokenize('%sunits->n' % toks[i].ws)); i += 5; continue
        out.append(toks[i]); i += 1
    return out
LCL = ['SampledDimension', 'RangeDimension', 'nstring', 'vec_double_s']
def lconv(kind, cls):
    return dict(file=DA, locator=r'vector<optional<pair<ndsize_t,\s*ndsize_t>>>\s+positionToIndex\s*\((?=\s*const\s+vector<double>\s*&\s*start_positions\s*,\s*const\s+vector<double>\s*&\s*end_positions\s*,\s*const\s+vector<string>\s*&\s*units\s*,\s*const\s+RangeMatch\s+range_matching\s*,\s*const\s+%s\s*&)' % cls,
                classes=LCL, pre_rules=[listconv_rules], post_rules=[units_len], subst={'vec_opt_pair': 'vec_opt_pair_v', 'vec_string': 'vec_ustr'}, ret_default='(vec_opt_pair_v){0}',
                calls={'scalePositions': 'scalePositions_rec'}, overloads={cls + '_indexOf': {3: cls + '_indexOf_lists'}})
UNITS['positionToIndex_list_sampled'] = lconv('sampled', 'SampledDimension')
UNITS['positionToIndex_list_range'] = lconv('range', 'RangeDimension')
LCX = ('int gh_lc_vectors, gh_lc_scale_calls, gh_lc_scale_units, gh_lc_scale_dim_unit, gh_lc_scale_out_s, gh_lc_scale_out_e, gh_lc_axis_calls, gh_lc_axis_s, gh_lc_axis_e, gh_lc_axis_tag, gh_lc_axis_after_scale;\n'
       'const double *gh_lc_scale_starts, *gh_lc_scale_ends; size_t gh_lc_len_s, gh_lc_len_e; RangeMatch gh_lc_axis_match;\n')
import props.c18 as _c18
UNITS['positionToIndex_scalar_sampled'] = dict(file=DA, locator=r'optional<ndsize_t>\s+positionToIndex\s*\((?=\s*double\s+position\s*,\s*const\s+string\s*&\s*unit\s*,\s*const\s+PositionMatch\s+match\s*,\s*const\s+SampledDimension\s*&)',
    classes=['SampledDimension', 'nstring'], pre_rules=[_c18.try_catch_all], calls={'getSIScaling': 'getSIScaling_caught'}, overloads={'SampledDimension_indexOf': {2: 'SampledDimension_indexOf_scalar'}}, ret_default='OPT_NONE_ndsize')
SCX = 'int gh_sc_bad, gh_sc_factor_calls, gh_sc_axis_calls, gh_sc_axis_tag; double gh_sc_asked; PositionMatch gh_sc_match;\n'
DPX = 'int gh_dp_calls, gh_dp_kind, gh_dp_with_units, gh_dp_units_id, gh_dp_dim_tag; const double *gh_dp_starts, *gh_dp_ends; RangeMatch gh_dp_match; double gh_dp1_position; int gh_dp1_unit; PositionMatch gh_dp1_match;\n'
EXTRA = ('opt_ndsize gh_ge; opt_pair gh_pair; double gh_pair_start, gh_pair_end; RangeMatch gh_pair_match; int gh_pair_calls; int gh_unspecified; RangeMatch gh_goc_match, gh_tagged_match, gh_fd_match;\n'
         'int gh_views; size_t gh_view_count_rank, gh_view_offset_rank; ndsize_t gh_view_count_k, gh_view_offset_k; const ndsize_t *gh_view_extent_dims;\n'
         'int gh_tagged_calls, gh_backend_feature_gets, gh_backend_reference_gets; ndsize_t gh_backend_get_index;\n'
         )
ACC = ['NDSize_size', 'NDSize_at', 'NDSize_bool', 'NDSize_allocate', 'NDSize_fill', 'NDSize_ctor_fill']
def job(fn, replace=(), **kw):
    d = dict(name=fn, bodies=ACC + [fn], enforce=[fn], replace=list(replace), extra_c=EXTRA, cbmc_flags=UNW, expect_kinds=['postcondition'], timeout=900); d.update(kw); return d
JOBS = [job('Tag_getFeature', ['Tag_backend_getFeature']), job('Tag_getReference', ['Tag_backend_getReference']),
        job('taggedData_tag', ['getOffsetAndCount_tag', 'positionAndExtentInData', 'mk_DataView_3']),
        job('featureData_tag_index', ['Tag_getFeature', 'featureData_tag'])]
JOBS.append(dict(name='tag_assemble_dim', bodies=['NDSize_size', 'NDSize_at', 'tag_assemble_dim'], enforce=['tag_assemble_dim'], replace=['positionToIndex_scalar'], extra_c=EXTRA,
                 defines=['ND_FULL_ALLOC'], cbmc_flags=UNW, expect_kinds=['postcondition', 'precondition'], timeout=900))
JOBS.append(dict(name='getMaxExtent', bodies=['getMaxExtent'], enforce=['getMaxExtent'], replace=[], extra_c=EXTRA, cbmc_flags=UNW, expect_kinds=['postcondition'], timeout=300))
JOBS += [dict(name=fn, bodies=[fn], enforce=[fn], replace=[], includes=['c05_listconv.h'], extra_c=LCX, expect_kinds=['postcondition'], timeout=300) for fn in ('positionToIndex_list_sampled', 'positionToIndex_list_range')]
JOBS.append(dict(name='positionToIndex_scalar_sampled', bodies=['positionToIndex_scalar_sampled'], enforce=['positionToIndex_scalar_sampled'], replace=[], includes=['c05_scalarconv.h'], extra_c=SCX, expect_kinds=['postcondition'], timeout=600))
JOBS.append(dict(name='positionToIndex_dispatch1', bodies=['positionToIndex_dispatch1'], enforce=['positionToIndex_dispatch1'], replace=[], includes=['c05_dispatch.h'], extra_c=DPX, expect_kinds=['postcondition'], timeout=300))
JOBS.append(dict(name='positionToIndex_dispatch', bodies=['positionToIndex_dispatch'], enforce=['positionToIndex_dispatch'], replace=[], includes=['c05_dispatch.h'], extra_c=DPX, expect_kinds=['postcondition'], timeout=300))
for j in rank_cases(job('featureData_tag', ['taggedData_tag', 'mk_DataView_3'], split=True, split_workers=3)):
    r = int(j['name'].split('rank=')[1].rstrip(']'))
    j['tiers'] = ('quick', 'thorough') if r <= 3 else ('thorough',)
    JOBS.append(j)
SPEC = dict(contracts=['nd.h', 'dv.h', 'c05_tag.h', 'c05_dispatch.h', 'c05_listconv.h', 'c05_scalarconv.h'], stubs=['dataarray.h'], include_order=['nd.h', 'dataarray.h', 'dv.h', 'c05_tag.h'], units=UNITS, jobs=JOBS,
            trusted_base=['CBMC 6.11.0 (C front end, --dfcc, SAT back end)', 'vlib/cxx2c.py idiom map'] + ND_TRUST +
                         ['Tag / Feature / DataArray handles abstracted to the state these functions read (counts, link type, extent, none-ness)',
                          'assumed: the contract of the DataView constructor (proved for the constructor itself in C17) restated on the construction expression mk_DataView_3',
                          'assumed: positionAndExtentInData contract (contracts/dv.h; its job does not terminate, see DESIGN 12)'],
            assumptions=['KERNEL ONLY: getOffsetAndCount (the per-dimension index assembly, padding of unspecified dimensions, unit scaling) is behind a contract that leaves its result unconstrained; '
                         'the sentence "returns exactly the block of elements whose coordinate c satisfies p <= c <= p+e" is therefore NOT decided here (per-axis index rules: C07)'])

SPEC['assumptions'] = list(SPEC.get('assumptions', [])) + ['session 3: getMaxExtent - the axis is abstracted to two coordinates (x_0, x_max); the extent clause is exact only on an enumerated set of coordinate pairs (a symbolic floating-point subtraction on both sides does not terminate); x0 + (xq - x0) == xq in doubles is treated as mathematical', "session 3: positionToIndex dispatchers / list converters / single-position converter - their callees (converters, scalePositions, the axis' indexOf, getSIScaling as the constant 0.5) are ghost records of their arguments; the chain is verified unit by unit, not composed into one theorem", 'KNOWN FINDING KF-C05-exclusive-padding: in Exclusive mode a dimension the tag does not specify loses its last element (reported on every run, not counted)']
