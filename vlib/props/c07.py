"""C07 position -> index conversion (core).  DESIGN.md section 7."""
F = 'src/Dimensions.cpp'
OPT = r'boost::optional<ndsize_t>\s+'

PRINT_OPT = 'std::printf("OBS has %d\\nOBS val %llu\\n", r ? 1 : 0, r ? (unsigned long long)*r : 0ULL);'
RET_OPT = 'return (opt_ndsize){{{has}, {val}ULL}};'
UNITS = {
    'toIndex': dict(file=F, locator=r'static\s+' + OPT + r'toIndex\s*\('),
    'getDataFrameIndex': dict(file=F, locator=OPT + r'getDataFrameIndex\s*\(', replay=dict(
        tu='src/Dimensions.cpp', kinds={'position': 'double', 'tick_count': 'u64', 'match': 'int'},
        driver='boost::optional<nix::ndsize_t> r = getDataFrameIndex({position}, {tick_count}, static_cast<nix::PositionMatch>({match}));\n' + PRINT_OPT,
        oracle_body=RET_OPT, oracle_harness='getDataFrameIndex({position}, {tick_count}, (PositionMatch){match});')),
    'getSetIndex': dict(file=F, locator=OPT + r'getSetIndex\s*\('),
    'getIndex': dict(file=F, locator=OPT + r'getIndex\s*\(', replay=dict(
        tu='src/Dimensions.cpp', witness_harness='wit_getIndex.c',
        globals=['g_w0', 'g_w1', 'g_w2', 'g_w3', 'g_wn', 'g_wp', 'g_wm'],
        kinds={'g_w0': 'double', 'g_w1': 'double', 'g_w2': 'double', 'g_w3': 'double', 'g_wn': 'size', 'g_wp': 'double', 'g_wm': 'int'},
        driver='double w[4] = {{{g_w0}, {g_w1}, {g_w2}, {g_w3}}}; std::vector<double> ticks(w, w + {g_wn});\n'
               'boost::optional<nix::ndsize_t> r = getIndex({g_wp}, ticks, static_cast<nix::PositionMatch>({g_wm}));\n' + PRINT_OPT,
        oracle_body=RET_OPT,
        oracle_harness='g_w0 = {g_w0}; g_w1 = {g_w1}; g_w2 = {g_w2}; g_w3 = {g_w3}; g_wn = {g_wn}; vec_double *t; getIndex({g_wp}, t, (PositionMatch){g_wm});')),
    'getSampledIndex': dict(file=F, locator=OPT + r'getSampledIndex\s*\(', replay=dict(
        tu='src/Dimensions.cpp', kinds={'position': 'double', 'offset': 'double', 'sampling_interval': 'double', 'match': 'int'},
        driver='boost::optional<nix::ndsize_t> r = getSampledIndex({position}, {offset}, {sampling_interval}, static_cast<nix::PositionMatch>({match}));\n' + PRINT_OPT,
        oracle_body=RET_OPT, oracle_harness='getSampledIndex({position}, {offset}, {sampling_interval}, (PositionMatch){match});')),
}

H = 'include/nix/Dimensions.hpp'
PAIR = r'boost::optional<std::pair<ndsize_t,\s*ndsize_t>>\s+'
UNITS.update({
    'DataFrameDimension_indexOf_pair': dict(file=F, locator=PAIR + r'DataFrameDimension::indexOf\s*\((?=\s*double\s+start\s*,\s*double\s+end\s*,\s*ndsize_t)',
                                            cls='DataFrameDimension', cls_file=H),
    'SetDimension_indexOf_pair': dict(file=F, locator=PAIR + r'SetDimension::indexOf\s*\((?=\s*double\s+start\s*,\s*double\s+end\s*,\s*std::vector)',
                                      cls='SetDimension', cls_file=H, member_calls={'labels': 'SetDimension_labels'}),
    'SampledDimension_indexOf_pair': dict(file=F, locator=PAIR + r'SampledDimension::indexOf\s*\((?=\s*double\s+start\s*,\s*double\s+end\s*,\s*const\s+double\s+sampling_interval)',
                                          cls='SampledDimension', cls_file=H),
    'RangeDimension_indexOf_pair': dict(file=F, locator=PAIR + r'RangeDimension::indexOf\s*\((?=\s*double\s+start\s*,\s*double\s+end\s*,\s*std::vector)',
                                        cls='RangeDimension', cls_file=H, member_calls={'ticks': 'RangeDimension_ticks'}),
})
IAX_COVERS = ['COVER-has', 'COVER-none']
JOBS = [
    dict(name='toIndex', bodies=['toIndex'], enforce=['toIndex'], expect_kinds=['postcondition'], timeout=300),
    dict(name='getDataFrameIndex', bodies=['getDataFrameIndex'], enforce=['getDataFrameIndex'], covers=IAX_COVERS,
         expect_kinds=['postcondition'], timeout=600),
    dict(name='getSetIndex', bodies=['getSetIndex'], enforce=['getSetIndex'], covers=IAX_COVERS,
         expect_kinds=['postcondition'], timeout=600),
    dict(name='getIndex', bodies=['getIndex'], enforce=['getIndex'], replace=['std_lower_bound_idx', 'std_upper_bound_idx'],
         covers=['COVER-asc-LE-has', 'COVER-asc-LE-none', 'COVER-asc-Less-has', 'COVER-asc-GE-has', 'COVER-asc-GE-none',
                 'COVER-asc-Greater-has', 'COVER-asc-Equal-has', 'COVER-asc-k-below', 'COVER-asc-k-above', 'COVER-unsorted'],
         expect_kinds=['postcondition', 'precondition'], timeout=600),
]

JOBS += [
    dict(name='DataFrameDimension_indexOf_pair', bodies=['DataFrameDimension_indexOf_pair'], enforce=['DataFrameDimension_indexOf_pair'],
         replace=['getDataFrameIndex'], covers=['COVER-pair-has', 'COVER-pair-none'], expect_kinds=['postcondition', 'precondition'], timeout=600),
    dict(name='SetDimension_indexOf_pair', bodies=['SetDimension_indexOf_pair'], enforce=['SetDimension_indexOf_pair'],
         replace=['getSetIndex', 'SetDimension_labels'], covers=['COVER-pair-has', 'COVER-pair-none'], expect_kinds=['postcondition', 'precondition'], timeout=600),
    dict(name='RangeDimension_indexOf_pair', bodies=['RangeDimension_indexOf_pair'], enforce=['RangeDimension_indexOf_pair'],
         replace=['getIndex'], covers=['COVER-pair-has', 'COVER-pair-none', 'COVER-backend-ticks'], expect_kinds=['postcondition', 'precondition'], timeout=600),
]
MATCHES = ['LessOrEqual', 'Less', 'GreaterOrEqual', 'Greater', 'Equal']
def sampled_jobs():
    jobs = []
    def fmt(x): return repr(float(x))
    def add(s, o, tiers, chunks, per_match):
        for (lo, hi) in chunks:
            for m in (MATCHES if per_match else [None]):
                d = ['S_INT=' + s, 'S_OFF=' + o]
                nm = 'getSampledIndex[s=%s,o=%s' % (s, o)
                if lo is not None:
                    d += ['SAX_LO=%s' % lo, 'SAX_HI=%s' % hi]; nm += ',i=%s..%s' % (lo, hi)
                if m:
                    d += ['SAX_MATCH=PositionMatch_' + m]; nm += ',' + m
                nm += ']'
                cov = ['COVER-has'] + (['COVER-before-first'] if (lo is None or lo < 0) else [])
                jobs.append(dict(name=nm, bodies=['getSampledIndex'], enforce=['getSampledIndex'], defines=d, covers=cov,
                                 expect_kinds=['postcondition'], timeout=900, tiers=tiers))
    both = ('quick', 'thorough'); th = ('thorough',)
    WHOLE = [(None, None)]
    CH = [(-10, 16), (16, 256), (256, 4096), (4096, 10001)]
    # binary-fraction intervals: one run covers all positions and rules
    for s in ['1.0', '0.5', '0.25', '2.0', '0.0009765625', '1024.0']:
        for o in ['0.0', '(-(S_INT))', '(3*(S_INT))', '0.5']:
            quick = (s in ('1.0', '0.5') and o in ('0.0', '(3*(S_INT))')) or (s == '0.25' and o == '0.5')
            add(s, o, both if quick else th, WHOLE, False)
    # decimal intervals: split by rule and by index range
    add('0.1', '0.0', both, CH[:2], True)
    add('0.1', '0.0', th, CH[2:], True)
    for s, o in [('0.001', '0.0'), ('(1.0/3.0)', '0.0'), ('0.3', '0.0'), ('0.1', '0.1'), ('0.1', '(-0.7)'), ('0.001', '1e6')]:
        add(s, o, th, CH, True)
    return jobs
JOBS += sampled_jobs()
# sampled pair: end to end with the leaf BODY (reasoning from the local-form leaf contract would need the solver to
# prove monotonicity of i*s+o for symbolic i); binary-fraction axes, each matching mode separately
for (s_, o_, tiers_) in [('1.0', '0.0', ('quick', 'thorough')), ('0.5', '(3*(S_INT))', ('quick', 'thorough')), ('0.25', '0.5', ('thorough',)), ('2.0', '(-(S_INT))', ('thorough',))]:
    JOBS.append(dict(name='SampledDimension_indexOf_pair[s=%s,o=%s]' % (s_, o_), bodies=['getSampledIndex', 'SampledDimension_indexOf_pair'],
                     enforce=['SampledDimension_indexOf_pair'], replace=[], defines=['S_INT=' + s_, 'S_OFF=' + o_], tiers=tiers_,
                     covers=['COVER-pair-has', 'COVER-pair-none', 'COVER-exclusive-at-first-sample'], expect_kinds=['postcondition'], timeout=1200))

LST = r'std::vector<boost::optional<std::pair<ndsize_t,\s*ndsize_t>>>\s+'
def lst(cls, nargs, extra=None):
    d = dict(file=F, locator=LST + cls + r'::indexOf\s*\((?=\s*const\s+std::vector<double>\s*&\s*start_positions)', cls=cls + 'V', cls_decl=cls, cls_file='include/nix/Dimensions.hpp', classes=[cls + 'V'],
             member_calls={'indexOf': cls + 'V_indexOf_pair%d' % nargs}, bounded_twin=True, ret_default='(vec_opt_pair){0}',
             loops={0: '__CPROVER_assigns(i, gh_cv_calls, gh_cv_pushes, gh_cv_seen_start, gh_cv_seen_end, indices.n)\n'
                       '__CPROVER_loop_invariant(i <= start_positions->n && gh_cv_calls == i && gh_cv_pushes == i && indices.n == i && '
                       '(ghost_k < i ==> (SAME_DV(gh_cv_seen_start, start_positions->data[ghost_k]) && SAME_DV(gh_cv_seen_end, end_positions->data[ghost_k]))))\n'
                       '__CPROVER_decreases(start_positions->n - i)'})
    if extra: d.update(extra)
    return d
def ticks_value(ctx, toks):
    """vector<double> ticks = this->ticks();  (all ticks, handed to the pair conversion as a whole)  is the value type vec_double_t here"""
    for k, t in enumerate(toks):
        if t.t == 'vec_double' and toks[k + 1].t == 'ticks': t.t = 'vec_double_t'; ctx.env['ticks'] = ('vec_double_t', False)
    return toks
LUNITS = {'SampledDimensionV_indexOf_list': lst('SampledDimension', 5), 'SetDimensionV_indexOf_list': lst('SetDimension', 4),
          'RangeDimensionV_indexOf_list': lst('RangeDimension', 4, dict(pre_rules=[ticks_value])), 'DataFrameDimensionV_indexOf_list': lst('DataFrameDimension', 4)}
UNITS.update(LUNITS)
LX = 'size_t gh_cv_calls, gh_cv_pushes; RangeMatch gh_cv_match; double gh_cv_seen_start, gh_cv_seen_end;\n'
for fn in LUNITS:
    JOBS.append(dict(name=fn, bodies=[fn], enforce=[fn], replace=[], includes=['c07_vec.h'], extra_c=LX, loop_contracts=True, expect_kinds=['postcondition', 'loop_invariant_base', 'loop_invariant_step'], timeout=600))
    JOBS.append(dict(name=fn + '[bounded]', bodies=[fn], enforce=[fn], replace=[], includes=['c07_vec.h'], extra_c=LX, loop_contracts=False, defines=['NIX_NO_LOOP_CONTRACTS', 'C07V_BOUNDED=3'],
                     cbmc_flags=['--unwind', '5', '--unwinding-assertions'], expect_kinds=['postcondition', 'unwind'], timeout=600, bounded='lists of at most 3 pairs, loop unwound completely (twin without loop contract)'))
SPEC = dict(
    contracts=['c07_leaf.h', 'c07_pair.h', 'c07_vec.h'],
    stubs=['std_algo.h'],
    units=UNITS,
    jobs=JOBS,
    trusted_base=[
        'CBMC 6.11.0: C front end, goto-instrument --dfcc contract instrumentation, SAT back end (minisat2), IEEE-754 and floor/ceil/round/fabs models',
        'vlib/cxx2c.py idiom map (C++ -> C token rewrites, DESIGN.md section 4); residual scan + goto-cc type check, not proved',
        'assumed contract of std::lower_bound (stubs/std_algo.h): offset r<=n, t[r-1]<v, !(t[r]<v); partition/strict-ascent facts at ghost_k only under the premise that the ticks are strictly ascending',
        'boost::optional<T> / std::pair / std::vector<double> modelled as plain C structs (prelude/nixc.h)',
        'on paper: transitivity of < (instances x_0<=x_k<=x_{n-1} of "strictly ascending"); monotonicity of i -> (double)i*s+o (IEEE rounding is monotone), used to read the local sampled-axis clauses as largest/smallest',
    ],
    assumptions=[
        'range axis: ticks strictly ascending and position not NaN for the functional clauses (memory safety and in-range are proved without this premise); vector length <= 2^20',
        'set/data-frame axis: |position| < 2^53 (consecutive integers distinguishable as doubles); label/row count any 64-bit value, 0 = unbounded as the code documents',
        'sampled axis: enumerated grid of (interval, offset) constants, position symbolic over [x_0-10*interval, x_0+10001*interval]; NOT a proof for all intervals (symbolic double division/multiplication does not terminate in CBMC)',
        'machine arithmetic is bit-precise (doubles are IEEE-754 binary64, ndsize_t is 64-bit modular)',
    ],
)

SPEC['assumptions'] = list(SPEC.get('assumptions', [])) + ['session 3: list forms indexOf(start_positions, end_positions, match) - the pair conversion (its own units: c07_pair.h) is a ghost that checks the arguments of its k-th call; ASSUMED contract of std::upper_bound (not used by the pinned code)']
