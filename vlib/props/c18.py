"""C18 unit scaling (kernel): prefix table and factor selection.  DESIGN.md section 7."""
import re, os
import unit as U
UC = 'src/util/util.cpp'
SI = ["", "y", "z", "a", "f", "p", "n", "u", "m", "c", "d", "da", "h", "k", "M", "G", "T", "P", "E", "Z", "Y"]
def gen_table(workdir):
    """PREFIX_FACTORS initialiser of util.cpp -> prefix_table.h (C array indexed by SI list position)"""
    src = U.repo_text(UC)
    m = re.search(r'const\s+map<string,\s*double>\s+PREFIX_FACTORS\s*=\s*\{(.*?)\};', src, re.S)
    if not m: raise U.ExtractError('PREFIX_FACTORS initialiser not found')
    pairs = re.findall(r'\{\s*"([^"]+)"\s*,\s*([0-9.eE+\-]+)\s*\}', m.group(1))
    d = {}
    for k, v in pairs:
        if k in d: raise U.ExtractError('duplicate prefix %s' % k)      # std::map would silently keep the first
        d[k] = v
    unknown = [k for k in d if k not in SI]
    vals = ['1.0'] + [d.get(p, '(0.0/0.0) /* missing */') for p in SI[1:]]
    with open(os.path.join(workdir, 'prefix_table.h'), 'w') as f:
        f.write('/* generated from %s PREFIX_FACTORS (%d entries) */\n#define PREFIX_TABLE_ENTRIES %d\nstatic const double PREFIX_TABLE[21] = {%s};\n' %
                (UC, len(pairs), len(pairs) - len(unknown) if not unknown else -1, ', '.join(vals)))
UNITS = {'getSIScaling': dict(file=UC, locator=r'double\s+getSIScaling\s*\(', classes=['nstring', 'prefix_map'], globals={'PREFIX_FACTORS': 'prefix_map'}, calls={'pow': 'nix_powi'})}
def try_catch_all(ctx, toks):
    """try { S } catch (...) { throw nix::E(args); }  ->  { S } NIX_CATCH_ALL_RETHROW(E);   (S calls a callee that is NOT marked may-throw in this unit: the macro is the catch-all);
       std::vector<std::string> of this unit is vec_nstr (its elements are read)"""
    from cxx2c import Tok, P, seq_at, match_close, tokenize, fire
    for t in toks:
        if t.k == 'id' and t.t == 'vec_string': t.t = 'vec_nstr'
    out = []; i = 0
    while i < len(toks):
        t = toks[i]
        if t.t == 'try' and toks[i + 1].t == '{':
            e = match_close(toks, i + 1)
            if not seq_at(toks, e + 1, ['catch', '(', '...', ')', '{', 'throw']) and not seq_at(toks, e + 1, ['catch', '(', '.', '.', '.', ')', '{', 'throw']):
                raise ExtractError('try block without a catch-all that rethrows')
            j = e + 1
            while toks[j].t != 'throw': j += 1
            k = j + 1
            while toks[k].t in ('nix', '::', 'std'): k += 1
            exc = toks[k].t
            c = j
            while toks[c].t != '{': c -= 1
            ce = match_close(toks, c)
            out.extend(toks[i + 1:e + 1]); out.extend(tokenize(' NIX_CATCH_ALL_RETHROW(%s);' % exc)); i = ce + 1; fire(ctx, 'try-catch-all-rethrow'); continue
        out.append(t); i += 1
    return out
def unit_elements(ctx, toks):
    """units[i] != "none"  ->  nstring_ne_cstr(&units->data[i], "none");  units[i] as a const std::string& argument -> &units->data[i]"""
    from cxx2c import Tok, P, seq_at, tokenize, fire
    out = []; i = 0
    while i < len(toks):
        if seq_at(toks, i, ['units', '->', 'data', '[', 'i', ']', '!=']) and toks[i + 7].k == 'str':
            out.extend(tokenize('%snstring_ne_cstr(&units->data[i], %s)' % (toks[i].ws, toks[i + 7].t))); i += 8; fire(ctx, 'element-compare-literal'); continue
        if seq_at(toks, i, ['units', '->', 'data', '[', 'i', ']']) and out and out[-1].t == '(' and len(out) > 1 and out[-2].t == 'getSIScaling_caught':
            out.append(P('&', toks[i].ws)); toks[i].ws = ''; fire(ctx, 'element-address')
        out.append(toks[i]); i += 1
    return out
def string_equal(ctx, toks):
    """a == b  with both operands std::string variables  ->  nstring_eq(&a, &b)"""
    from cxx2c import tokenize, fire
    out = []; i = 0
    while i < len(toks):
        t = toks[i]
        if t.k == 'id' and t.t in ctx.env and ctx.env[t.t][0] == 'nstring' and toks[i + 1].t == '==' and toks[i + 2].k == 'id' and toks[i + 2].t in ctx.env and ctx.env[toks[i + 2].t][0] == 'nstring':
            out.extend(tokenize('%snstring_eq(&%s, &%s)' % (t.ws, t.t, toks[i + 2].t))); i += 3; fire(ctx, 'string-equal'); continue
        out.append(t); i += 1
    return out
UNITS['isScalable_pair'] = dict(file=UC, locator=r'bool\s+isScalable\s*\((?=\s*const\s+string\s*&\s*unitA)', classes=['nstring'], post_rules=[string_equal])
from cxx2c import ExtractError
UNITS['scalePositions'] = dict(file='src/util/dataAccess.cpp', locator=r'void\s+scalePositions\s*\(', classes=['nstring'], pre_rules=[try_catch_all], post_rules=[unit_elements], calls={'getSIScaling': 'getSIScaling_caught'}, subst={'vec_string': 'vec_nstr'})
EXTRA = 'prefix_map PREFIX_FACTORS; bool gh_scalable; int gh_org_prefix, gh_dest_prefix, gh_org_power, gh_dest_power;\n'
JOBS = [dict(name='getSIScaling[power=%d,org0=%d,dest0=%d]' % (pw, o0, d0), bodies=['getSIScaling'], enforce=['getSIScaling'], replace=[], extra_c=EXTRA,
             defines=['C18_POWER=(%d)' % pw, 'C18_ORG0=%d' % o0, 'C18_DEST0=%d' % d0], expect_kinds=['postcondition'], timeout=900)
        for pw in (-3, -2, -1, 0, 1, 2, 3) for o0 in (0, 1) for d0 in (0, 1)
        if not (pw < 0 and o0 == 0 and d0 == 0)] + [      # negative power with both prefixes present: the solver does not terminate (1/(q*q*q) with q a quotient); NOT claimed

        dict(name='lemma_c18_table', lemma='c18_table.c', entry='lemma_c18_table', enforce=[], replace=[], extra_c=EXTRA, covers=['COVER-reached'],
             cbmc_flags=['--unwind', '23', '--unwinding-assertions'], expect_kinds=['assertion'], timeout=300)]
JOBS.append(dict(name='scalePositions[bounded]', bodies=['scalePositions'], enforce=['scalePositions'], replace=[], includes=['c18_scale.h'],
                 extra_c='int gh_bad[SC_MAX]; int gh_dim_unit_id; size_t gh_sc_calls;\n', cbmc_flags=['--unwind', '4', '--unwinding-assertions'], expect_kinds=['postcondition', 'unwind'], timeout=900,
                 bounded='at most 2 positions; the loop writes the result arrays and is unwound completely'))
JOBS.append(dict(name='isScalable_pair', bodies=['isScalable_pair'], enforce=['isScalable_pair'], replace=[], includes=['c18_scalable.h'], extra_c='int gh_si[3], gh_pre[3], gh_base[3], gh_pow[3]; int gh_splits;\n',
                 expect_kinds=['postcondition'], timeout=300))
SPEC = dict(contracts=['c18_units.h', 'c18_scale.h', 'c18_scalable.h'], include_order=['c18_units.h'], stubs=[], units=UNITS, jobs=JOBS, pre_hook=gen_table,
            trusted_base=['CBMC 6.11.0 (C front end, --dfcc, SAT back end)', 'vlib/cxx2c.py idiom map; the PREFIX_FACTORS initialiser is turned into a C array by vlib/props/c18.py',
                          'std::string abstracted to an integer id; std::map::at = table lookup; pow for integer exponents -3..3 = repeated multiplication (libm rounding not modelled)',
                          'splitUnit / isScalable / isSIUnit (boost::regex grammar) are ghost inputs'],
            assumptions=['the three cases negative power x both prefixes present are NOT decided (solver does not terminate) and not claimed', 'KERNEL ONLY: the regex grammar (where multi-letter units and powers interact), retrieval invariance under rescaling, reciprocity/composition in double arithmetic are NOT covered',
                         'the factor clause is structural: it states which table entries are divided and when the power is applied, using the same operations as the code'])

SPEC['assumptions'] = list(SPEC.get('assumptions', [])) + ['session 3: scalePositions is a BOUNDED stand-in (2 positions) with getSIScaling as the constants 0.5 / 4.0 (a symbolic factor makes the products symbolic x symbolic); isScalable - isSIUnit / splitUnit are ghost inputs']
