"""C18 unit scaling (kernel): prefix table and factor selection.  DESIGN.md section 7."""
import re, os
import unit as U
UC = 'src/util/util.cpp'
SI = ["", "y", "z", "a", "f", "p", "n", "u", "m", "c", "d", "da", "h", "k", "M", "G", "T", "P", "E", "Z", "Y"]
def gen_table(workdir):
    """PREFIX_FACTORS initialiser of util.cpp -> prefix_table.h (C array indexed by SI list position)"""
    src = U.repo_text(UC)
    m = re.search(r'const\s+map<string,\s*double>\s+PREFIX_FACTORS\s*=\s*\{(.*?)\};', src, re.S)
    if not m: raise U.ExtractError('PREFIX_FACTORS initialiser not found')
    pairs = re.findall(r'\{\s*"([^"]+)"\s*,\s*([0-9.eE+\-]+)\s*\}', m.group(1))
    d = {}
    for k, v in pairs:
        if k in d: raise U.ExtractError('duplicate prefix %s' % k)      # std::map would silently keep the first
        d[k] = v
    unknown = [k for k in d if k not in SI]
    vals = ['1.0'] + [d.get(p, '(0.0/0.0) /* missing */') for p in SI[1:]]
    with open(os.path.join(workdir, 'prefix_table.h'), 'w') as f:
        f.write('/* generated from %s PREFIX_FACTORS (%d entries) */\n#define PREFIX_TABLE_ENTRIES %d\nstatic const double PREFIX_TABLE[21] = {%s};\n' %
                (UC, len(pairs), len(pairs) - len(unknown) if not unknown else -1, ', '.join(vals)))
UNITS = {'getSIScaling': dict(file=UC, locator=r'double\s+getSIScaling\s*\(', classes=['nstring', 'prefix_map'], globals={'PREFIX_FACTORS': 'prefix_map'}, calls={'pow': 'nix_powi'})}
EXTRA = 'prefix_map PREFIX_FACTORS; bool gh_scalable; int gh_org_prefix, gh_dest_prefix, gh_org_power, gh_dest_power;\n'
JOBS = [dict(name='getSIScaling[power=%d,org0=%d,dest0=%d]' % (pw, o0, d0), bodies=['getSIScaling'], enforce=['getSIScaling'], replace=[], extra_c=EXTRA,
             defines=['C18_POWER=(%d)' % pw, 'C18_ORG0=%d' % o0, 'C18_DEST0=%d' % d0], expect_kinds=['postcondition'], timeout=900)
        for pw in (-3, -2, -1, 0, 1, 2, 3) for o0 in (0, 1) for d0 in (0, 1)
        if not (pw < 0 and o0 == 0 and d0 == 0)] + [      # negative power with both prefixes present: the solver does not terminate (1/(q*q*q) with q a quotient); NOT claimed

        dict(name='lemma_c18_table', lemma='c18_table.c', entry='lemma_c18_table', enforce=[], replace=[], extra_c=EXTRA, covers=['COVER-reached'],
             cbmc_flags=['--unwind', '23', '--unwinding-assertions'], expect_kinds=['assertion'], timeout=300)]
SPEC = dict(contracts=['c18_units.h'], stubs=[], units=UNITS, jobs=JOBS, pre_hook=gen_table,
            trusted_base=['CBMC 6.11.0 (C front end, --dfcc, SAT back end)', 'vlib/cxx2c.py idiom map; the PREFIX_FACTORS initialiser is turned into a C array by vlib/props/c18.py',
                          'std::string abstracted to an integer id; std::map::at = table lookup; pow for integer exponents -3..3 = repeated multiplication (libm rounding not modelled)',
                          'splitUnit / isScalable / isSIUnit (boost::regex grammar) are ghost inputs'],
            assumptions=['the three cases negative power x both prefixes present are NOT decided (solver does not terminate) and not claimed', 'KERNEL ONLY: the regex grammar (where multi-letter units and powers interact), retrieval invariance under rescaling, reciprocity/composition in double arithmetic are NOT covered',
                         'the factor clause is structural: it states which table entries are divided and when the power is applied, using the same operations as the code'])
