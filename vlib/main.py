#!/usr/bin/env python3
"""./check <Cnn> [--tier quick|thorough] [--replay file] [--rebaseline] [--keep] [--only job-substring]

Decides one property by contract-based deductive verification (CBMC function contracts) of C text
extracted mechanically from /repo's current working tree.  See DESIGN.md."""
import sys, os, json, time, tempfile, shutil, importlib, re, subprocess, hashlib, traceback
from concurrent.futures import ThreadPoolExecutor
HERE = os.path.dirname(os.path.abspath(__file__))
ROOT = os.path.dirname(HERE)
sys.path.insert(0, HERE)
import unit as U, drive as D
from cxx2c import ExtractError

BASELINE_FILE = os.path.join(HERE, 'baseline_obligations.json')
KNOWN_FILE = os.path.join(ROOT, 'known_findings.json')

def stable_key(jobname, fn_hint, res, labels):
    """stable identity of an obligation across harmless edits of the body"""
    name = res['name']
    mc = re.match(r'^(COVER-[\w\-]+)', res['desc'])
    if mc and '.assertion.' in name:
        return '%s.post:%s' % (name.split('.assertion.')[0], mc.group(1))
    m = re.match(r'^(.*)\.postcondition\.(\d+)$', name)
    if m and m.group(1) in labels:
        ens = labels[m.group(1)][0]
        k = int(m.group(2)) - 1
        if k < len(ens) and ens[k]:
            return '%s.post:%s' % (m.group(1), ens[k])
    m = re.match(r'^(.*?)\.(\w+)\.(\d+)$', name)
    if m:
        fn, kind, n = m.groups()
        if kind in ('postcondition', 'precondition', 'loop_invariant_base', 'loop_invariant_step', 'loop_decreases',
                    'loop_assigns', 'loop_step_unwinding', 'assertion', 'assigns', 'unwind'):
            return '%s.%s.%s' % (fn, kind, n)
        return '%s.%s' % (fn, kind)          # built-in safety checks: numbered by body position
    return name

def label_of(key):
    return key

def load_known():
    if os.path.exists(KNOWN_FILE):
        return json.load(open(KNOWN_FILE))
    return {'findings': []}

def main():
    args = sys.argv[1:]
    if not args:
        print(__doc__); return 2
    pid = args[0]
    tier = os.environ.get('VERIF_TIER', 'quick')
    keep = False; only = None; rebase = False; replay = None
    i = 1
    while i < len(args):
        if args[i] == '--tier': tier = args[i + 1]; i += 2
        elif args[i] == '--keep': keep = True; i += 1
        elif args[i] == '--only': only = args[i + 1]; i += 2
        elif args[i] == '--rebaseline': rebase = True; i += 1
        elif args[i] == '--replay': replay = args[i + 1]; i += 2
        else: print('unknown argument', args[i]); return 2
    seed = int(os.environ.get('VERIF_SEED', '0') or 0)
    if replay:
        import replay as R
        return R.rerun(replay)
    t_start = time.time()
    try:
        spec = importlib.import_module('props.' + pid.lower()).SPEC
    except ModuleNotFoundError:
        print('UNDECIDED property=%s reason=no-such-check' % pid); return 2
    tmpbase = os.environ.get('TMPDIR', '/tmp')
    wd = tempfile.mkdtemp(prefix='nixverif_%s_' % pid, dir=tmpbase)
    try:
        return run(pid, spec, tier, seed, wd, only, rebase, t_start)
    except ExtractError as e:
        print('UNDECIDED property=%s reason=extraction: %s' % (pid, e)); return 2
    finally:
        if not keep:
            shutil.rmtree(wd, ignore_errors=True)
        else:
            print('workdir kept:', wd)

def preprocess_labels(cfile, defines, cnames):
    inc = ['-I', os.path.dirname(cfile), '-I', os.path.join(HERE, 'prelude'), '-I', os.path.join(HERE, 'contracts'), '-I', os.path.join(HERE, 'stubs'), '-I', os.path.join(HERE, 'lemmas')]
    can = ['-DNIX_CANARY_%s=__CPROVER_ensures(0&&"COVER-canary")' % c for c in cnames]
    p = subprocess.run(['gcc', '-E', '-CC', '-P', '-x', 'c', '-DNIXC_CBMC'] + can + ['-D' + d for d in defines] + inc + [cfile],
                       stdout=subprocess.PIPE, stderr=subprocess.DEVNULL, text=True, errors='replace')
    txt = p.stdout
    return {c: D.clause_labels(txt, c) for c in cnames}

def run(pid, spec, tier, seed, wd, only, rebase, t_start):
    enums, etext = U.read_enums()
    headers = ['contracts/' + h for h in spec.get('contracts', [])] + ['stubs/' + h for h in spec.get('stubs', [])]
    sigs = U.load_sigs(headers)
    if spec.get('pre_hook'):
        spec['pre_hook'](wd)
    # extract all units
    extracted = {}
    for name, u in spec['units'].items():
        uu = dict(u); uu.setdefault('cname', name)
        extracted[name] = U.extract(uu, enums, sigs)
    jobs = []
    for js in spec['jobs']:
        tiers = js.get('tiers', ('quick', 'thorough'))
        if tier not in tiers: continue
        if only and not any(o in js['name'] for o in only.split('|')): continue
        jobs.append(js)
    if seed:
        import random
        random.Random(seed).shuffle(jobs)
    includes = spec.get('include_order') or (spec.get('contracts', []) + spec.get('stubs', []))
    with open(os.path.join(wd, 'canary_defaults.h'), 'w') as f:
        for name in sorted(sigs):
            f.write('#ifndef NIX_CANARY_%s\n#define NIX_CANARY_%s\n#endif\n' % (name, name))
            f.write('#ifdef NIX_ENFORCE_%s\n#define NIX_SEL_%s(a, b) a\n#else\n#define NIX_SEL_%s(a, b) b\n#endif\n' % (name, name, name))
    built = []
    for js in jobs:
        bodies = [extracted[n].text for n in js.get('bodies', [])]
        if js.get('extra_c'): bodies.append(js['extra_c'])
        extra = ''
        enforce = js.get('enforce', [])
        if js.get('lemma'):
            with open(os.path.join(HERE, 'lemmas', js['lemma'])) as f:
                extra = f.read()
            entry = js['entry']
        else:
            fn = enforce[0]
            extra = D.gen_harness(fn, sigs[fn])
            entry = 'h_' + fn
        defines = list(js.get('defines', [])) + ['NIX_ENFORCE_' + f for f in enforce]
        fname = re.sub(r'[^\w\.\-\[\]=,]', '_', js['name'])
        cfile = D.write_unit_c(wd, fname, js.get('includes', includes), etext, bodies, extra)
        alltext = '\n'.join(bodies) + extra
        repl = list(js.get('replace', []))
        # a function with a contract that the (possibly changed) body calls but whose body is not linked in is
        # replaced by its contract: a change that introduces a call to another unit stays decidable
        bodyset = set(js.get('bodies', []))
        for name, sg in sigs.items():
            if sg.get('has_contract') and name not in repl and name not in bodyset and name not in enforce \
                    and re.search(r'\b%s\s*\(' % re.escape(name), alltext):
                repl.append(name)
        job = D.Job(workdir=wd, jobname=js['name'], filebase=fname, cfile=cfile, entry=entry, enforce=enforce, replace=repl,
                    loop_contracts=js.get('loop_contracts', False), unwind_first=js.get('unwind_first'),
                    cbmc_flags=js.get('cbmc_flags', []), defines=defines, timeout=js.get('timeout', 600), spec=js, known=set(sigs))
        built.append(job)
    def run_one(job):
        lost = [n for n in job.spec.get('bodies', []) if getattr(extracted[n], 'no_loops', False)]
        if job.loop_contracts and lost:
            return {'status': 'undecided', 'reason': 'loop contracts of %s could not be placed (loop structure changed)' % ', '.join(lost), 'log': '', 'results': [], 'wall': 0.0, 'cmd': ''}
        return D.run_job(job)
    with ThreadPoolExecutor(max_workers=int(os.environ.get('VERIF_JOBS', '16'))) as ex:
        results = list(ex.map(run_one, built))

    # thorough tier: cross-check on a second SAT back end (cadical) for every job that is not split and took under two minutes
    cross = {}
    if tier == 'thorough' and not os.environ.get('VERIF_NO_CROSS'):
        todo = [(j, r) for j, r in zip(built, results) if r['status'] in ('ok', 'failed') and not j.spec.get('split') and r['wall'] < 120 and getattr(j, 'cmd_c', None)]
        with ThreadPoolExecutor(max_workers=int(os.environ.get('VERIF_JOBS', '16'))) as ex:
            for (j, r), c in zip(todo, ex.map(lambda jr: D.cross_check(jr[0], jr[1]), todo)):
                cross[j.jobname] = c
    selftest = mutant_selftest(spec, built, results, enums, sigs, extracted, wd, includes, etext) if (tier == 'thorough' and not os.environ.get('VERIF_NO_SELFTEST')) else None
    baseline = json.load(open(BASELINE_FILE)) if os.path.exists(BASELINE_FILE) else {}
    base_p = baseline.get(pid, {})
    known = [k for k in load_known().get('findings', []) if k.get('property') == pid]
    undecided = []; violations = []; per_unit = []; samples = []
    n_obl = 0; n_dis = 0; solver_s = 0.0
    new_base = {}
    bounded = []
    for job, r in zip(built, results):
        js = job.spec
        labels = preprocess_labels(job.cfile, job.defines, job.enforce)
        solver_s += r['wall']
        cc = cross.get(job.jobname)
        if cc and cc.get('agree') is False:
            undecided.append((job.jobname, 'SAT back ends disagree (minisat2 vs %s): %s' % (cc['solver'], cc['differences']), ''))
        if r['status'] == 'undecided':
            undecided.append((job.jobname, r['reason'], r['log'][-1500:]))
            per_unit.append({'job': job.jobname, 'status': 'undecided', 'reason': r['reason']}); continue
        kinds = {}
        job_obl = 0; job_dis = 0; covers_hit = []; covers_missed = []; fails = []
        keys = set()
        for res in r['results']:
            key = stable_key(job.jobname, None, res, labels)
            is_cover = '.post:COVER' in key
            if is_cover:
                (covers_hit if res['status'] == 'FAILURE' else covers_missed).append(key)
                continue
            if res['status'] != 'SUCCESS' and match_known(known, {'key': key, 'job': job}):
                # a listed known finding: reported below as KNOWN-FINDING, not counted as an obligation of the proof
                fails.append((key, res)); continue
            job_obl += 1
            kind = key.split('.post:')[0] + '.postcondition' if '.post:' in key else key
            kk = re.sub(r'\.\d+$', '', kind)
            kinds[kk] = kinds.get(kk, 0) + 1
            keys.add(key)
            if res['status'] == 'SUCCESS':
                job_dis += 1
            else:
                fails.append((key, res))
        # required obligation kinds (vacuity / silently dropped loop contracts)
        for need in js.get('expect_kinds', []):
            alt = '.post:' if need == 'postcondition' else '.' + need
            if not any(alt in k for k in keys):
                undecided.append((job.jobname, 'expected obligation kind %s missing' % need, ''))
        if os.environ.get('VERIF_VERBOSE'):
            print('job', job.jobname, 'covers hit', covers_hit, 'missed', covers_missed, 'fails', [(k, r_['status']) for k, r_ in fails])
        if not js.get('lemma'):
            js = dict(js); js['covers'] = list(js.get('covers') or []) + (['COVER-canary'] if js.get('canary', True) else [])
        if js.get('covers') is not None:
            want = set(js['covers'])
            got = {c.split('.post:')[1] for c in covers_hit}
            if covers_missed or not want <= got:
                undecided.append((job.jobname, 'vacuity guard: cover points not reachable: %s' % sorted((want - got) | {c.split(".post:")[1] for c in covers_missed}), ''))
        if job_obl == 0:
            undecided.append((job.jobname, 'zero obligations', ''))
        is_bounded = bool(js.get('bounded'))
        if is_bounded:
            bounded.append({'job': job.jobname, 'bound': js['bounded'], 'obligations': job_obl, 'passed': job_dis})
        else:
            n_obl += job_obl; n_dis += job_dis
        new_base[job.jobname] = sorted(keys - {k for k, _ in fails})
        per_unit.append({'job': job.jobname, 'function': (job.enforce or [job.entry])[0], 'status': r['status'], 'obligations': job_obl,
                         'discharged': job_dis, 'by_kind': kinds, 'backend': js.get('backend', 'cbmc 6.11.0 SAT (minisat2)'),
                         'solver_wall_s': round(r['wall'], 2), 'covers_reached': len(covers_hit), 'bounded': js.get('bounded'),
                         'defines': js.get('defines', []), 'cross_check': cross.get(job.jobname)})
        for key, res in fails:
            blocked = res['status'] == 'UNKNOWN'
            if blocked and any(f[1]['status'] == 'FAILURE' for f in fails):
                continue                     # not reached because of an earlier failure in the same run
            was = key in base_p.get(job.jobname, [])
            violations.append({'job': job, 'key': key, 'res': res, 'in_baseline': was, 'log': r['log']})
        if len(samples) < 6:
            for res in r['results'][:400]:
                key = stable_key(job.jobname, None, res, labels)
                if '.post:' in key and 'COVER' not in key and len(samples) < 6 and res['status'] == 'SUCCESS':
                    samples.append({'obligation': key, 'job': job.jobname, 'status': res['status'], 'where': res['desc'][:120]})
                    break

    if rebase:
        baseline[pid] = {**base_p, **new_base} if only else new_base
        json.dump(baseline, open(BASELINE_FILE, 'w'), indent=1, sort_keys=True)
        print('baseline for %s rewritten: %d jobs' % (pid, len(new_base)))

    # ---- verdict -------------------------------------------------------------------------
    rc = 0
    out_lines = []
    real_viol = []
    known_seen = []
    SAFETY = ('overflow', 'pointer_dereference', 'pointer_arithmetic', 'array_bounds', 'pointer', 'division-by-zero', 'undefined-shift', 'pointer_primitives', 'NaN', 'unwind')
    for v in violations:
        if not v['in_baseline'] and spec.get('new_safety_failures_are_violations') and v['job'].jobname in base_p \
                and v['key'].split('.')[-1] in SAFETY and v['key'].split('.')[0] in (v['job'].enforce or []):
            # C16: a built-in safety check that appears (and fails) in a function under contract is undefined behaviour
            # reachable under type-invariant-only preconditions, whether or not the same kind of check existed before
            v['in_baseline'] = True
        kf0 = match_known(known, v)
        if kf0:
            # a listed finding is identified by (job, obligation): it is reported as KNOWN-FINDING whether or not the obligation was ever discharged
            known_seen.append(kf0); continue
        if not v['in_baseline'] and not rebase:
            undecided.append((v['job'].jobname, 'obligation %s failed but is not in the baseline of discharged obligations' % v['key'], ''))
            continue
        kf = match_known(known, v)
        if kf:
            known_seen.append(kf); continue
        real_viol.append(v)
    for kf in {k['id']: k for k in known_seen}.values():
        out_lines.append('KNOWN-FINDING: property=%s %s' % (pid, kf['what']))
    if real_viol and not rebase:
        import replay as R
        os.makedirs(os.path.join(ROOT, 'replays', pid), exist_ok=True)
        seen_paths = set()
        for v in real_viol:
            safe = (v['job'].jobname, v['key'])
            if safe in seen_paths: continue
            seen_paths.add(safe)
            path, found = R.make_replay(pid, v, spec, extracted, sigs, ROOT)
            out_lines.append('VIOLATION property=%s replay=%s%s' % (pid, path, '' if found else ' no-failing-input-found'))
        rc = 1
    if undecided and rc == 0 and not rebase:
        rc = 2
    wall = time.time() - t_start
    ev = {
        'property_id': pid, 'tier': tier, 'seed': seed, 'level': 'proof',
        'coverage': {
            'obligations': n_obl, 'discharged': n_dis,
            'checker_cmd': 'goto-cc --function h_<f> <gen>.c && goto-instrument --dfcc h_<f> --enforce-contract <f> [--replace-call-with-contract <g>] [--apply-loop-contracts] && cbmc ' + ' '.join(D.CBMC_CHECKS),
            'trusted_base': spec.get('trusted_base', []),
            'samples': samples or [{'note': 'no postcondition sample available'}],
            'functions_under_contract': [{'function': e.cname, 'file': e.file, 'lines': list(e.lines), 'source_sha256_16': e.src_sha,
                                          'generated_sha256_16': e.gen_sha, 'rewrite_counts': e.counts} for e in extracted.values()],
            'per_unit': per_unit,
            'bounded': bounded,
            'solver_wall_s_total': round(solver_s, 1),
            'undecided': [{'job': j, 'reason': r} for j, r, _ in undecided],
            'known_findings_seen': [k['id'] for k in known_seen],
            'exhaustive': False,
            'mutant_selftest': selftest,
        },
        'assumptions': spec.get('assumptions', []),
        'wall_s': round(wall, 1),
        'violations': len(real_viol),
    }
    # (VERIF_EVIDENCE_DIR: used when the checks are pointed at seeded mutants, so that the committed evidence stays that of the real tree)
    ev_dir = os.environ.get('VERIF_EVIDENCE_DIR') or os.path.join(ROOT, 'evidence')
    os.makedirs(ev_dir, exist_ok=True)
    with open(os.path.join(ev_dir, pid + '.json'), 'w') as f:
        json.dump(ev, f, indent=1)
    for l in out_lines: print(l)
    for j, reason, log in undecided:
        print('UNDECIDED property=%s job=%s reason=%s' % (pid, j, reason))
        if log and os.environ.get('VERIF_VERBOSE'): print(log)
    print('%s tier=%s: %d/%d obligations discharged in %d jobs (%d bounded-only jobs), %.0fs wall, %.0fs solver' %
          (pid, tier, n_dis, n_obl, len(built), len(bounded), wall, solver_s))
    return rc

MUT_RULES = [(r'\bif\s*\(', 'if (false && '), (r'\bif\s*\(', 'if (true || '), (r'<=', '<'), (r'>=', '>'), (r'(?<![<>=!-])<(?![<=])', '<='), (r'(?<![<>=!-])>(?![>=])', '>='), (r'==', '!='), (r'!=', '=='), (r'&&', '||'), (r'\|\|', '&&'),
             (r'\+ 1\b', '+ 2'), (r'- 1\b', '- 0'), (r'\btrue\b', 'false'), (r'\bfalse\b', 'true')]

def mutant_selftest(spec, built, results, enums, sigs, extracted, wd, includes, etext):
    """thorough tier: for every cheap unit job, up to three deliberately broken copies of the source span (one operator flipped) go through the
    same pipeline; a mutant is 'killed' when some obligation fails, 'undecided' when the pipeline refuses it.  A unit none of whose
    mutants is killed is reported as 'contract too weak' - in the evidence only, it decides nothing."""
    import random
    report = {}
    todo = []
    for job, r in zip(built, results):
        js = job.spec
        if js.get('lemma') or not job.enforce or r['status'] not in ('ok', 'failed') or r['wall'] > 40 or js.get('split'): continue
        fn = job.enforce[0]
        if fn not in spec['units'] or fn in report or fn not in extracted: continue
        ex = extracted[fn]
        body_start = ex.span.find('{')
        muts = []
        for rx, rep in MUT_RULES:
            ms = [m for m in re.finditer(rx, ex.span) if m.start() > body_start and ex.span.count('"', 0, m.start()) % 2 == 0]
            if ms:
                m = ms[len(ms) // 2]
                muts.append(('%s -> %s at offset %d' % (m.group(), rep, m.start()), ex.span[:m.start()] + rep + ex.span[m.end():]))
        report[fn] = {'job': job.jobname, 'mutants': 0, 'killed': 0, 'undecided': 0, 'survivors': []}
        for k, (desc, mspan) in enumerate(muts[:4]):
            todo.append((fn, job, k, desc, mspan))
    def one(item):
        fn, job, k, desc, mspan = item
        u = dict(spec['units'][fn]); u.setdefault('cname', fn)
        full = U.repo_text(u['file'])
        ex0 = extracted[fn]
        if full.count(ex0.span) != 1:
            return fn, desc, 'undecided'
        try:
            U._file_cache[('MUT', fn, k)] = full.replace(ex0.span, mspan)
            u2 = dict(u); u2['file'] = ('MUT', fn, k)
            exm = U.extract(u2, enums, sigs)
        except Exception:
            return fn, desc, 'undecided'
        js = job.spec
        bodies = [(exm.text if n == fn else extracted[n].text) for n in js.get('bodies', [])]
        if js.get('extra_c'): bodies.append(js['extra_c'])
        name = re.sub(r'[^\w]', '_', 'mut_%s_%d' % (job.jobname, k))
        cfile = D.write_unit_c(wd, name, js.get('includes', includes), etext, bodies, D.gen_harness(fn, sigs[fn]))
        j2 = D.Job(**{**job.__dict__, 'jobname': name, 'filebase': name, 'cfile': cfile, 'replace': list(job.replace)})
        r2 = D.run_job(j2)
        if r2['status'] == 'undecided': return fn, desc, 'undecided'
        fails = [x for x in r2['results'] if x['status'] == 'FAILURE' and 'COVER' not in x['desc']]
        # the canary clause always fails; a kill needs another failure
        fails = [x for x in fails if not re.search(r'postcondition\.\d+$', x['name']) or 'canary' not in (x.get('desc') or '')]
        real = [x for x in r2['results'] if x['status'] == 'FAILURE']
        return fn, desc, ('killed' if len(real) > 1 else 'survived')
    with ThreadPoolExecutor(max_workers=int(os.environ.get('VERIF_JOBS', '16'))) as ex:
        for fn, desc, verdict in ex.map(one, todo):
            rep = report[fn]; rep['mutants'] += 1
            if verdict == 'killed': rep['killed'] += 1
            elif verdict == 'undecided': rep['undecided'] += 1
            else: rep['survivors'].append(desc)
    for fn, rep in report.items():
        rep['verdict'] = 'no mutant generated' if rep['mutants'] == 0 else ('ok' if rep['killed'] > 0 else ('all mutants refused by the pipeline' if rep['undecided'] == rep['mutants'] else 'CONTRACT TOO WEAK: no mutant killed'))
    return report

def match_known(known, v):
    for k in known:
        if k.get('status') != 'known': continue
        if k.get('obligation') == v['key'] and (k.get('job') in (None, v['job'].jobname)):
            return k
    return None

if __name__ == '__main__':
    sys.exit(main())
